#!/usr/bin/env python3
"""rs2lean.py -- translator from a small, loop-free subset of Rust to Lean 4 definitions.

Re-run on every check.  Reads /repo (or $VERIF_REPO) and rewrites /verif/lean/TF/Gen/*.lean (only when the
content changed, so `lake build` stays incremental).  It refuses anything outside its subset instead of
guessing; a refusal is recorded in TF/Gen/status.json and handled by the checker (DESIGN §5.3 case 2).

Two back ends:
  * "nat": every machine integer is a Lean `Nat` below 2^width.  Wrapping operations are explicit
    `% 2^w`; *plain* `+ - *`, shifts, narrowing casts are emitted with **release** semantics (wrapping) and a
    second definition `<fn>_ok : ... -> Bool` is emitted which is true iff no plain operation overflowed,
    no shift amount was out of range, no division by zero / `ilog2(0)` happened and every `assert!` held,
    i.e. iff debug and release builds agree with unbounded integer arithmetic and nothing panics.
  * "uint": machine integers are Lean `UInt64` (only wrapping_* / literals / indexing), used for the
    230-operation `mds::generated_function` where `grind` proves ring identities modulo 2^64 directly.
"""
import hashlib
import json
import os
import re
import sys
sys.path.insert(0, os.path.dirname(os.path.abspath(__file__)))

REPO = os.environ.get("VERIF_REPO", "/repo")
OUT = os.path.join(os.path.dirname(os.path.abspath(__file__)), "..", "lean", "TF", "Gen")
OUT = os.path.normpath(OUT)


class Unsupported(Exception):
    pass


# --------------------------------------------------------------------------------------------------------
# source access
# --------------------------------------------------------------------------------------------------------

def read(rel):
    with open(os.path.join(REPO, rel)) as f:
        return f.read()


def strip_comments(src):
    # remove // comments and /* */ comments (no string literals with // in the translated functions)
    src = re.sub(r"/\*.*?\*/", " ", src, flags=re.S)
    out = []
    for line in src.split("\n"):
        i = line.find("//")
        if i >= 0:
            line = line[:i]
        out.append(line)
    return "\n".join(out)


def balanced(src, start, open_ch="{", close_ch="}"):
    """src[start] must be open_ch; returns index just after the matching close."""
    assert src[start] == open_ch, (src[start:start + 20], open_ch)
    depth = 0
    i = start
    while i < len(src):
        c = src[i]
        if c == open_ch:
            depth += 1
        elif c == close_ch:
            depth -= 1
            if depth == 0:
                return i + 1
        i += 1
    raise Unsupported("unbalanced " + open_ch)


def find_fn(src, name, after=None):
    """returns (params_text, ret_text, body_text) of `fn name(...) -> ret { body }`;
    `after`: regex that must match before the function (to disambiguate impl blocks)."""
    pos = 0
    if after:
        m = re.search(after, src)
        if not m:
            raise Unsupported(f"anchor {after!r} not found")
        pos = m.end()
    m = re.compile(r"\bfn\s+" + re.escape(name) + r"\s*(<[^>]*>)?\s*\(").search(src, pos)
    if not m:
        raise Unsupported(f"fn {name} not found")
    p0 = m.end() - 1
    p1 = balanced(src, p0, "(", ")")
    params = src[p0 + 1:p1 - 1]
    b0 = src.index("{", p1)
    ret = src[p1:b0].strip()
    if ret.startswith("->"):
        ret = ret[2:].strip()
    b1 = balanced(src, b0)
    return params, ret, src[b0 + 1:b1 - 1]


# --------------------------------------------------------------------------------------------------------
# tokenizer
# --------------------------------------------------------------------------------------------------------

TOKEN_RE = re.compile(r"""
    (?P<ws>\s+)
  | (?P<str>"(?:[^"\\]|\\.)*")
  | (?P<num>0x[0-9a-fA-F_]+(?:[ui](?:8|16|32|64|128|size))? | [0-9][0-9_]*(?:[ui](?:8|16|32|64|128|size))?)
  | (?P<id>[A-Za-z_][A-Za-z0-9_]*)
  | (?P<op><<=|>>=|\.\.=|::|->|=>|<<|>>|<=|>=|==|!=|&&|\|\||\+=|-=|\*=|/=|\.\.|[-+*/%&|^!<>=.,;:(){}\[\]#])
""", re.X)


def tokenize(s):
    toks = []
    i = 0
    while i < len(s):
        m = TOKEN_RE.match(s, i)
        if not m:
            raise Unsupported(f"cannot tokenize at {s[i:i + 30]!r}")
        i = m.end()
        if m.lastgroup == "ws":
            continue
        toks.append((m.lastgroup, m.group(m.lastgroup)))
    toks.append(("eof", ""))
    return toks


INT_TYPES = {"u8": 8, "u16": 16, "u32": 32, "u64": 64, "u128": 128, "usize": 64}


# --------------------------------------------------------------------------------------------------------
# parser -> AST (tuples)
# --------------------------------------------------------------------------------------------------------

class Parser:
    def __init__(self, toks):
        self.t = toks
        self.i = 0

    def peek(self, k=0):
        return self.t[self.i + k]

    def next(self):
        tok = self.t[self.i]
        self.i += 1
        return tok

    def accept(self, val):
        if self.t[self.i][1] == val and self.t[self.i][0] != "num":
            self.i += 1
            return True
        return False

    def expect(self, val):
        if not self.accept(val):
            raise Unsupported(f"expected {val!r}, got {self.t[self.i]!r}")

    # ---- types
    def parse_type(self):
        if self.accept("&"):
            self.accept("mut")
            return self.parse_type()
        if self.accept("["):
            el = self.parse_type()
            n = None
            if self.accept(";"):
                n = self.parse_expr()
            self.expect("]")
            return ("array", el, n)
        if self.accept("("):
            ts = []
            while not self.accept(")"):
                ts.append(self.parse_type())
                self.accept(",")
            return ("tuple", ts)
        k, v = self.next()
        if k != "id":
            raise Unsupported(f"type {v!r}")
        while self.accept("::"):
            k, v = self.next()
        return ("named", v)

    # ---- block
    def parse_block_body(self, end="}"):
        """statements until `end`; returns AST expression (nested lets)"""
        stmts = []
        final = None
        while True:
            if self.peek()[1] == end and self.peek()[0] in ("op", "eof"):
                break
            if self.peek()[1] == "#":  # attribute
                self.next()
                self.expect("[")
                depth = 1
                while depth:
                    k, v = self.next()
                    if v == "[":
                        depth += 1
                    elif v == "]":
                        depth -= 1
                continue
            if self.accept("let"):
                self.accept("mut")
                if self.accept("("):
                    names = []
                    while not self.accept(")"):
                        self.accept("mut")
                        k, v = self.next()
                        if k != "id":
                            raise Unsupported("tuple pattern")
                        names.append(v)
                        self.accept(",")
                    pat = ("ptuple", names)
                else:
                    k, v = self.next()
                    if k != "id":
                        raise Unsupported("let pattern")
                    pat = ("pid", v)
                ty = None
                if self.accept(":"):
                    ty = self.parse_type()
                self.expect("=")
                e = self.parse_expr()
                self.expect(";")
                stmts.append(("let", pat, ty, e))
                continue
            if self.accept("const"):
                k, v = self.next()
                self.expect(":")
                ty = self.parse_type()
                self.expect("=")
                e = self.parse_expr()
                self.expect(";")
                stmts.append(("let", ("pid", v), ty, e))
                continue
            if self.peek()[1] == "return":
                self.next()
                final = self.parse_expr()
                self.accept(";")
                break
            if self.peek()[1] == "if":
                # `if c { return e; }` without else, followed by more statements: early return
                save = self.i
                self.next()
                c = self.parse_expr()
                self.expect("{")
                if self.accept("return"):
                    r = self.parse_expr()
                    self.accept(";")
                    self.expect("}")
                    if self.peek()[1] != "else":
                        stmts.append(("earlyret", c, r))
                        continue
                self.i = save
            if self.peek()[1] in ("assert", "debug_assert") and self.peek(1)[1] == "!":
                is_debug = self.peek()[1] == "debug_assert"
                self.next(); self.next()
                self.expect("(")
                cond = self.parse_expr()
                # skip message
                depth = 1
                while depth:
                    k, v = self.next()
                    if v == "(":
                        depth += 1
                    elif v == ")":
                        depth -= 1
                self.expect(";")
                if not is_debug:
                    stmts.append(("assert", cond))
                continue
            e = self.parse_expr()
            # ---- BEGIN G01: `*self = e;` / `*self OP= e;` as the LAST statement of a `&mut self` body: the value of the
            # block is the new `*self` (nodes `assign`/`assignop`; only the field-level emitter accepts them)
            if self.peek()[0] == "op" and self.peek()[1] in ("=", "+=", "-=", "*="):
                aop = self.next()[1]
                rhs = self.parse_expr()
                self.accept(";")
                if not (self.peek()[1] == end and self.peek()[0] in ("op", "eof")):
                    raise Unsupported("assignment that is not the last statement")
                final = ("assign", e, rhs) if aop == "=" else ("assignop", aop, e, rhs)
                break
            # ---- END G01
            if self.accept(";"):
                raise Unsupported("expression statement")
            final = e
            break
        if final is None:
            raise Unsupported("block without final expression")
        for st in reversed(stmts):
            if st[0] == "let":
                final = ("let", st[1], st[2], st[3], final)
            elif st[0] == "earlyret":
                final = ("if", st[1], st[2], final)
            else:
                final = ("assert", st[1], final)
        return final

    # ---- expressions (precedence climbing)
    BIN = [
        ["||"], ["&&"], ["==", "!=", "<", ">", "<=", ">="], ["|"], ["^"], ["&"], ["<<", ">>"], ["+", "-"],
        ["*", "/", "%"],
    ]

    def parse_expr(self, lvl=0):
        if lvl == len(self.BIN):
            return self.parse_cast()
        lhs = self.parse_expr(lvl + 1)
        while self.peek()[0] == "op" and self.peek()[1] in self.BIN[lvl]:
            op = self.next()[1]
            rhs = self.parse_expr(lvl + 1)
            lhs = ("bin", op, lhs, rhs)
        return lhs

    def parse_cast(self):
        e = self.parse_unary()
        while self.accept("as"):
            ty = self.parse_type()
            e = ("cast", e, ty)
        return e

    def parse_unary(self):
        if self.accept("!"):
            return ("not", self.parse_unary())
        if self.accept("-"):
            return ("neg", self.parse_unary())
        if self.accept("*") or self.accept("&"):
            self.accept("mut")
            return self.parse_unary()
        return self.parse_postfix()

    def parse_args(self):
        args = []
        while not self.accept(")"):
            args.append(self.parse_expr())
            self.accept(",")
        return args

    def parse_postfix(self):
        e = self.parse_primary()
        while True:
            if self.accept("."):
                k, v = self.next()
                if k == "num":
                    e = ("field", e, int(v))
                elif k == "id":
                    if self.accept("("):
                        e = ("mcall", e, v, self.parse_args())
                    else:
                        e = ("fieldn", e, v)
                else:
                    raise Unsupported("postfix .")
            elif self.accept("["):
                idx = self.parse_expr()
                self.expect("]")
                e = ("index", e, idx)
            else:
                return e

    def parse_primary(self):
        k, v = self.peek()
        if k == "num":
            self.next()
            m = re.match(r"^(0x[0-9a-fA-F_]+?|[0-9][0-9_]*?)((?:[ui](?:8|16|32|64|128|size)))?$", v)
            lit, suf = m.group(1), m.group(2)
            val = int(lit.replace("_", ""), 0)
            return ("lit", val, suf)
        if v == "(" and k == "op":
            self.next()
            items = []
            trailing = False
            while not self.accept(")"):
                items.append(self.parse_expr())
                trailing = self.accept(",")
            if len(items) == 1 and not trailing:
                return items[0]
            return ("tuple", items)
        if v == "[" and k == "op":
            self.next()
            items = []
            while not self.accept("]"):
                items.append(self.parse_expr())
                self.accept(",")
            return ("arraylit", items)
        if v == "{" and k == "op":
            self.next()
            b = self.parse_block_body()
            self.expect("}")
            return b
        if v == "if":
            self.next()
            c = self.parse_expr()
            self.expect("{")
            t = self.parse_block_body()
            self.expect("}")
            self.expect("else")
            if self.peek()[1] == "if":
                e = self.parse_primary()
            else:
                self.expect("{")
                e = self.parse_block_body()
                self.expect("}")
            return ("if", c, t, e)
        if k == "id":
            self.next()
            path = [v]
            while self.accept("::"):
                kk, vv = self.next()
                if kk != "id":
                    raise Unsupported("path")
                path.append(vv)
            if self.accept("("):
                return ("call", path, self.parse_args())
            return ("path", path)
        raise Unsupported(f"primary {v!r}")


# --------------------------------------------------------------------------------------------------------
# emission, back end "nat"
# --------------------------------------------------------------------------------------------------------

def balanced_paren(o):
    """o starts with '(' -- is its matching ')' the last char?"""
    d = 0
    for i, c in enumerate(o):
        if c == "(":
            d += 1
        elif c == ")":
            d -= 1
            if d == 0:
                return i == len(o) - 1
    return False


def p2(w):
    return str(2 ** w)


class NatEmitter:
    """emit(e, env, expected) -> (lean_term, type, ok_term)   where ok_term is a Bool-valued Lean term
    (or None for "true") that holds iff evaluating e triggered no overflow/panic."""

    def __init__(self, consts, fns, self_ty="u64"):
        self.consts = consts      # name -> (value, type)
        self.fns = fns            # rust fn name -> (lean name, [param types], ret type)
        self.self_ty = self_ty
        self.uid = 0

    @staticmethod
    def conj(*oks):
        oks = [o for o in oks if o and o != "true"]
        if not oks:
            return None
        def wrap(o):
            if " " not in o or (o.startswith("(") and o.endswith(")") and balanced_paren(o)):
                return o
            return f"({o})"
        return " && ".join(wrap(o) for o in oks)

    def width(self, ty):
        if ty in INT_TYPES:
            return INT_TYPES[ty]
        raise Unsupported(f"width of {ty}")

    def tyname(self, ty):
        if ty[0] == "named":
            n = ty[1]
            if n in ("Self", "BFieldElement"):
                return self.self_ty
            return n
        if ty[0] == "tuple":
            return ("tuple", [self.tyname(t) for t in ty[1]])
        if ty[0] == "array":
            return ("array", self.tyname(ty[1]))
        raise Unsupported(f"type {ty}")

    def emit(self, e, env, exp=None):
        k = e[0]
        if k == "lit":
            ty = e[2] or exp
            if ty is None or ty == "bool":
                ty = exp if exp in INT_TYPES else "u64" if exp is None else exp
            if ty not in INT_TYPES:
                raise Unsupported(f"literal of type {ty}")
            if e[1] >= 2 ** INT_TYPES[ty]:
                raise Unsupported("literal out of range")
            return str(e[1]), ty, None
        if k == "path":
            p = e[1]
            if len(p) == 1:
                n = p[0]
                if n in env:
                    return env[n][0], env[n][1], None
                if n in self.consts:
                    return str(self.consts[n][0]), self.consts[n][1], None
                if n == "true":
                    return "true", "bool", None
                if n == "false":
                    return "false", "bool", None
                if n == "self":
                    return "self", self.self_ty, None
                raise Unsupported(f"unknown identifier {n}")
            if len(p) == 2:
                a, b = p
                if a in ("Self", "BFieldElement") and b in self.consts:
                    return str(self.consts[b][0]), self.consts[b][1], None
                if a in INT_TYPES and b == "MAX":
                    return str(2 ** INT_TYPES[a] - 1), a, None
                if a in INT_TYPES and b == "BITS":
                    return str(INT_TYPES[a]), "u32", None
                if a == "i64" and b == "MAX":
                    return str(2 ** 63 - 1), "i64", None
            raise Unsupported(f"path {p}")
        if k == "field":
            # .0 on a BFieldElement is the raw word
            t, ty, ok = self.emit(e[1], env, exp)
            if e[2] == 0 and ty == self.self_ty:
                return t, ty, ok
            raise Unsupported("tuple field access")
        if k == "cast":
            target = self.tyname(e[2])
            t, ty, ok = self.emit(e[1], env, None if e[1][0] != "lit" else target)
            if ty == "bool":
                if target not in INT_TYPES:
                    raise Unsupported("bool cast")
                return f"(if {t} then 1 else 0)", target, ok
            if target not in INT_TYPES or ty not in INT_TYPES:
                raise Unsupported(f"cast {ty} -> {target}")
            if INT_TYPES[target] >= INT_TYPES[ty]:
                return t, target, ok
            return f"({t} % {p2(INT_TYPES[target])})", target, ok   # `as` truncates silently: no ok-term
        if k == "not":
            t, ty, ok = self.emit(e[1], env, exp)
            if ty == "bool":
                return f"(!{t})", ty, ok
            return f"({2 ** self.width(ty) - 1} - {t})", ty, ok
        if k == "bin":
            return self.emit_bin(e, env, exp)
        if k == "if":
            c, cty, cok = self.emit(e[1], env, "bool")
            if cty != "bool":
                raise Unsupported("if condition")
            t, tty, tok = self.emit(e[2], env, exp)
            f, fty, fok = self.emit(e[3], env, exp or tty)
            if tty != fty:
                raise Unsupported(f"if branches {tty} vs {fty}")
            ok = None
            if tok or fok:
                ok = f"if {c} then {tok or 'true'} else {fok or 'true'}"
            return f"(if {c} then {t} else {f})", tty, self.conj(cok, ok)
        if k == "let":
            _, pat, ty, val, body = e
            expv = self.tyname(ty) if ty else None
            v, vty, vok = self.emit(val, env, expv)
            env2 = dict(env)
            if pat[0] == "pid":
                name = self.fresh(pat[1], env)
                env2[pat[1]] = (name, vty)
                b, bty, bok = self.emit(body, env2, exp)
                head = f"let {name} := {v}\n  "
            else:
                if not (isinstance(vty, tuple) and vty[0] == "tuple" and len(vty[1]) == len(pat[1])):
                    raise Unsupported("tuple pattern on non-tuple")
                names = [self.fresh(n, env) for n in pat[1]]
                tmp = self.fresh("t_" + "_".join(pat[1]), env)
                head = f"let {tmp} := {v}\n  "
                acc = tmp
                for idx, (n, ln) in enumerate(zip(pat[1], names)):
                    last = idx == len(names) - 1
                    proj = self.proj(tmp, idx, len(names))
                    head += f"let {ln} := {proj}\n  "
                    env2[n] = (ln, vty[1][idx])
                b, bty, bok = self.emit(body, env2, exp)
            ok = None
            if bok:
                ok = self.conj(vok, "(" + head + bok + ")")
            elif vok:
                ok = vok
            if b.startswith("(let ") and b.endswith(")"):
                b = b[1:-1]
            return "(" + head + b + ")", bty, ok
        if k == "assert":
            c, cty, cok = self.emit(e[1], env, "bool")
            b, bty, bok = self.emit(e[2], env, exp)
            return b, bty, self.conj(cok, c, bok)
        if k == "mcall":
            return self.emit_mcall(e, env, exp)
        if k == "call":
            return self.emit_call(e, env, exp)
        if k == "tuple":
            exps = exp[1] if isinstance(exp, tuple) and exp[0] == "tuple" and len(exp[1]) == len(e[1]) else [None] * len(e[1])
            parts = [self.emit(x, env, t) for x, t in zip(e[1], exps)]
            return "(" + ", ".join(p[0] for p in parts) + ")", ("tuple", [p[1] for p in parts]), \
                self.conj(*[p[2] for p in parts])
        if k == "arraylit":
            parts = [self.emit(x, env, exp[1] if isinstance(exp, tuple) and exp[0] == "array" else None)
                     for x in e[1]]
            return "[" + ", ".join(p[0] for p in parts) + "]", ("array", parts[0][1]), \
                self.conj(*[p[2] for p in parts])
        if k == "index":
            base = e[1]
            if base[0] == "path" and len(base[1]) == 1 and e[2][0] == "lit":
                key = f"{base[1][0]}[{e[2][1]}]"
                if key in env:
                    return env[key][0], env[key][1], None
            raise Unsupported("indexing")
        raise Unsupported(f"expression kind {k}")

    @staticmethod
    def proj(tmp, idx, n):
        if n == 2:
            return f"{tmp}.1" if idx == 0 else f"{tmp}.2"
        s = tmp
        for _ in range(idx):
            s += ".2"
        if idx < n - 1:
            s += ".1"
        return s

    def fresh(self, name, env):
        used = {v[0] for v in env.values()}
        n = name
        if n in ("at", "from", "end", "open", "by", "fun", "do", "then", "else", "show", "have", "in", "le", "lt"):
            n = n + "_"
        base = n
        i = 1
        while n in used:
            n = f"{base}_{i}"
            i += 1
        return n

    def emit_bin(self, e, env, exp):
        _, op, l, r = e
        cmp_ops = {"==": "==", "!=": "!=", "<": "<", ">": ">", "<=": "≤", ">=": "≥"}
        if op in ("&&", "||"):
            a, aty, aok = self.emit(l, env, "bool")
            b, bty, bok = self.emit(r, env, "bool")
            return f"({a} {op} {b})", "bool", self.conj(aok, bok)
        if op in cmp_ops:
            if l[0] == "lit" and not l[2]:
                b, bty, bok = self.emit(r, env, None)
                a, aty, aok = self.emit(l, env, bty)
            else:
                a, aty, aok = self.emit(l, env, None)
                b, bty, bok = self.emit(r, env, aty)
            if aty != bty:
                raise Unsupported(f"comparison {aty} vs {bty}")
            if op == "==":
                return f"({a} == {b})", "bool", self.conj(aok, bok)
            if op == "!=":
                return f"({a} != {b})", "bool", self.conj(aok, bok)
            return f"(decide ({a} {cmp_ops[op]} {b}))", "bool", self.conj(aok, bok)
        if op in ("<<", ">>"):
            a, aty, aok = self.emit(l, env, exp)
            b, bty, bok = self.emit(r, env, "u32" if r[0] == "lit" else None)
            w = self.width(aty)
            rng = None
            if r[0] == "lit":
                if r[1] >= w:
                    raise Unsupported("constant shift out of range")
                amount = str(r[1])
                pw = str(2 ** r[1])
            else:
                rng = f"decide ({b} < {w})"
                amount = f"({b} % {w})"      # release semantics: shift amount is masked
                pw = f"2 ^ {amount}"
            if op == ">>":
                return f"({a} / {pw})", aty, self.conj(aok, bok, rng)
            return f"({a} * {pw} % {p2(w)})", aty, self.conj(aok, bok, rng)
        # arithmetic / bitwise
        if l[0] == "lit" and not l[2] and not (r[0] == "lit"):
            b, bty, bok = self.emit(r, env, exp)
            a, aty, aok = self.emit(l, env, bty)
        else:
            a, aty, aok = self.emit(l, env, exp)
            b, bty, bok = self.emit(r, env, aty)
        if aty != bty:
            raise Unsupported(f"operands of {op}: {aty} vs {bty}")
        if aty == "bool":
            m = {"&": "&&", "|": "||", "^": "^^"}
            return f"({a} {m[op]} {b})", "bool", self.conj(aok, bok)
        w = self.width(aty)
        if op == "+":
            return f"(({a} + {b}) % {p2(w)})", aty, self.conj(aok, bok, f"decide ({a} + {b} < {p2(w)})")
        if op == "-":
            return f"(({a} + {p2(w)} - {b}) % {p2(w)})", aty, self.conj(aok, bok, f"decide ({b} ≤ {a})")
        if op == "*":
            return f"(({a} * {b}) % {p2(w)})", aty, self.conj(aok, bok, f"decide ({a} * {b} < {p2(w)})")
        if op == "/":
            return f"({a} / {b})", aty, self.conj(aok, bok, f"({b} != 0)")
        if op == "%":
            return f"({a} % {b})", aty, self.conj(aok, bok, f"({b} != 0)")
        if op in ("&", "|", "^"):
            m = {"&": "&&&", "|": "|||", "^": "^^^"}
            return f"({a} {m[op]} {b})", aty, self.conj(aok, bok)
        raise Unsupported(f"operator {op}")

    def emit_mcall(self, e, env, exp):
        _, recv, name, args = e
        # integer literal receivers like 2u64.pow(k)
        a, aty, aok = self.emit(recv, env, exp if recv[0] == "lit" else None)
        if name in ("wrapping_add", "wrapping_sub", "wrapping_mul", "overflowing_add", "overflowing_sub"):
            b, bty, bok = self.emit(args[0], env, aty)
            if aty != bty:
                raise Unsupported(f"{name}: {aty} vs {bty}")
            w = self.width(aty)
            ok = self.conj(aok, bok)
            if name == "wrapping_add":
                return f"(({a} + {b}) % {p2(w)})", aty, ok
            if name == "wrapping_sub":
                return f"(({a} + {p2(w)} - {b}) % {p2(w)})", aty, ok
            if name == "wrapping_mul":
                return f"(({a} * {b}) % {p2(w)})", aty, ok
            if name == "overflowing_add":
                return f"((({a} + {b}) % {p2(w)}, decide ({a} + {b} ≥ {p2(w)})) : Nat × Bool)", \
                    ("tuple", [aty, "bool"]), ok
            if name == "overflowing_sub":
                return f"((({a} + {p2(w)} - {b}) % {p2(w)}, decide ({a} < {b})) : Nat × Bool)", \
                    ("tuple", [aty, "bool"]), ok
        if name == "leading_zeros" and not args:
            return f"({self.width(aty)} - TF.bitLen {a})", "u32", aok
        if name == "trailing_zeros" and not args:
            return f"(TF.trailingZeros {self.width(aty)} {a})", "u32", aok
        if name == "trailing_ones" and not args:
            return f"(TF.trailingOnes {a})", "u32", aok
        if name == "count_ones" and not args:
            return f"(TF.popCount {a})", "u32", aok
        if name == "ilog2" and not args:
            return f"(Nat.log2 {a})", "u32", self.conj(aok, f"({a} != 0)")
        if name == "is_power_of_two" and not args:
            return f"(TF.isPow2 {a})", "bool", aok
        if name == "pow" and len(args) == 1:
            b, bty, bok = self.emit(args[0], env, "u32")
            w = self.width(aty)
            return f"(({a} ^ {b}) % {p2(w)})", aty, self.conj(aok, bok, f"decide ({a} ^ {b} < {p2(w)})")
        # ---- BEGIN G01: `x.to_le_bytes()` -> list of bytes, least significant first
        if name == "to_le_bytes" and not args and aty in INT_TYPES:
            nb = self.width(aty) // 8
            return "[" + ", ".join(f"(({a} / {256 ** i}) % 256)" for i in range(nb)) + "]", ("array", "u8"), aok
        # ---- END G01
        if name in ("into", "to_owned", "clone") and not args:
            return a, aty, aok
        if name == "raw_u64" and not args and aty == self.self_ty:
            return a, aty, aok
        raise Unsupported(f"method {name}")

    def emit_call(self, e, env, exp):
        _, path, args = e
        name = path[-1]
        if path[0] in ("Self", "BFieldElement") and len(path) == 1:
            # tuple-struct constructor Self(raw)
            return self.emit(args[0], env, self.self_ty)
        if len(path) == 2 and path[0] in INT_TYPES and path[1] == "from":
            t, ty, ok = self.emit(args[0], env, None)
            if ty not in INT_TYPES or INT_TYPES[ty] > INT_TYPES[path[0]]:
                raise Unsupported("from: narrowing")
            return t, path[0], ok
        if name == "from_raw_u64" and len(args) == 1:
            return self.emit(args[0], env, self.self_ty)
        # ---- BEGIN G01: `uN::from_le_bytes(bytes)`; `bytes` an array parameter (env keys `bytes[i]`) or an array literal
        if len(path) == 2 and path[0] in INT_TYPES and path[1] == "from_le_bytes" and len(args) == 1:
            a0 = args[0]
            if a0[0] == "path" and len(a0[1]) == 1 and f"{a0[1][0]}[0]" in env:
                parts, i = [], 0
                while f"{a0[1][0]}[{i}]" in env:
                    parts.append((env[f"{a0[1][0]}[{i}]"][0], env[f"{a0[1][0]}[{i}]"][1], None))
                    i += 1
            elif a0[0] == "arraylit":
                parts = [self.emit(x, env, "u8") for x in a0[1]]
            else:
                raise Unsupported("from_le_bytes: argument")
            if len(parts) * 8 != INT_TYPES[path[0]] or any(p[1] != "u8" for p in parts):
                raise Unsupported("from_le_bytes: arity / element type")
            term = "(" + " + ".join(f"{p[0]} * {256 ** i}" for i, p in enumerate(parts)) + ")"
            return term, path[0], self.conj(*[p[2] for p in parts])
        # ---- END G01
        if name in self.fns:
            lname, ptys, rty = self.fns[name]
            if len(ptys) != len(args):
                raise Unsupported(f"arity of {name}")
            parts = [self.emit(x, env, t) for x, t in zip(args, ptys)]
            for p, t in zip(parts, ptys):
                if p[1] != t:
                    raise Unsupported(f"argument type of {name}: {p[1]} vs {t}")
            argstr = " ".join(f"({p[0]})" if " " in p[0] else p[0] for p in parts)
            call = f"({lname} {argstr})"
            ok = self.conj(*[p[2] for p in parts], f"({lname}_ok {argstr})")
            return call, rty, ok
        raise Unsupported(f"call {path}")


def lean_ty(ty):
    if ty == "bool":
        return "Bool"
    if isinstance(ty, tuple) and ty[0] == "tuple":
        return "(" + " × ".join(lean_ty(t) for t in ty[1]) + ")"
    if isinstance(ty, tuple) and ty[0] == "array":
        return "List " + lean_ty(ty[1])
    return "Nat"


def translate_nat(body_src, params, lean_name, consts, fns, ret_hint=None):
    """params: list of (rust name, rust type name) ; returns (lean text, param types, ret type)"""
    toks = tokenize(body_src)
    ps = Parser(toks)
    ast = ps.parse_block_body(end="")
    if ps.peek()[0] != "eof":
        raise Unsupported(f"trailing tokens {ps.peek()}")
    em = NatEmitter(consts, fns)
    env = {}
    binders = []
    for n, t in params:
        ln = n.replace("[", "_").replace("]", "")     # G01: array-element parameters `chunks[3]` -> binder `chunks_3`
        env[n] = (ln, t)
        binders.append(f"({ln} : {lean_ty(t)})")
    term, rty, ok = em.emit(ast, env, ret_hint)
    if term.startswith("(") and term.endswith(")"):
        term = term[1:-1]
    b = " ".join(binders)
    text = f"def {lean_name} {b} : {lean_ty(rty)} :=\n  {term}\n\n"
    text += f"/-- true iff no plain arithmetic operation of `{lean_name}` overflows, no shift amount is out of range,\n"
    text += "    nothing divides by zero and every `assert!` holds (debug build = release build = exact arithmetic) -/\n"
    text += f"def {lean_name}_ok {b} : Bool :=\n  {ok or 'true'}\n"
    return text, [t for _, t in params], rty


# --------------------------------------------------------------------------------------------------------
# ---- BEGIN G01: field-level one-liners of `BFieldElement` (operands are *elements*, type "bfe")
# --------------------------------------------------------------------------------------------------------

class FieldEmitter(NatEmitter):
    """Bodies whose operands are `BFieldElement`s rather than machine words: `*self += Self::one();`,
    `*self = *self + rhs`, `Self::zero() - self`, `self * self`, `self == &Self::ZERO`, `BFieldElement::new(7)`.
    A value of type "bfe" is the raw Montgomery word (a Lean `Nat`); `+ - *` on two "bfe" operands are the
    *translated* `Add::add` / `Sub::sub` / `Mul::mul`, `OP=` is the translated `XxxAssign::xxx_assign`, `.0` goes to the
    word and `Self(w)` back.  Anything else is refused."""

    OPS = {"+": "add", "-": "sub", "*": "mul"}
    ASSIGN = {"+=": "add_assign", "-=": "sub_assign", "*=": "mul_assign"}

    def __init__(self, consts, fns, ffns):
        super().__init__(consts, fns, self_ty="bfe")
        self.ffns = ffns       # rust name -> (lean name, n_params) ; all parameters and the result are "bfe" (or bool)

    def fcall(self, rname, parts):
        if rname in self.ffns:
            lname, n, rty = self.ffns[rname]
        elif rname in self.fns and rname in ("add", "sub", "mul"):
            lname, n, rty = self.fns[rname][0], 2, "bfe"
        else:
            raise Unsupported(f"field-level call of {rname}")
        if n != len(parts) or any(p[1] != "bfe" for p in parts):
            raise Unsupported(f"field-level call of {rname}: arguments")
        argstr = " ".join(f"({p[0]})" if " " in p[0] else p[0] for p in parts)
        return f"({lname} {argstr})" if parts else lname, rty, self.conj(*[p[2] for p in parts], f"({lname}_ok {argstr})" if parts else None)

    def emit(self, e, env, exp=None):
        k = e[0]
        if k == "field" and e[2] == 0:
            t, ty, ok = self.emit(e[1], env, None)
            if ty != "bfe":
                raise Unsupported(".0 on a non-element")
            return t, "u64", ok
        if k == "bin" and e[1] in self.OPS:
            a = self.emit(e[2], env, None)
            if a[1] == "bfe":
                b = self.emit(e[3], env, None)
                return self.fcall(self.OPS[e[1]], [a, b])
        if k == "assign":
            if e[1] != ("path", ["self"]):
                raise Unsupported("assignment to something other than *self")
            return self.emit(e[2], env, "bfe")
        if k == "assignop":
            if e[2] != ("path", ["self"]):
                raise Unsupported("assignment to something other than *self")
            return self.fcall(self.ASSIGN[e[1]], [self.emit(e[2], env, None), self.emit(e[3], env, None)])
        if k == "mcall" and e[2] in self.ffns:
            recv = self.emit(e[1], env, None)
            if recv[1] == "bfe":
                return self.fcall(e[2], [recv] + [self.emit(x, env, None) for x in e[3]])
        return super().emit(e, env, exp)

    def emit_call(self, e, env, exp):
        _, path, args = e
        if path[0] in ("Self", "BFieldElement") and len(path) == 1:       # `Self(word)`
            t, ty, ok = self.emit(args[0], env, "u64")
            if ty != "u64":
                raise Unsupported("Self(..) of a non-word")
            return t, "bfe", ok
        if len(path) == 2 and path[0] in ("Self", "BFieldElement"):
            if path[1] in self.ffns:
                return self.fcall(path[1], [self.emit(x, env, None) for x in args])
            if path[1] == "new" and "new" in self.fns and len(args) == 1:
                t, ty, ok = self.emit(args[0], env, "u64")
                if ty != "u64":
                    raise Unsupported("new(..) of a non-u64")
                lname = self.fns["new"][0]
                arg = f"({t})" if " " in t else t
                return f"({lname} {arg})", "bfe", self.conj(ok, f"({lname}_ok {arg})")
        return super().emit_call(e, env, exp)


def translate_field(body_src, params, lean_name, consts, fns, ffns):
    """like `translate_nat` for a body over field elements; `params`: [(rust name, "bfe" | int type)]"""
    toks = tokenize(body_src)
    ps = Parser(toks)
    ast = ps.parse_block_body(end="")
    if ps.peek()[0] != "eof":
        raise Unsupported(f"trailing tokens {ps.peek()}")
    em = FieldEmitter(consts, fns, ffns)
    env, binders = {}, []
    for n, t in params:
        env[n] = (n, t)
        binders.append(f"({n} : Nat)")
    term, rty, ok = em.emit(ast, env, None)
    if rty not in ("bfe", "bool"):
        raise Unsupported(f"field-level result type {rty}")
    if term.startswith("(") and term.endswith(")") and balanced_paren(term):
        term = term[1:-1]
    b = " ".join(binders)
    sep = " " if b else ""
    text = f"def {lean_name}{sep}{b} : {'Bool' if rty == 'bool' else 'Nat'} :=\n  {term}\n\n"
    text += f"/-- true iff no plain arithmetic operation reached from `{lean_name}` overflows (see `montyred_ok`) -/\n"
    text += f"def {lean_name}_ok{sep}{b} : Bool :=\n  {ok or 'true'}\n"
    return text, len(params), rty

# ---- END G01

# --------------------------------------------------------------------------------------------------------
# back end "uint" (generated_function)
# --------------------------------------------------------------------------------------------------------

def translate_uint64_straightline(body_src, slice_param, n_inputs, lean_name):
    toks = tokenize(body_src)
    ps = Parser(toks)
    ast = ps.parse_block_body(end="")

    def em(e, env):
        k = e[0]
        if k == "lit":
            if e[1] >= 2 ** 64:
                raise Unsupported("literal")
            return str(e[1])
        if k == "path" and len(e[1]) == 1 and e[1][0] in env:
            return env[e[1][0]]
        if k == "index" and e[1] == ("path", [slice_param]) and e[2][0] == "lit" and e[2][1] < n_inputs:
            return f"x{e[2][1]}"
        if k == "mcall" and e[2] in ("wrapping_add", "wrapping_sub", "wrapping_mul") and len(e[3]) == 1:
            op = {"wrapping_add": "+", "wrapping_sub": "-", "wrapping_mul": "*"}[e[2]]
            return f"({em(e[1], env)} {op} {em(e[3][0], env)})"
        raise Unsupported(f"uint back end: {k} {e[1] if k in ('mcall', 'path') else ''}")

    lines = []
    env = {}
    cur = ast
    while cur[0] == "let":
        _, pat, ty, val, body = cur
        if pat[0] != "pid":
            raise Unsupported("pattern")
        lines.append(f"  let {pat[1]} := {em(val, env)}")
        env[pat[1]] = pat[1]
        cur = body
    if cur[0] != "arraylit":
        raise Unsupported("final expression must be an array literal")
    outs = [em(x, env) for x in cur[1]]
    xs = " ".join(f"x{i}" for i in range(n_inputs))
    text = f"def {lean_name} ({xs} : UInt64) : List UInt64 :=\n" + "\n".join(lines) + "\n  [" + ",\n   ".join(outs) + "]\n"
    return text, len(outs)


# --------------------------------------------------------------------------------------------------------
# constants and tables
# --------------------------------------------------------------------------------------------------------

def const_int(src, name, anchor=None):
    pos = 0
    if anchor:
        m = re.search(anchor, src)
        if not m:
            raise Unsupported(f"anchor {anchor}")
        pos = m.end()
    m = re.compile(r"\bconst\s+" + name + r"\s*:\s*[A-Za-z0-9_:<>]+\s*=\s*([^;]+);").search(src, pos)
    if not m:
        raise Unsupported(f"const {name}")
    return m.group(1).strip()


def eval_const_expr(s, known):
    """evaluate a constant integer expression built from literals, known names, + - * / << and ilog2"""
    s = re.sub(r"([0-9a-fA-Fx_]+?)(?:[ui](?:8|16|32|64|128|size))\b", r"\1", s)
    s = s.replace("Self::", "").replace("BFieldElement::", "").replace("_", "_")
    s = re.sub(r"\bas\s+[ui](?:8|16|32|64|128|size)\b", "", s)
    s = re.sub(r"\.ilog2\(\)", ".bit_length()-1", s)
    s = re.sub(r"\b([A-Z][A-Z0-9_]*)\b", lambda m: "(" + str(known[m.group(1)]) + ")" if m.group(1) in known else m.group(1), s)
    s = re.sub(r"(?<![0-9a-zA-Z])0x([0-9a-fA-F_]+)", lambda m: str(int(m.group(1).replace("_", ""), 16)), s)
    s = re.sub(r"(?<=\d)_(?=\d)", "", s)
    if not re.fullmatch(r"[\d\s()+\-*/<>.a-z_]*", s):
        raise Unsupported(f"constant expression {s!r}")
    s = s.replace("/", "//")
    try:
        return int(eval(s, {"__builtins__": {}}, {}))
    except Exception as ex:
        raise Unsupported(f"constant expression {s!r}: {ex}")


def table_ints(src, name):
    m = re.search(r"\b" + name + r"\s*:\s*\[[^\]]*\]\s*=\s*\[", src)
    if not m:
        raise Unsupported(f"table {name}")
    st = m.end() - 1
    en = balanced(src, st, "[", "]")
    body = src[st + 1:en - 1]
    body = re.sub(r"BFieldElement::new\(\s*([0-9a-fA-Fx_]+)\s*\)", r"\1", body)
    items = [x.strip() for x in body.split(",") if x.strip()]
    out = []
    for it in items:
        it = re.sub(r"[ui](?:8|16|32|64|128|size)$", "", it)
        if not re.fullmatch(r"-?(0x[0-9a-fA-F_]+|[0-9][0-9_]*)", it):
            raise Unsupported(f"table {name}: entry {it!r}")
        out.append(int(it.replace("_", ""), 0))
    return out


def phf_map(src, name):
    m = re.search(r"\b" + name + r"\s*:[^=]*=\s*phf_map!\s*\{", src)
    if not m:
        raise Unsupported(f"phf map {name}")
    st = m.end() - 1
    en = balanced(src, st)
    body = src[st + 1:en - 1]
    out = []
    for it in body.split(","):
        it = it.strip()
        if not it:
            continue
        mm = re.fullmatch(r"([0-9_]+)(?:u64)?\s*=>\s*([0-9_]+)(?:u64)?", it)
        if not mm:
            raise Unsupported(f"phf entry {it!r}")
        out.append((int(mm.group(1).replace("_", "")), int(mm.group(2).replace("_", ""))))
    return out


# --------------------------------------------------------------------------------------------------------
# driver
# --------------------------------------------------------------------------------------------------------

HEADER = "-- GENERATED by /verif/tools/rs2lean.py from {src} -- do not edit\n"


def write_if_changed(path, text):
    os.makedirs(os.path.dirname(path), exist_ok=True)
    if os.path.exists(path):
        with open(path) as f:
            if f.read() == text:
                return False
    with open(path, "w") as f:
        f.write(text)
    return True


def params_of(params_text, self_ty="u64"):
    out = []
    for p in [x.strip() for x in params_text.split(",") if x.strip()]:
        if p in ("self", "&self", "&mut self", "mut self"):
            out.append(("self", self_ty))
            continue
        n, t = p.split(":", 1)
        n = n.replace("mut", "").strip()
        t = t.strip().lstrip("&").strip()
        if t in ("Self", "BFieldElement"):
            t = self_ty
        if t not in INT_TYPES and t != "bool":
            raise Unsupported(f"parameter type {t}")
        out.append((n, t))
    return out


def main():
    status = {"translated": {}, "failed": {}, "constants": {}}
    changed = []
    smt_fns, smt_texts, smt_order, smt_sigs = {}, {}, [], {}

    def record(name, rel, text):
        status["translated"][name] = {"source": rel, "sha256": hashlib.sha256(text.encode()).hexdigest()[:16]}

    def fail(name, ex):
        status["failed"][name] = str(ex)

    def try_(name, f):
        try:
            return f()
        except Unsupported as ex:
            fail(name, ex)
        except Exception as ex:  # a translator crash is also a refusal, never a guess
            fail(name, f"internal: {type(ex).__name__}: {ex}")
        return None

    # ---------------------------------------------------------------- constants
    bfe_rel = "twenty-first/src/math/b_field_element.rs"
    tip5_rel = "twenty-first/src/math/tip5.rs"
    poly_rel = "twenty-first/src/math/polynomial.rs"
    mt_rel = "twenty-first/src/util_types/merkle_tree.rs"
    zt_rel = "twenty-first/src/math/zerofier_tree.rs"
    lat_rel = "twenty-first/src/math/lattice.rs"
    dig_rel = "twenty-first/src/math/digest.rs"
    mds_rel = "twenty-first/src/math/mds.rs"
    sb_rel = "twenty-first/src/util_types/mmr/shared_basic.rs"
    sa_rel = "twenty-first/src/util_types/mmr/shared_advanced.rs"
    xfe_rel = "twenty-first/src/math/x_field_element.rs"

    bfe = strip_comments(read(bfe_rel))
    tip5 = strip_comments(read(tip5_rel))
    poly = strip_comments(read(poly_rel))
    mt = strip_comments(read(mt_rel))
    zt = strip_comments(read(zt_rel))
    lat = strip_comments(read(lat_rel))
    dig = strip_comments(read(dig_rel))
    mds = strip_comments(read(mds_rel))
    sb = strip_comments(read(sb_rel))
    sa = strip_comments(read(sa_rel))

    known = {}
    lines = [HEADER.format(src="several files"), "namespace TF.Gen\n"]

    def cint(lname, src, rname, anchor=None, extra=None):
        def go():
            v = eval_const_expr(const_int(src, rname, anchor), {**known, **(extra or {})})
            known[lname] = v
            lines.append(f"def {lname} : Nat := {v}")
            status["constants"][lname] = v
            return v
        return try_(f"const {lname}", go)

    cint("P", bfe, "P")
    cint("R2", bfe, "R2")
    try_("const MINUS_TWO_INVERSE", lambda: (lambda m: (known.__setitem__("MINUS_TWO_INVERSE", int(m.group(1).replace("_", ""), 0)),
         lines.append(f"def MINUS_TWO_INVERSE : Nat := {known['MINUS_TWO_INVERSE']}")))(
        re.search(r"MINUS_TWO_INVERSE\s*:\s*Self\s*=\s*Self::new\(\s*(0x[0-9a-fA-F_]+|[0-9_]+)\s*\)", bfe) or (_ for _ in ()).throw(Unsupported("MINUS_TWO_INVERSE"))))
    cint("BFE_BYTES", bfe, "BYTES")
    for n in ["STATE_SIZE", "NUM_SPLIT_AND_LOOKUP", "LOG2_STATE_SIZE", "CAPACITY", "RATE", "NUM_ROUNDS"]:
        cint(n, tip5, n)
    cint("DIGEST_LEN", dig, "LEN")
    cint("EXTENSION_DEGREE", strip_comments(read(xfe_rel)), "EXTENSION_DEGREE")
    cint("DEFAULT_PARALLELIZATION_CUTOFF", mt, "DEFAULT_PARALLELIZATION_CUTOFF")
    cint("MAX_NUM_NODES", mt, "MAX_NUM_NODES")
    cint("MAX_NUM_LEAFS", mt, "MAX_NUM_LEAFS")
    cint("MAX_TREE_HEIGHT", mt, "MAX_TREE_HEIGHT")
    cint("ROOT_INDEX", mt, "ROOT_INDEX")
    for n in ["FAST_MULTIPLY_CUTOFF_THRESHOLD", "FAST_INTERPOLATE_CUTOFF_THRESHOLD_SEQUENTIAL",
              "FAST_INTERPOLATE_CUTOFF_THRESHOLD_PARALLEL",
              "FAST_MODULAR_COSET_INTERPOLATE_CUTOFF_THRESHOLD_PREFER_LAGRANGE",
              "FAST_MODULAR_COSET_INTERPOLATE_CUTOFF_THRESHOLD_PREFER_INTT", "FAST_COSET_EXTRAPOLATE_THRESHOLD",
              "FORMAL_POWER_SERIES_INVERSE_CUTOFF", "FAST_REDUCE_CUTOFF_THRESHOLD",
              "REDUCE_BEFORE_EVALUATE_THRESHOLD_RATIO", "FAST_REDUCE_MAKES_SENSE_MULTIPLE",
              "FAST_ZEROFIER_CUTOFF_THRESHOLD", "OPTIMAL_CUTOFF_POINT_FOR_BATCHED_INTERPOLATION"]:
        cint(n, poly, n)

    def clean_divide():
        m = re.search(r"const\s+CLEAN_DIVIDE_CUTOFF_THRESHOLD\s*:\s*isize\s*=\s*\{\s*if\s+cfg!\(test\)\s*\{\s*([^}]+)\}\s*else\s*\{\s*([^}]+)\}\s*\}\s*;", poly)
        if not m:
            raise Unsupported("CLEAN_DIVIDE_CUTOFF_THRESHOLD shape")
        t = eval_const_expr(m.group(1).strip(), known)
        p = eval_const_expr(m.group(2).strip(), known)
        known["CLEAN_DIVIDE_CUTOFF_THRESHOLD"] = p
        lines.append(f"def CLEAN_DIVIDE_CUTOFF_THRESHOLD : Nat := {p}   -- production arm of cfg!(test)")
        lines.append(f"def CLEAN_DIVIDE_CUTOFF_THRESHOLD_TEST : Nat := {t}   -- the arm the repository's test-suite sees")
        status["constants"]["CLEAN_DIVIDE_CUTOFF_THRESHOLD"] = p
    try_("const CLEAN_DIVIDE_CUTOFF_THRESHOLD", clean_divide)
    cint("ZEROFIER_TREE_RECURSION_CUTOFF_THRESHOLD", zt, "RECURSION_CUTOFF_THRESHOLD")
    cint("LATTICE_N", lat, "N")

    def n_inv():
        m = re.search(r"const\s+N_INV\s*:\s*BFieldElement\s*=\s*BFieldElement::new\(\s*([0-9_]+)\s*\)", lat)
        if not m:
            raise Unsupported("N_INV")
        known["LATTICE_N_INV"] = int(m.group(1).replace("_", ""))
        lines.append(f"def LATTICE_N_INV : Nat := {known['LATTICE_N_INV']}")
    try_("const LATTICE_N_INV", n_inv)

    def square_cutoff():
        params, ret, body = find_fn(poly, "square")
        m = re.search(r"if\s+squared_coefficient_len\s*>\s*([0-9_]+)\s*\{", body)
        if not m:
            raise Unsupported("square cutoff literal")
        known["SQUARE_CUTOFF"] = int(m.group(1).replace("_", ""))
        lines.append(f"def SQUARE_CUTOFF : Nat := {known['SQUARE_CUTOFF']}   -- literal in Polynomial::square")
    try_("const SQUARE_CUTOFF", square_cutoff)

    # ---------------------------------------------------------------- tables
    def table(lname, src, rname, post=None):
        def go():
            vals = table_ints(src, rname)
            if post:
                vals = post(vals)
            lines.append(f"def {lname} : List Nat := [" + ", ".join(map(str, vals)) + "]")
            status["constants"][lname] = hashlib.sha256(repr(vals).encode()).hexdigest()[:16]
            known_tables[lname] = vals
        return try_(f"table {lname}", go)

    known_tables = {}
    table("LOOKUP_TABLE", tip5, "LOOKUP_TABLE")
    table("ROUND_CONSTANTS", tip5, "ROUND_CONSTANTS")

    def mdscol():
        vals = table_ints(tip5, "MDS_MATRIX_FIRST_COLUMN")
        if any(v < 0 for v in vals):
            raise Unsupported("negative MDS entry")
        lines.append("def MDS_MATRIX_FIRST_COLUMN : List Nat := [" + ", ".join(map(str, vals)) + "]")
        known_tables["MDS_MATRIX_FIRST_COLUMN"] = vals
    try_("table MDS_MATRIX_FIRST_COLUMN", mdscol)

    def roots():
        es = phf_map(bfe, "PRIMITIVE_ROOTS")
        lines.append("def PRIMITIVE_ROOTS : List (Nat × Nat) := [" + ", ".join(f"({a}, {b})" for a, b in es) + "]")
        known_tables["PRIMITIVE_ROOTS"] = es
    try_("table PRIMITIVE_ROOTS", roots)

    def psi(name, fn):
        def go():
            m = re.search(r"let\s+" + fn + r"\s*=\s*\[", lat)
            if not m:
                raise Unsupported(f"{fn} not found")
            st = m.end() - 1
            en = balanced(lat, st, "[", "]")
            inner = lat[st + 1:en - 1]
            vals = [int(x.replace("_", "")) for x in re.findall(r"BFieldElement::new\(\s*([0-9_]+)\s*\)", inner)]
            if not vals:
                vals = [int(x.strip().replace("_", "")) for x in inner.split(",") if x.strip()]
            lines.append(f"def {name} : List Nat := [" + ", ".join(map(str, vals)) + "]")
            known_tables[name] = vals
        return try_(f"table {name}", go)
    psi("PSI_POWERS_BITREVERSED", "powers_of_psi_bitreversed")
    psi("PSI_INV_POWERS_BITREVERSED", "powers_of_psi_inv_bitreversed")

    lines.append("\nend TF.Gen\n")
    if write_if_changed(os.path.join(OUT, "Consts.lean"), "\n".join(lines)):
        changed.append("Consts")

    # ---------------------------------------------------------------- translated functions: BFieldElement
    consts = {k: (v, "u64") for k, v in known.items() if k in ("P", "R2")}
    fns = {}
    out = [HEADER.format(src=bfe_rel), "import TF.Model.Word\n", "set_option linter.unusedVariables false\n", "namespace TF.Gen\n"]

    def tr(lname, src, rname, rel, after=None, params_override=None, ret_hint=None, body_override=None,
           sink=None, smt=True):
        def go():
            params, ret, body = find_fn(src, rname, after)
            if body_override:
                body = body_override(body)
            ps = params_override if params_override is not None else params_of(params)
            rh = ret_hint
            if rh is None and ret:
                r = ret.strip()
                if r in INT_TYPES:
                    rh = r
                elif r in ("Self", "BFieldElement"):
                    rh = "u64"
                elif r.startswith("(") and r.endswith(")"):
                    parts = [x.strip() for x in r[1:-1].split(",")]
                    if all(x in INT_TYPES or x == "bool" for x in parts):
                        rh = ("tuple", parts)
            text, ptys, rty = translate_nat(body, ps, lname, consts, fns, rh)
            (sink if sink is not None else out).append(f"/-- `{rname}` in {rel} -/\n" + text)
            fns[rname] = (lname, ptys, rty)
            record(lname, rel, text)
            if not smt:      # G01: no SMT twin (it would be prepended to the twins of every later function)
                return
            try:   # SMT twin, only used by the failing-input search; never fatal
                import rs2smt
                toks = tokenize(body)
                psr = Parser(toks)
                ast = psr.parse_block_body(end="")
                stext, sptys, srty = rs2smt.translate_smt(ast, ps, lname, consts, smt_fns)
                smt_fns[rname] = (lname, sptys, srty)
                deps = "".join(smt_texts.get(d, "") for d in smt_order)
                smt_texts[lname] = stext
                smt_order.append(lname)
                smt_sigs[lname] = {"params": [[n, t] for n, t in ps], "ret": srty if not isinstance(srty, tuple) else list(srty[1])}
                os.makedirs(os.path.join(OUT, "smt"), exist_ok=True)
                write_if_changed(os.path.join(OUT, "smt", lname + ".smt2"), deps + stext)
            except Exception as ex:
                status.setdefault("smt_failed", {})[lname] = f"{type(ex).__name__}: {ex}"
        return try_(f"fn {lname}", go)

    tr("montyred", bfe, "montyred", bfe_rel)
    tr("bfe_new", bfe, "new", bfe_rel, after=r"impl BFieldElement \{")
    fns["new"] = fns.get("new")
    if fns.get("new") is None:
        fns.pop("new", None)
    tr("bfe_value", bfe, "canonical_representation", bfe_rel)
    tr("bfe_add", bfe, "add", bfe_rel, after=r"impl Add for BFieldElement")
    tr("bfe_sub", bfe, "sub", bfe_rel, after=r"impl Sub for BFieldElement")
    tr("bfe_mul", bfe, "mul", bfe_rel, after=r"impl Mul for BFieldElement")
    tr("mod_reduce", bfe, "mod_reduce", bfe_rel)

    # ---- BEGIN G01: raw accessors / raw constructors (word level) ---------------------------------------------------
    tr("bfe_is_canonical", bfe, "is_canonical", bfe_rel, smt=False)
    tr("bfe_raw_u64", bfe, "raw_u64", bfe_rel, smt=False)
    tr("bfe_from_raw_u64", bfe, "from_raw_u64", bfe_rel, smt=False)
    tr("bfe_raw_u128", bfe, "raw_u128", bfe_rel, ret_hint="u128", smt=False)
    tr("bfe_raw_u16s", bfe, "raw_u16s", bfe_rel, smt=False)
    tr("bfe_from_raw_u16s", bfe, "from_raw_u16s", bfe_rel, params_override=[(f"chunks[{i}]", "u16") for i in range(4)], smt=False)
    tr("bfe_raw_bytes", bfe, "raw_bytes", bfe_rel, smt=False)
    tr("bfe_from_raw_bytes", bfe, "from_raw_bytes", bfe_rel, params_override=[(f"bytes[{i}]", "u8") for i in range(8)], smt=False)

    # field-level one-liners: operands are elements; `+ - *` / `OP=` resolve to the translated trait methods
    ffns = {}
    fconsts = dict(consts)

    def fconst(cname, trait):
        def go():
            m = re.search(r"impl\s+" + trait + r"\s+for\s+BFieldElement\s*\{\s*const\s+" + cname +
                          r"\s*:\s*Self\s*=\s*Self::new\(\s*([0-9_]+)\s*\)\s*;\s*\}", bfe)
            if not m:
                raise Unsupported(f"shape of the constant {cname}")
            v = int(m.group(1).replace("_", ""))
            if v >= 2 ** 64 or "new" not in fns:
                raise Unsupported(f"constant {cname}")
            lname = "bfe_" + cname
            text = f"def {lname} : Nat := {fns['new'][0]} {v}\n"
            out.append(f"/-- `{trait}::{cname}` in {bfe_rel} -/\n" + text)
            fconsts[cname] = (lname, "bfe")
            record(lname, bfe_rel, text)
        return try_(f"const bfe_{cname}", go)

    fconst("ZERO", "ConstZero")
    fconst("ONE", "ConstOne")

    def trf(lname, src, rname, rel, after=None):
        def go():
            params, ret, body = find_fn(src, rname, after)
            ps = []
            for q in [x.strip() for x in params.split(",") if x.strip()]:
                if q in ("self", "&self", "&mut self", "mut self"):
                    ps.append(("self", "bfe"))
                    continue
                n, t = q.split(":", 1)
                t = t.strip().lstrip("&").strip()
                if t not in ("Self", "BFieldElement"):
                    raise Unsupported(f"field-level parameter type {t}")
                ps.append((n.replace("mut", "").strip(), "bfe"))
            text, n, rty = translate_field(body, ps, lname, fconsts, fns, ffns)
            out.append(f"/-- `{rname}` in {rel} -/\n" + text)
            ffns[rname] = (lname, n, rty)
            record(lname, rel, text)
        return try_(f"fn {lname}", go)

    trf("bfe_zero", bfe, "zero", bfe_rel, after=r"impl Zero for BFieldElement")
    trf("bfe_is_zero", bfe, "is_zero", bfe_rel, after=r"impl Zero for BFieldElement")
    trf("bfe_one", bfe, "one", bfe_rel, after=r"impl One for BFieldElement")
    trf("bfe_is_one", bfe, "is_one", bfe_rel, after=r"impl One for BFieldElement")
    trf("bfe_add_assign", bfe, "add_assign", bfe_rel, after=r"impl AddAssign for BFieldElement")
    trf("bfe_sub_assign", bfe, "sub_assign", bfe_rel, after=r"impl SubAssign for BFieldElement")
    trf("bfe_mul_assign", bfe, "mul_assign", bfe_rel, after=r"impl MulAssign for BFieldElement")
    trf("bfe_neg", bfe, "neg", bfe_rel, after=r"impl Neg for BFieldElement")
    trf("bfe_increment", bfe, "increment", bfe_rel)
    trf("bfe_decrement", bfe, "decrement", bfe_rel)
    trf("bfe_generator", bfe, "generator", bfe_rel)
    trf("bfe_square", strip_comments(read("twenty-first/src/math/traits.rs")), "square",
        "twenty-first/src/math/traits.rs", after=r"pub trait FiniteField")
    # ---- END G01 ----------------------------------------------------------------------------------------------------
    out.append("end TF.Gen\n")
    if write_if_changed(os.path.join(OUT, "BField.lean"), "\n".join(out)):
        changed.append("BField")

    # ---------------------------------------------------------------- Tip5 word-level pieces
    out = [HEADER.format(src=tip5_rel + ", " + mds_rel), "import TF.Model.Word\n", "set_option linter.unusedVariables false\n", "namespace TF.Gen\n"]
    tr("offset_fermat_cube_map", tip5, "offset_fermat_cube_map", tip5_rel, sink=out)

    def mds_loop_body(body):
        m = re.search(r"for\s+r\s+in\s+0\s*\.\.\s*STATE_SIZE\s*\{", body)
        if not m:
            raise Unsupported("mds_generated: recombination loop not found")
        st = m.end() - 1
        en = balanced(body, st)
        inner = body[st + 1:en - 1]
        inner = inner.replace("lo[r]", "lo_r").replace("hi[r]", "hi_r")
        m2 = re.search(r"self\.state\[r\]\s*=\s*(.*);\s*$", inner.strip(), flags=re.S)
        if not m2:
            raise Unsupported("mds_generated: final assignment")
        head = inner.strip()[:m2.start()]
        # the prologue must still be the documented split into 32-bit halves
        pro = body[:m.start()]
        if not re.search(r"hi\[i\]\s*=\s*b\s*>>\s*32\s*;", pro) or not re.search(r"lo\[i\]\s*=\s*b\s*&\s*0xffffffffu64\s*;", pro):
            raise Unsupported("mds_generated: limb split changed")
        if not re.search(r"lo\s*=\s*generated_function\(&lo\)\s*;\s*hi\s*=\s*generated_function\(&hi\)\s*;", pro):
            raise Unsupported("mds_generated: calls to generated_function changed")
        return head + "\n" + m2.group(1)
    tr("mds_recombine", tip5, "mds_generated", tip5_rel, params_override=[("lo_r", "u64"), ("hi_r", "u64")],
       ret_hint="u64", body_override=mds_loop_body, sink=out)

    def genfn():
        params, ret, body = find_fn(mds, "generated_function")
        text, n = translate_uint64_straightline(body, "input", 16, "generated_function")
        if n != 16:
            raise Unsupported("generated_function: output arity")
        out.append(f"/-- `generated_function` in {mds_rel} (wrapping u64 arithmetic = Lean `UInt64`) -/\n" + text)
        record("generated_function", mds_rel, text)
    try_("fn generated_function", genfn)
    out.append("end TF.Gen\n")
    if write_if_changed(os.path.join(OUT, "Tip5.lean"), "\n".join(out)):
        changed.append("Tip5")

    # ---------------------------------------------------------------- MMR index functions (loop-free)
    out = [HEADER.format(src=sb_rel + ", " + sa_rel), "import TF.Model.Word\n", "set_option linter.unusedVariables false\n", "namespace TF.Gen\n"]
    consts_mmr = {}
    saved = consts
    consts = consts_mmr
    for (ln, src, rn, rel) in [
        ("left_child", sb, "left_child", sb_rel),
        ("right_child", sb, "right_child", sb_rel),
        ("leaf_index_to_mt_index_and_peak_index", sb, "leaf_index_to_mt_index_and_peak_index", sb_rel),
        ("right_lineage_length_from_leaf_index", sb, "right_lineage_length_from_leaf_index", sb_rel),
        ("leftmost_ancestor", sa, "leftmost_ancestor", sa_rel),
        ("leaf_index_to_node_index", sa, "leaf_index_to_node_index", sa_rel),
        ("left_sibling", sa, "left_sibling", sa_rel),
        ("right_sibling", sa, "right_sibling", sa_rel),
        ("num_leafs_to_num_nodes", sa, "num_leafs_to_num_nodes", sa_rel),
    ]:
        tr(ln, src, rn, rel, sink=out)
    consts = saved
    out.append("end TF.Gen\n")
    if write_if_changed(os.path.join(OUT, "MmrIndex.lean"), "\n".join(out)):
        changed.append("MmrIndex")

    # ---------------------------------------------------------------- BEGIN hook: functions with loops (tools/rs2lean_loops.py)
    try:
        import rs2lean_loops
        rs2lean_loops.run(status, changed, fns)
    except Exception as ex:  # never fatal for the loop-free part; recorded as a refusal
        fail("loops", f"internal: {type(ex).__name__}: {ex}")
    # ---------------------------------------------------------------- END hook

    status["smt_signatures"] = smt_sigs
    status["changed_files"] = changed
    with open(os.path.join(OUT, "status.json"), "w") as f:
        json.dump(status, f, indent=1, sort_keys=True)
    if "-v" in sys.argv:
        print(json.dumps(status, indent=1))
    for k, v in status["failed"].items():
        print(f"rs2lean: REFUSED {k}: {v}", file=sys.stderr)
    return 0


if __name__ == "__main__":
    sys.exit(main())
