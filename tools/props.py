"""Per-property configuration used by checklib.py."""

COMMON_ASSUMPTIONS = [
    "rustc/LLVM code generation and the Rust standard library behave as documented",
    "compiled Lean code of the driver agrees with the kernel semantics of the same definitions",
]

PROPS = {
    "C01": {
        "translated": ["montyred", "bfe_new", "bfe_value", "bfe_add", "bfe_sub", "bfe_mul", "mod_reduce"],
        "trusted_base": [
            "modelled by hand and tied by correspondence only: mod_pow loop, inverse addition chain, batch_inversion, "
            "From<i64>, TryFrom for ints, XFieldElement operations (TF/Model/BField.lean, TF/Model/XField.lean)",
        ],
        "partial": [],
        "assumptions": COMMON_ASSUMPTIONS,
    },
}
