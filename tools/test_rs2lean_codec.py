#!/usr/bin/env python3
# BEGIN BT8 (whole file)
"""self-test of tools/rs2lean_codec.py (generic codec combinators): accepted constructs translate to the expected Lean,
everything else is REFUSED, never guessed.  Run: python3 tools/test_rs2lean_codec.py"""
import os
import sys
sys.path.insert(0, os.path.dirname(os.path.abspath(__file__)))
import rs2lean_codec as C
from rs2lean import Unsupported


def setup():
    C.R.enums = {"E": {"variants": ["A", "B", "Inner", "Int"], "from": {"dynerr": "Inner", "TryFromIntError": "Int"}},
                 "TryFromIntError": {"variants": [], "from": {}}, "F": {"variants": ["X"], "from": {}}}
    C.R.fns, C.R.leaves, C.R.macros = {}, {}, {}
    C.R.convs = {("try_from", "bfe", "usize"): "codec_usize_try_from_bfe", ("from", "usize", "bfe"): "codec_bfe_from_usize"}
    C.R.err_into_dyn = True
    C.R.poly_new = C.R.poly_struct = False


def tr(sig, body, tparams=None, consts=()):
    ctx = {"tparams": tparams if tparams is not None else {"T": {"BFieldCodec"}}, "consts": list(consts), "owner": "",
           "self_ty": "unit", "err_ty": ("err", "E")}
    params, ret = sig
    try:
        text, entry = C.translate("f", "f", "test.rs", ctx, params, ret, body, "test")
        return True, text
    except Unsupported as ex:
        return False, str(ex)


CASES = [
    # (expected substring | None, [reason substring], signature, body)
    ("TF.RustStd.Res.forIn (TF.RustStd.chunks_exact n_v s) acc",
     ("n: usize, s: &[BFieldElement]", "Result<Vec<T>, E>"),
     "let mut acc = vec![]; for c in s.chunks_exact(n) { let x = *T::decode(c).map_err(|e| e.into())?; acc.push(x); } Ok(acc)"),
    ("TF.RustStd.Res.need (n_v != 0)",
     ("n: usize, s: &[BFieldElement]", "Result<Vec<T>, E>"),
     "let mut acc = vec![]; for c in s.chunks_exact(n) { let x = *T::decode(c).map_err(|e| e.into())?; acc.push(x); } Ok(acc)"),
    ("(fun _ => \"Inner\")",
     ("s: &[BFieldElement]", "Result<T, E>"), "let x = *T::decode(s).map_err(|e| e.into())?; Ok(x)"),
    ("(T_decode : List Nat → TF.RustStd.Res T_Error T) (T_err_into : T_Error → TF.RustStd.DynErr)",
     ("s: &[BFieldElement]", "Result<T, E>"), "let x = *T::decode(s).map_err(|e| e.into())?; Ok(x)"),
    ("let i : Nat := 0",          # untyped literal typed from its use
     ("s: &[BFieldElement]", "Result<usize, E>"), "let mut i = 0; for _ in 0..s.len() { i += 1; } Ok(i)"),
    ("(TF.RustStd.Res.need (decide (i + 1 < 18446744073709551616))",
     ("s: &[BFieldElement]", "Result<usize, E>"), "let mut i = 0; for _ in 0..s.len() { i += 1; } Ok(i)"),
    ("(TF.RustStd.Res.unwrapO (s[0]?)", ("s: &[BFieldElement]", "Result<BFieldElement, E>"), "Ok(s[0])"),
    ("(codec_usize_try_from_bfe x_1) (fun _ => \"Int\")",
     ("s: &[BFieldElement]", "Result<usize, E>"), "let n = s[0].try_into()?; let m: usize = n; Ok(m)"),
    ("(TF.RustStd.checked_mul 18446744073709551616 a b)", ("a: usize, b: usize", "Option<usize>"), "a.checked_mul(b)"),
    ("def f_ok (a : Nat) (b : Nat) : Bool :=\n  ((decide (a * b < 18446744073709551616)) && true)", ("a: usize, b: usize", "usize"), "a * b"),
    ("List.foldl", ("xs: Iter<T>", "Vec<BFieldElement>"),
     "let mut e = vec![]; for x in xs { let y = x.encode(); e.push(y.len().into()); e.extend(y); } e"),
    ("(T_static_length : Option Nat)", ("", "Option<usize>"), "T::static_length().map(|l| l * N)", None, ("N",)),
    # ---- refusals
    (None, "call of U::decode", ("s: &[BFieldElement]", "Result<T, E>"), "let x = *U::decode(s).map_err(|e| e.into())?; Ok(x)"),
    (None, "no `From<", ("r: Result<usize, F>", "Result<usize, E>"), "let v = r?; Ok(v)"),
    (None, "`while`", ("a: usize", "usize"), "while a > 0 { } a"),
    (None, "expression statement", ("n: usize", "Result<Vec<T>, E>"), "let mut v = vec![]; v.try_reserve_exact(n)?; Ok(v)"),
    (None, "method `frobnicate`", ("a: usize", "usize"), "a.frobnicate()"),
    (None, "has no bound `FiniteField`", ("x: T", "bool"), "x.is_zero()"),
    (None, "could not be inferred", ("a: usize", "usize"), "let z = vec![]; a"),
    (None, "`break`", ("s: &[BFieldElement]", "Result<usize, E>"), "let mut i = 0; for _ in 0..s.len() { i += 1; break; } Ok(i)"),
    (None, "right operand of `&&`", ("s: &[BFieldElement], a: usize", "bool"), "a > 0 && s[0] == s[0]"),
    (None, "E has no variant Nope", ("a: usize", "Result<usize, E>"), "Err(E::Nope)"),
    (None, "changes no variable", ("s: &[BFieldElement]", "Result<usize, E>"), "for _ in 0..s.len() { let y = T::decode(s)?; } Ok(0)"),
]

TUPLE_BAD = """
macro_rules! impl_bfield_codec_for_tuple {
    ($($forward:ident),+) => { impl_bfield_codec_for_tuple!(@>@ $($forward)+ @rev@); };
    ($($a:ident)* @>@ $b:ident $($c:ident)* @rev@ $($reverse:ident)*) => {
        impl_bfield_codec_for_tuple!($($a)* $b @>@ $($c)* @rev@ $($reverse)* $b); };
    ($($f:ident)+ @>@ @rev@ $($r:ident)+) => { impl<$($f),+> BFieldCodec for ($($f),+) {} };
}
impl_bfield_codec_for_tuple!(A, B);
"""


def main():
    setup()
    bad = 0
    for case in CASES:
        exp = case[0]
        if exp is None:
            why, sig, body = case[1], case[2], case[3]
            extra = case[4:]
        else:
            sig, body = case[1], case[2]
            extra = case[3:]
        ok, out = tr(sig, body, *extra)
        if exp is None:
            good = (not ok) and why in out
        else:
            good = ok and exp in out
        if not good:
            bad += 1
            print("FAIL", case[:2], "\n   ->", ok, out[:600])
    # macro: the reversing rules are checked textually
    try:
        C.expand_tuple_macro(TUPLE_BAD)
        bad += 1
        print("FAIL: changed reversing rule accepted")
    except Unsupported as ex:
        if "reversing rules changed" not in str(ex):
            bad += 1
            print("FAIL: tuple macro reason", ex)
    # the real source translates completely (nothing refused) when /repo is readable
    try:
        from rs2lean import strip_comments, read
        src = strip_comments(read(C.COD_REL))
        exps = C.expand_tuple_macro(src)
        if [len(f) for f, _ in exps] != list(range(2, 13)):
            bad += 1
            print("FAIL: tuple arities", [len(f) for f, _ in exps])
        if "let B = *B::decode(sequence_for_ty)" not in exps[0][1].replace("\n", " ") and "let B = *B::decode" not in exps[0][1]:
            bad += 1
            print("FAIL: tuple expansion order")
        e = C.read_enums(src)
        if e["BFieldCodecError"]["from"] != {"TryFromIntError": "TryFromIntError", "dynerr": "InnerDecodingFailure"}:
            bad += 1
            print("FAIL: #[from] table", e["BFieldCodecError"]["from"])
    except OSError:
        pass
    print("rs2lean_codec self-test:", "OK" if not bad else f"{bad} FAILED", f"({len(CASES) + 2} cases)")
    return 1 if bad else 0


if __name__ == "__main__":
    sys.exit(main())
# END BT8
