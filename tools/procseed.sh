#!/bin/bash
# procseed.sh Cxx [other props to run as well]: confirm both seeded changes of ${SEEDROOT:-/tmp/seed}/Cxx (tests pass, demo fails with / passes
# without the patch), then run the registered quick checks against a scratch copy with each patch applied (seedtest.py).
P=$1; shift
mkdir -p /root/seedlogs
L=/root/seedlogs/$P.log
{
  echo "== confirm"; bash /verif/tools/confirmseeds.sh $P
  for N in 1 2; do
    echo "== seedtest patch_$N"
    python3 /verif/tools/seedtest.py ${SEEDROOT:-/tmp/seed}/$P/out/patch_$N.diff $P "$@" 2>&1 | tail -12
  done
} > $L 2>&1
tail -30 $L
