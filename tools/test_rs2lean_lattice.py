#!/usr/bin/env python3
"""self-test of tools/rs2lean_lattice.py (the loops of lattice.rs): accepted constructs translate, near misses are REFUSED
(Unsupported), never guessed.  Run: python3 tools/test_rs2lean_lattice.py   (exit 0 = all expectations met)"""
import os
import sys
sys.path.insert(0, os.path.dirname(os.path.abspath(__file__)))
import rs2lean_lattice as T
from rs2lean import Unsupported

STRUCT = "pub struct CyclotomicRingElement { coefficients: [BFieldElement; 64], }\n"
COSET = """
pub fn coset_ntt_noswap_64(array: &mut [BFieldElement; 64]) { const N: usize = 64; let mut m: usize = 1; while m < N { m *= 2; } }
pub fn coset_intt_noswap_64(array: &mut [BFieldElement; 64]) { for a in array.iter_mut() { *a *= BFieldElement::new(3); } }
"""

# (expected, mode, source of fn f, substring that must occur in the translation or None)
CASES = [
    # ---- field mode: operations through the parameter record, tables of literals, consts inside the body
    ("ok", "field", "fn f(array: &mut [BFieldElement; 64]) { const N: usize = 64; const C: BFieldElement = BFieldElement::new(7); let tab = [BFieldElement::new(1), BFieldElement::new(18446744069414584320)]; let mut m: usize = 1; while m < N { for i in 0..m { let zeta = tab[m + i]; let u = array[i]; let v = array[i + m] * zeta; array[i] = u + v; array[i + m] = (u - v) * C; } m *= 2; } }", "ops.sofNat 18446744069414584320"),
    ("ok", "field", "fn f(array: &mut [BFieldElement; 64]) { const N_INV: BFieldElement = BFieldElement::new(5); for a in array.iter_mut() { *a *= N_INV; } }", "ops.scale N_INV"),
    ("ok", "field", "fn f(array: &mut [BFieldElement; 64]) { let mut t = 1; let mut h = 32; for _ in 0..6 { let u = array[t]; array[h] = u + u; t *= 2; h >>= 1; } }", "ops.add u u"),
    ("refuse", "field", "fn f(array: &mut [BFieldElement; 64]) { let x = N; const N: usize = 64; }", None),                      # const used before its declaration
    ("refuse", "field", "fn f(array: &mut [BFieldElement; 64]) { let i = 3; let z = BFieldElement::new(i); }", None),            # new of a non-literal in generic code
    ("refuse", "field", "fn f(array: &mut [BFieldElement; 64]) { let z = BFieldElement::new(18446744073709551616); }", None),    # literal does not fit u64
    ("refuse", "field", "fn f(array: &mut [BFieldElement; 64]) { let u = array[0]; array[1] = u * u; }", None),                  # element * element: not in the record
    ("refuse", "field", "fn f(array: &mut [BFieldElement; 64]) { let z = BFieldElement::new(2); let u = array[0]; array[1] = z * u; }", None),   # scalar on the left
    ("refuse", "field", "fn f(array: &mut [BFieldElement; 64]) { let z = BFieldElement::new(2); let u = array[0]; array[1] = (u - u) + z; }", None),  # element + scalar
    ("refuse", "field", "fn f(array: [BFieldElement; 64]) { let u = array[0]; }", None),                                         # by-value array in generic code
    ("refuse", "field", "fn f(array: &mut [BFieldElement; 64]) { let tab = []; }", None),                                        # empty array literal
    ("refuse", "field", "fn f(array: &mut [BFieldElement; 64]) { let tab = [BFieldElement::new(1), 2]; }", None),                # mixed array literal
    ("refuse", "field", "fn f(array: &mut [BFieldElement; 64]) { let v = array[0].value(); }", None),                            # value() in generic code
    ("refuse", "field", "fn f(array: &mut [BFieldElement; 64]) { coset_ntt_noswap_64(&mut array); }", None),                     # call in generic code
    # ---- canonical-value mode: integers, i32 fallback, chunks, struct literal, collect
    ("ok", "canon", "fn f(msg: [u8; 32]) -> CyclotomicRingElement { let mut e: [BFieldElement; 64] = [BFieldElement::ZERO; 64]; for i in 0..msg.len() { let mut x = 0u64; for j in 0..4 { let bit = (msg[i] >> j) & 1; x += (bit as u64) << (15 + 16 * j); } e[2 * i] = BFieldElement::new(x); } CyclotomicRingElement { coefficients: e, } }", "% 2147483648"),
    ("ok", "canon", "fn f(e: CyclotomicRingElement) -> [u8; 32] { let mut msg = [0u8; 32]; for (ctr, pair) in e.coefficients.chunks(2).enumerate() { let mut byte = 0u8; let mut value = pair[0].value(); for j in 0..4 { let chunk = value & 0xffff; value >>= 16; let bit = if chunk < (1 << 14) || (1 << 16) - chunk < (1 << 14) { 0 } else { 1 }; byte |= bit << j; } value = pair[1].value(); msg[ctr] = byte; } msg }", "(2 * ctr + 1 < e.length)"),
    ("ok", "canon", "fn f(self, rhs: Self) -> Self::Output { CyclotomicRingElement { coefficients: (0..64).map(|i| self.coefficients[i] + rhs.coefficients[i]).collect_vec().try_into().unwrap(), } }", "TF.Spec.fadd"),
    ("ok", "canon", "fn f(a: CyclotomicRingElement, b: CyclotomicRingElement) -> CyclotomicRingElement { let mut c = a; for i in 0..64 { c.coefficients[i] = a.coefficients[i] * b.coefficients[i]; } c }", "TF.Spec.fmul"),
    ("ok", "canon", "fn f(self, rhs: Self) -> Self::Output { let mut l = self.coefficients; coset_ntt_noswap_64(&mut l); coset_intt_noswap_64(&mut l); CyclotomicRingElement { coefficients: l, } }", "lat_coset_ntt_noswap_64 TF.Model.Ntt.bOps l).bind"),
    ("refuse", "canon", "fn f(msg: [u8; 32]) -> u64 { let mut x = 0u64; for j in 0..4 { x += (msg[0] as u64) << (15 - 3 * j); } x }", None),      # subtraction on an i32
    ("refuse", "canon", "fn f(msg: [u8; 32]) -> u64 { let mut x = 0u64; for j in 0..4 { if j < 2 { x += 1; } } x }", None),                    # comparison of an i32
    ("refuse", "canon", "fn f(msg: [u8; 32]) -> u64 { let mut x = 0u64; for j in 0..4 { x += (msg[0] as u64) << (j / 2); } x }", None),        # division of an i32
    ("refuse", "canon", "fn f(msg: [u8; 32]) -> u64 { let s = 2147483648; let x = (msg[0] as u64) << s; x }", None),                           # i32 literal out of range
    ("refuse", "canon", "fn f(e: CyclotomicRingElement) -> u64 { let mut s = 0u64; for (ctr, pair) in e.coefficients.chunks(2).enumerate() { s = pair[2].value(); } s }", None),   # index beyond the chunk
    ("refuse", "canon", "fn f(e: CyclotomicRingElement) -> u64 { let mut s = 0u64; for (ctr, pair) in e.coefficients.chunks(2).enumerate() { s = pair[ctr].value(); } s }", None), # non-literal index
    ("refuse", "canon", "fn f(e: CyclotomicRingElement) -> usize { let mut s = 0usize; for (ctr, pair) in e.coefficients.chunks(2).enumerate() { s = pair.len(); } s }", None),    # the chunk used as a value
    ("refuse", "canon", "fn f(e: CyclotomicRingElement) -> u64 { let mut s = 0u64; for (ctr, pair) in e.coefficients.chunks(0).enumerate() { s = 1; } s }", None),                 # chunks(0) panics
    ("refuse", "canon", "fn f(e: CyclotomicRingElement) -> u64 { let mut s = 0u64; for (ctr, pair) in e.coefficients.windows(2).enumerate() { s = 1; } s }", None),                # another adaptor
    ("refuse", "canon", "fn f(e: CyclotomicRingElement) -> u64 { let mut s = 0u64; for (ctr, pair) in e.coefficients.chunks(2).enumerate().skip(1) { s = 1; } s }", None),         # longer adaptor chain
    ("refuse", "canon", "fn f(self, rhs: Self) -> Self::Output { CyclotomicRingElement { coefficients: (0..64).map(|i| self.coefficients[i]).rev().collect_vec().try_into().unwrap(), } }", None),   # other chain
    ("refuse", "canon", "fn f(self, rhs: Self) -> Self::Output { CyclotomicRingElement { coefficients: (0..64).filter(|i| true).collect_vec().try_into().unwrap(), } }", None),
    ("refuse", "canon", "fn f(self, rhs: Self) -> Self::Output { CyclotomicRingElement { values: self.coefficients, } }", None),               # unknown field
    ("refuse", "canon", "fn f(self, rhs: Self) -> Self::Output { let mut l = self.coefficients; coset_ntt_noswap_64(l); CyclotomicRingElement { coefficients: l, } }", None),  # not `&mut`
    ("refuse", "canon", "fn f(self, rhs: Self) -> Self::Output { let mut l = self.coefficients; some_other_fn(&mut l); CyclotomicRingElement { coefficients: l, } }", None),
    ("refuse", "canon", "fn f(e: CyclotomicRingElement) -> u64 { let v = e.coefficients[0] + 1; 0 }", None),                                    # BFieldElement + integer
    ("refuse", "canon", "fn f(e: CyclotomicRingElement) -> u64 { let v = 3u64; v.value() }", None),                                             # value() of an integer
    ("refuse", "canon", "fn f(e: CyclotomicRingElement) -> CyclotomicRingElement { CyclotomicRingElement::one() }", None),                      # unknown associated function
]


def translate(mode, src):
    full = STRUCT + COSET + src
    tf, pf = {}, {}
    for rn in T.COSET_FNS:
        text, params, rty, partial = T.translate_fn_lat(full, rn, "lat_" + rn, "<test>", tf, pf, "field", 8)
        (pf if partial else tf)[rn] = ("lat_" + rn, [t for _, t in params], rty)
    return T.translate_fn_lat(full, "f", "f", "<test>", tf, pf, mode, 8, is_method=True)[0]


def main():
    bad = 0
    for exp, mode, src, needle in CASES:
        try:
            text = translate(mode, src)
            got = "ok"
            if exp == "ok" and needle and needle not in text:
                got = "ok-but-missing " + needle
        except Unsupported as ex:
            got, text = "refuse", str(ex)
        except Exception as ex:
            got, text = "refuse", f"internal {type(ex).__name__}: {ex}"      # a crash is recorded as a refusal by the driver, too
        if got != exp:
            bad += 1
        print(f"{'   ' if got == exp else '!!!'} expected {exp:6} got {got:6}  {src[:88]}...  {'' if got == 'ok' else '-> ' + text[:70]}")
    a = translate("canon", CASES[15][2])
    b = translate("canon", CASES[15][2])
    if a != b:
        bad += 1
        print("!!! translation is not deterministic")
    return 1 if bad else 0


if __name__ == "__main__":
    sys.exit(main())
