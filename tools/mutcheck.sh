#!/bin/sh
# tools/mutcheck.sh <file relative to /repo> <sed expression> <Cxx> [tier]
#
# Sensitivity experiment without touching /repo (not even its .git): copies /repo's working tree (minus target/.git) to a
# scratch directory, applies the sed expression to one file, clones THIS framework clone next to it (build products
# copied, harness and translator pointed at the mutated copy) and runs ./check there.  Prints the diff of the mutation,
# the check's verdict and the broken obligations named in the replay file.  Scratch dir is removed unless KEEP=1.
set -e
rel="$1"; expr="$2"; prop="$3"; tier="${4:-quick}"
here=$(cd "$(dirname "$0")/.." && pwd)
base=$(mktemp -d /tmp/mutchk-XXXXXX)
mkdir -p "$base/repo"
( cd /repo && tar cf - --exclude=./target --exclude=./.git . ) | ( cd "$base/repo" && tar xf - )
cp "$base/repo/$rel" "$base/orig"
sed -i "$expr" "$base/repo/$rel"
echo "--- mutation of $rel"
diff "$base/orig" "$base/repo/$rel" || true
if cmp -s "$base/orig" "$base/repo/$rel"; then echo "sed expression changed nothing"; rm -rf "$base"; exit 2; fi
git clone -q "$here" "$base/verif"
for s in lean/.lake harness/target; do [ -d "$here/$s" ] && cp -a "$here/$s" "$base/verif/$s"; done
mkdir -p "$base/verif/work" "$base/verif/evidence"
sed -i "s|/repo/|$base/repo/|g" "$base/verif/harness/Cargo.toml"
sed -i "s|\"/repo/Cargo.lock\"|\"$base/repo/Cargo.lock\"|" "$base/verif/tools/checklib.py"
echo "--- ./check $prop --tier $tier  (VERIF_REPO=$base/repo)"
set +e
# watchdog: a mutated implementation may loop forever while pushing to a Vec -- kill the scratch harness when it runs
# longer than MUT_RUN_S seconds or grows beyond MUT_RSS_KB (the check then reports the crash of the implementation side)
( while [ -d "$base" ]; do
    for pid in $(pgrep -f "$base/verif/harness/target/release/tfh" 2>/dev/null); do
      rss=$(ps -o rss= -p "$pid" 2>/dev/null | tr -d ' '); et=$(ps -o etimes= -p "$pid" 2>/dev/null | tr -d ' ')
      if [ "${rss:-0}" -gt "${MUT_RSS_KB:-4000000}" ] || [ "${et:-0}" -gt "${MUT_RUN_S:-180}" ]; then
        echo "    watchdog: killing scratch harness pid $pid (rss=${rss}kB, ${et}s)"; kill -9 "$pid"; fi
    done; sleep 2; done ) &
wd=$!
( cd "$base/verif" && VERIF_REPO="$base/repo" timeout 2400 ./check "$prop" --tier "$tier" 2>&1 | grep -E "^(VIOLATION|OK|KNOWN|rs2lean)" )
kill $wd 2>/dev/null
rp=$(ls "$base"/verif/replays/*.json 2>/dev/null | head -1)
if [ -n "$rp" ]; then
  python3 - "$rp" <<'PY'
import json, sys
d = json.load(open(sys.argv[1]))
print("    kind:", d.get("kind"), "| op:", (d.get("op_lines") or [""])[0][:160], "| impl:", str(d.get("implementation_output"))[:60],
      "| model:", str(d.get("model_output"))[:60], "| oracle:", d.get("oracle"))
print("    broken obligations:", sorted({str(b.get("decl")) + "@" + str(b.get("file")).split("/")[-1] for b in d.get("broken_obligations", [])})[:8])
print("    untranslatable:", d.get("untranslatable"))
PY
fi
[ "$KEEP" = "1" ] && echo "kept $base" || rm -rf "$base"
