#!/usr/bin/env python3
# BEGIN BT6
"""self-test of tools/rs2lean_poly.py (core loops of polynomial.rs): accepted constructs translate (and the interesting ones
to the expected Lean text), everything else is REFUSED (Unsupported), never guessed.
Run: python3 tools/test_rs2lean_poly.py   (exit 0 = all expectations met)"""
import os
import sys
sys.path.insert(0, os.path.dirname(os.path.abspath(__file__)))
import rs2lean_poly as P
from rs2lean import Unsupported

PRE = """
impl<FF: FiniteField> Polynomial<'static, FF> {
    pub fn new(coefficients: Vec<FF>) -> Self { let coefficients = Cow::Owned(coefficients); Self { coefficients } }
    pub fn zero() -> Self { Self::new(vec![]) }
    pub fn degree(&self) -> isize { let mut deg = self.coefficients.len() as isize - 1;
        while deg >= 0 && self.coefficients[deg as usize].is_zero() { deg -= 1; } deg }
    fn normalize(&mut self) { while self.coefficients.last().is_some_and(Zero::is_zero) { self.coefficients.to_mut().pop(); } }
}
"""
PRE_SPECS = [P.S("new", "new", tparams=[P.FF_PLAIN]), P.S("zero", "zero", tparams=[P.FF_PLAIN]),
             P.S("degree", "degree", fuel=["self_.length + 1"]), P.S("normalize", "normalize", fuel=["self_.length + 1"])]

# (expected, source of fn f, substring that must occur in the Lean text or None, extra spec entries)
CASES = [
    # ---- accepted: the forms the translated functions of polynomial.rs use
    ("ok", "fn f(&self) -> isize { self.degree() + 1 }", "(TF.Gen.Poly.degree F self_).bind", {}),
    ("ok", "fn f(&self) -> Option<FF> { match self.degree() { -1 => None, n => Some(self.coefficients[n as usize]) } }", "toUsize?", {}),
    ("ok", "fn f(&self, k: usize) -> usize { k.saturating_add(1) }", "Nat.min (k + 1) 18446744073709551615", {}),
    ("ok", "fn f(&self, k: usize) -> usize { self.coefficients.len() - k }", "TF.PolyStd.usub?", {}),          # checked usize subtraction
    ("ok", "fn f(&self, k: usize) -> usize { self.coefficients.len().saturating_sub(k) }", "self_.length - k", {}),
    ("ok", "fn f(&self) -> FF { self.coefficients[0].inverse() }", "TF.PolyStd.inverse? F", {}),                # inverse of zero panics
    ("ok", "fn f(&self, o: &Self) -> Self { let c = self.coefficients.iter().zip_longest(o.coefficients.iter()).map(|a| match a { EitherOrBoth::Both(&l, &r) => l - r, EitherOrBoth::Left(&l) => l, EitherOrBoth::Right(&r) => FF::ZERO - r, }).collect(); Polynomial::new(c) }", "zipLongestMap", {}),
    ("ok", "fn f(&self, s: FF) -> Self { let mut v = self.coefficients.to_vec(); for c in &mut v { *c *= s; } Polynomial::new(v) }", "v.map (fun c => (F.mul c s))", {}),
    ("ok", "fn f(&self) -> Self { let mut v = vec![FF::ZERO; 3]; for i in 0..self.coefficients.len() { if self.coefficients[i].is_zero() { continue; } v[i] += self.coefficients[i]; } Polynomial::new(v) }", "List.range' 0", {}),
    ("ok", "fn f(&self) -> Self { let mut r = self.clone(); r.normalize(); r }", "TF.Gen.Poly.normalize F r", {}),
    ("ok", "fn f(&self, o: &Self) -> Self { if self.degree() < 3 { self.clone() } else { other_strategy(o) } }", "other_strategy o",
     {"callees": {"other_strategy": ([P.P_FF], P.P_FF, True)}}),                                                 # untranslated callee = parameter
    ("ok", "fn f(&self) -> Self { let Ok(d) = usize::try_from(self.degree()) else { return Polynomial::zero(); }; Polynomial::new(vec![FF::ONE; d]) }", "match (TF.PolyStd.toUsize?", {}),
    # ---- S4: the forms of `pow`
    ("ok", "fn f(&self, e: u32) -> Self { let Some(b) = e.checked_ilog2() else { return Polynomial::new(vec![FF::ONE; 1]); }; Polynomial::new(vec![FF::ZERO; 1]) }",
     "(if e == 0 then none else some (Nat.log2 e))", {}),                                                      # None exactly for 0
    ("ok", "fn f(&self, e: u32, s: u32) -> bool { (e >> s & 1) == 1 }", "(TF.PolyStd.ushr? 32 e s).bind", {}),   # checked shift amount
    ("ok", "fn f(&self, e: u64, s: u64) -> bool { (e >> s & 1) == 1 }", "TF.PolyStd.ushr? 64 e s", {}),
    ("ok", "fn f(&self, n: u32) -> Self { let mut v = vec![FF::ZERO; 3]; for i in 0..=n { v[0] += self.coefficients[0]; if i == n { v[1] += self.coefficients[0]; } } Polynomial::new(v) }",
     "List.range' 0 (n + 1 - 0)", {}),                                                                         # `if` without else in tail position
    # ---- refused
    ("refuse", "fn f(&self) -> isize { loop { } }", None, {}),                                                   # loop
    ("refuse", "fn f(&self) -> isize { let mut d = 0; while d < 3 { d += 1; } d }", None, {}),                   # while without fuel in the table
    ("refuse", "fn f(&self) -> isize { for i in 0..3 { if i == 1 { break; } } 0 }", None, {}),                   # break
    ("refuse", "fn f(&self) -> isize { for i in 0..3 { if i == 1 { return 1; } } 0 }", None, {}),                # return inside a loop
    ("refuse", "fn f(&self) -> FF { self.coefficients.iter().fold(FF::ZERO, |a, &b| a + b) }", None, {}),        # fold
    ("refuse", "fn f(&self) -> bool { self.coefficients.iter().all(|c| self.coefficients[0] == *c) }", None, {}),  # closure that can panic
    ("refuse", "fn f(&self) -> bool { self.coefficients.iter().all(|c| { c.is_zero() }) }", None, {}),           # block-bodied closure
    ("refuse", "fn f(&self) -> bool { self.coefficients.iter().all(|c: &FF| c.is_zero()) }", None, {}),          # typed closure parameter
    ("refuse", "fn f(&self) -> Self { unknown_fn(self) }", None, {}),                                            # unknown callee
    ("refuse", "fn f(&self) -> Self { self.unknown_method() }", None, {}),                                       # unknown method
    ("refuse", "fn f(&self, x: XFieldElement) -> Self { self.clone() }", None, {}),                              # type outside the table
    ("refuse", "fn f(&self, s: GG) -> Self { self.clone() }", None, {}),                                         # unknown generic
    ("refuse", "fn f(&self) -> usize { self.coefficients.len() / 2 }", None, {}),                                # integer division: not in the subset
    ("refuse", "fn f(&self) -> usize { self.coefficients.len() << 1 }", None, {}),                               # shift
    ("refuse", "fn f(&self) -> u32 { self.coefficients.len() as u32 }", None, {}),                               # narrowing cast
    ("refuse", "fn f(&self) -> Self { let mut v = self.coefficients.to_vec(); for c in &mut v { *c *= v[0]; } Polynomial::new(v) }", None, {}),  # iter_mut body reads the vector
    ("refuse", "fn f(&self) -> Self { let mut v = self.coefficients.to_vec(); v.sort(); Polynomial::new(v) }", None, {}),
    ("refuse", "fn f(&self) -> Self { let v = self.coefficients.iter().zip_longest(self.coefficients.iter()).map(|a| match a { EitherOrBoth::Both(&l, &r) => l + r, EitherOrBoth::Left(&c) => c, }).collect(); Polynomial::new(v) }", None, {}),  # Right arm missing
    ("refuse", "fn f(&self) -> isize { if let Some(c) = self.coefficients.last() { 1 } else { 0 } }", None, {}),  # if let
    ("refuse", "fn f(&self) -> FF { self.coefficients[0] + 1 }", None, {}),                                      # element + integer
    ("refuse", "fn f(&self) -> Result<Self, String> { Ok(self.clone()) }", None, {}),                            # Result
    ("refuse", "fn f(&self) -> Self { let x = self.coefficients.iter().map(|c| *c)?; self.clone() }", None, {}),  # `?`
]


def main():
    bad = 0
    P.REGISTRY.clear()
    for sp in PRE_SPECS:
        text, info = P.translate_fn(sp, PRE)
        P.REGISTRY[sp["rust"]] = info
    for i, (want, src, needle, extra) in enumerate(CASES):
        spec = P.S("f", "f", **extra)
        try:
            text, info = P.translate_fn(spec, "impl<FF: FiniteField> Polynomial<'_, FF> {\n" + src + "\n}\n")
            got = "ok"
        except Unsupported as ex:
            got, text = "refuse", str(ex)
        except Exception as ex:        # a crash counts as a refusal in the pipeline, but is reported here
            got, text = "crash", f"{type(ex).__name__}: {ex}"
        ok = (got == want) or (want == "refuse" and got == "crash" and False)
        if ok and want == "ok" and needle is not None and needle not in text:
            ok = False
            got = "ok (but the expected Lean fragment is missing)"
        if not ok:
            bad += 1
            print(f"case {i}: expected {want}, got {got}\n    {src}\n    {text[:400]}")
    # the real source: every function of the table translates, every function of POLY_OUTSIDE is refused
    repo = os.environ.get("VERIF_REPO", "/repo")
    from rs2lean import strip_comments
    src = strip_comments(open(os.path.join(repo, P.REL)).read())
    status = {"failed": {}, "translated": {}, "outside_subset": {}}
    saved = P.write_if_changed
    P.write_if_changed = lambda path, text: False
    try:
        P.run(status, [], lambda rel: src)
    finally:
        P.write_if_changed = saved
    if status["failed"]:
        bad += 1
        print("refused on the real source:", status["failed"])
    if len(status["translated"]) != len(P.POLY_FUNCTIONS):
        bad += 1
        print("translated", len(status["translated"]), "of", len(P.POLY_FUNCTIONS))
    for k, v in status["outside_subset"].items():
        if v.startswith("translatable now"):
            bad += 1
            print("expected a refusal:", k)
    print(f"test_rs2lean_poly: {len(CASES)} cases + the real source, {bad} failures")
    return 1 if bad else 0


if __name__ == "__main__":
    sys.exit(main())
# END BT6
