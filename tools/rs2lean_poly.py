#!/usr/bin/env python3
# BEGIN BT6
"""rs2lean_poly.py -- the core loops of twenty-first/src/math/polynomial.rs regenerated from source (C07, C09, C17).

Output: lean/TF/Gen/PolyLoops.lean (namespace TF.Gen.Poly).  Additive; hooked at the end of rs2lean_loops.run.

Conventions (also written into the header of the generated file):
  * `Polynomial<FF>` is its coefficient storage `List α` (`Cow::Owned`/`Cow::Borrowed`/`&[FF]`/`Vec<FF>`/iterators over them
    are the same list; `&`, `*`, `.clone()`, `.iter()`, `.copied()`, `.into_owned()`, `.as_ref()`, `.to_vec()`, `.collect()` are
    the identity)
  * code generic over the field: every generic element type `T` becomes a Lean type variable and a record
    `F : TF.FieldOps τ` (or, for non-field scalar types, explicit operation parameters); a product of two *different* element
    types is an explicit parameter (`mul : α → β → γ`)
  * a function that can panic (index, `unwrap`/`expect`, `inverse()` of zero, `usize` subtraction below zero, `assert!`,
    slice out of range, a `while` loop running out of its fuel) returns `Option`; partial steps are chained by `Option.bind`;
    `none` = panic.  Functions without such a step are total Lean functions.
  * integers: `usize`/`u64` = `Nat`, `isize` = `Int`, `+`/`*` unbounded, `usize - usize` checked, `isize as usize` checked
    (see TF/Model/PolyStd.lean)
  * `for` loops are structural recursions over the list iterated (`a..b` = `List.range' a (b - a)`), `while` loops are
    fuel-indexed; the bridge theorems prove the fuel sufficient
  * anything else is REFUSED (`Unsupported`), never guessed
"""
import hashlib
import os
import re

from rs2lean import HEADER, OUT, Unsupported, find_fn, write_if_changed

TOKEN_RE = re.compile(r"""
    (?P<ws>\s+)
  | (?P<str>"(?:[^"\\]|\\.)*")
  | (?P<num>0x[0-9a-fA-F_]+(?:[ui](?:8|16|32|64|128|size))? | [0-9][0-9_]*(?:[ui](?:8|16|32|64|128|size))?)
  | (?P<id>[A-Za-z_][A-Za-z0-9_]*)
  | (?P<op><<=|>>=|\.\.=|::|->|=>|<<|>>|<=|>=|==|!=|&&|\|\||\+=|-=|\*=|/=|\.\.|[-+*/%&|^!<>=.,;:(){}\[\]#?])
""", re.X)


def tokenize(s):
    s = re.sub(r"'[A-Za-z_][A-Za-z0-9_]*(?!')", " ", s)      # lifetimes
    toks, i = [], 0
    while i < len(s):
        m = TOKEN_RE.match(s, i)
        if not m:
            raise Unsupported(f"cannot tokenize at {s[i:i + 30]!r}")
        i = m.end()
        if m.lastgroup != "ws":
            toks.append((m.lastgroup, m.group(m.lastgroup)))
    toks.append(("eof", ""))
    return toks


# --------------------------------------------------------------------------------------------------------
# parser
# --------------------------------------------------------------------------------------------------------
BINPREC = [["||"], ["&&"], ["==", "!=", "<", ">", "<=", ">="], ["|"], ["^"], ["&"], ["<<", ">>"], ["+", "-"], ["*", "/", "%"]]
INT_TYS = ("usize", "isize", "u64", "u32", "i64", "i32")


class PParser:
    def __init__(self, toks):
        self.t, self.i = toks, 0
        self.no_struct = 0

    def peek(self, k=0):
        j = min(self.i + k, len(self.t) - 1)
        return self.t[j]

    def next(self):
        tok = self.t[self.i]
        self.i += 1
        return tok

    def at(self, v, k=0):
        tok = self.peek(k)
        return tok[0] in ("op", "id") and tok[1] == v

    def accept(self, v):
        if self.at(v):
            self.i += 1
            return True
        return False

    def expect(self, v):
        if not self.accept(v):
            raise Unsupported(f"expected {v!r}, found {self.peek()[1]!r}")

    def ident(self):
        k, v = self.next()
        if k != "id":
            raise Unsupported(f"identifier expected, found {v!r}")
        return v

    # ---- types: ("ty", name, [args]) | ("tuple", [..]) | ("slice", T)
    def parse_type(self):
        while self.accept("&") or self.accept("mut"):
            pass
        if self.accept("("):
            items = []
            while not self.accept(")"):
                items.append(self.parse_type())
                self.accept(",")
            return ("tuple", items)
        if self.accept("["):
            t = self.parse_type()
            if self.accept(";"):
                self.parse_expr()
            self.expect("]")
            return ("slice", t)
        name = self.ident()
        while self.accept("::"):
            name = self.ident()
        args = []
        if self.at("<"):
            self.next()
            while True:
                if self.at(">"):
                    self.next()
                    break
                if self.at(">>"):
                    self.t[self.i] = ("op", ">")
                    break
                args.append(self.parse_type())
                self.accept(",")
        return ("ty", name, args)

    # ---- patterns
    def parse_pat(self):
        if self.accept("&"):
            self.accept("mut")
            return ("pref", self.parse_pat())
        if self.accept("mut"):
            return self.parse_pat()
        if self.accept("("):
            items = []
            while not self.accept(")"):
                items.append(self.parse_pat())
                self.accept(",")
            return ("ptuple", items)
        k, v = self.peek()
        if k == "num":
            self.next()
            return ("pint", int(re.sub(r"[ui](8|16|32|64|128|size)$", "", v).replace("_", ""), 0))
        if k == "op" and v == "-" and self.peek(1)[0] == "num":
            self.next()
            return ("pint", -int(self.next()[1].replace("_", ""), 0))
        name = self.ident()
        if name == "_":
            return ("pwild",)
        path = [name]
        while self.accept("::"):
            path.append(self.ident())
        if self.accept("("):
            items = []
            while not self.accept(")"):
                items.append(self.parse_pat())
                self.accept(",")
            return ("pctor", path, items)
        if len(path) > 1 or name[0].isupper():
            return ("pctor", path, [])
        return ("pid", name)

    # ---- expressions
    def parse_expr(self, lvl=0):
        if lvl == 0:
            # ranges (lowest precedence): `a..b`, `a..=b`, `..b`, `a..`
            if self.at("..") or self.at("..="):
                incl = self.next()[1] == "..="
                hi = None if self.range_end() else self.parse_expr(1)
                return ("range", None, hi, incl)
            lo = self.parse_expr(1)
            if self.at("..") or self.at("..="):
                incl = self.next()[1] == "..="
                hi = None if self.range_end() else self.parse_expr(1)
                return ("range", lo, hi, incl)
            return lo
        if lvl > len(BINPREC):
            return self.parse_cast()
        l = self.parse_expr(lvl + 1)
        while self.peek()[0] == "op" and self.peek()[1] in BINPREC[lvl - 1]:
            if self.peek()[1] == "|" and self.no_pipe:
                break
            op = self.next()[1]
            r = self.parse_expr(lvl + 1)
            l = ("bin", op, l, r)
        return l

    no_pipe = False

    def range_end(self):
        return self.peek()[1] in ("]", ")", "{", ",", ";")

    def parse_cast(self):
        e = self.parse_unary()
        while self.accept("as"):
            e = ("cast", e, self.parse_type())
        return e

    def parse_unary(self):
        for op in ("-", "!", "*"):
            if self.at(op):
                self.next()
                return ("un", op, self.parse_unary())
        if self.at("&"):
            self.next()
            self.accept("mut")
            return ("ref", self.parse_unary())
        if self.at("&&"):
            self.next()
            return ("ref", ("ref", self.parse_unary()))
        return self.parse_postfix()

    def parse_args(self):
        args = []
        while not self.accept(")"):
            args.append(self.parse_expr())
            self.accept(",")
        return args

    def parse_postfix(self):
        e = self.parse_primary()
        while True:
            if self.accept("."):
                k, v = self.next()
                if k == "num":
                    e = ("field", e, v)
                    continue
                if k != "id":
                    raise Unsupported("member access")
                if self.at("::"):       # turbofish
                    self.next()
                    self.expect("<")
                    depth = 1
                    while depth:
                        kk, vv = self.next()
                        depth += {"<": 1, ">": -1, ">>": -2}.get(vv, 0) if kk == "op" else 0
                        if kk == "eof":
                            raise Unsupported("turbofish")
                if self.accept("("):
                    e = ("mcall", e, v, self.parse_args())
                else:
                    e = ("field", e, v)
            elif self.at("["):
                self.next()
                idx = self.parse_expr()
                self.expect("]")
                e = ("index", e, idx)
            elif self.at("?"):
                raise Unsupported("`?` operator")
            else:
                return e

    def parse_block(self):
        """returns (stmts, tail expr or None)"""
        self.expect("{")
        saved, self.no_struct = self.no_struct, 0
        stmts, tail = [], None
        while not self.accept("}"):
            st = self.parse_stmt()
            if st[0] == "tail":
                tail = st[1]
                self.expect("}")
                break
            stmts.append(st)
        self.no_struct = saved
        return (stmts, tail)

    def parse_cond(self):
        self.no_struct += 1
        e = self.parse_expr()
        self.no_struct -= 1
        return e

    def parse_if(self):
        self.expect("if")
        if self.at("let"):
            raise Unsupported("if let")
        c = self.parse_cond()
        th = self.parse_block()
        el = None
        if self.accept("else"):
            if self.at("if"):
                el = ([], self.parse_if())
            else:
                el = self.parse_block()
        return ("ifx", c, th, el)

    def parse_primary(self):
        k, v = self.peek()
        if k == "num":
            self.next()
            m = re.match(r"^(.*?)([ui](?:8|16|32|64|128|size))?$", v)
            return ("int", int(m.group(1).replace("_", ""), 0), m.group(2))
        if k == "str":
            self.next()
            return ("str", v)
        if k == "op" and v == "(":
            self.next()
            items, trailing = [], False
            while not self.accept(")"):
                items.append(self.parse_expr())
                trailing = self.accept(",")
            if len(items) == 1 and not trailing:
                return ("paren", items[0])
            return ("tuple", items)
        if k == "op" and v == "[":
            self.next()
            items = []
            while not self.accept("]"):
                items.append(self.parse_expr())
                self.accept(",")
            return ("arrlit", items)
        if k == "op" and v in ("|", "||"):
            self.next()
            pats = []
            if v == "|":
                while not self.accept("|"):
                    pats.append(self.parse_pat())
                    if self.at(":"):
                        raise Unsupported("typed closure parameter")
                    self.accept(",")
            if self.at("{"):
                raise Unsupported("closure with a block body")
            return ("closure", pats, self.parse_expr())
        if k == "op" and v == "{":
            return ("block",) + self.parse_block()
        if k == "op" and v == "<":
            raise Unsupported("qualified path `<T as Trait>::..` (not in the substitution table of the function)")
        if k != "id":
            raise Unsupported(f"unexpected token {v!r}")
        if v == "if":
            return self.parse_if()
        if v == "match":
            self.next()
            scrut = self.parse_cond()
            self.expect("{")
            arms = []
            while not self.accept("}"):
                self.no_pipe = True
                pats = [self.parse_pat()]
                while self.accept("|"):
                    pats.append(self.parse_pat())
                self.no_pipe = False
                if self.at("if"):
                    raise Unsupported("match guard")
                self.expect("=>")
                body = self.parse_expr()
                self.accept(",")
                arms.append((pats, body))
            return ("match", scrut, arms)
        if v in ("true", "false"):
            self.next()
            return ("bool", v == "true")
        if v in ("loop", "unsafe", "async", "move", "break", "while", "for", "return", "continue", "let"):
            raise Unsupported(f"`{v}` in expression position")
        # path, macro, call, struct literal
        self.next()
        path = [v]
        while self.at("::"):
            self.next()
            if self.at("<"):            # turbofish on a path: `ntt::<FF>`
                depth = 0
                while True:
                    kk, vv = self.next()
                    if kk == "op":
                        depth += {"<": 1, ">": -1, ">>": -2}.get(vv, 0)
                    if kk == "eof":
                        raise Unsupported("turbofish")
                    if depth <= 0:
                        break
                continue
            path.append(self.ident())
        if self.at("!"):
            if self.peek(1)[1] not in ("(", "["):
                return ("path", path)
            self.next()
            close = {"(": ")", "[": "]"}[self.next()[1]]
            if path == ["vec"]:
                if self.accept(close):
                    return ("veclist", [])
                first = self.parse_expr()
                if self.accept(";"):
                    cnt = self.parse_expr()
                    self.expect(close)
                    return ("vecrep", first, cnt)
                items = [first]
                while self.accept(","):
                    if self.at(close):
                        break
                    items.append(self.parse_expr())
                self.expect(close)
                return ("veclist", items)
            args = []
            while not self.accept(close):
                args.append(self.parse_expr())
                self.accept(",")
            return ("macro", path[0], args)
        if self.accept("("):
            return ("call", path, self.parse_args())
        if self.at("{") and not self.no_struct and path[-1][0].isupper():
            self.next()
            fields = []
            while not self.accept("}"):
                f = self.ident()
                val = ("path", [f])
                if self.accept(":"):
                    val = self.parse_expr()
                fields.append((f, val))
                self.accept(",")
            return ("struct", path, fields)
        return ("path", path)

    # ---- statements
    def parse_stmt(self):
        k, v = self.peek()
        if k == "op" and v == "#":
            raise Unsupported("attribute inside a function body")
        if k == "id" and v in ("let", "const"):
            self.next()
            pat = ("pid", self.ident()) if v == "const" else self.parse_pat()
            ty = None
            if self.accept(":"):
                ty = self.parse_type()
            if not self.accept("="):
                raise Unsupported("let without initialiser")
            e = self.parse_expr()
            if self.accept("else"):
                el = self.parse_block()
                self.expect(";")
                return ("letelse", pat, e, el)
            self.expect(";")
            return ("let", pat, ty, e)
        if k == "id" and v == "while":
            self.next()
            if self.at("let"):
                raise Unsupported("while let")
            c = self.parse_cond()
            return ("while", c, self.parse_block())
        if k == "id" and v == "for":
            self.next()
            self.no_pipe = False
            pat = self.parse_pat()
            self.expect("in")
            it = self.parse_cond()
            return ("for", pat, it, self.parse_block())
        if k == "id" and v == "return":
            self.next()
            e = None if self.at(";") else self.parse_expr()
            self.accept(";")
            return ("return", e)
        if k == "id" and v == "continue":
            self.next()
            self.accept(";")
            return ("continue",)
        if k == "id" and v in ("break", "loop"):
            raise Unsupported(f"`{v}`")
        if k == "id" and v == "if":
            e = self.parse_if()
            if self.at("}"):
                return ("tail", e)
            self.accept(";")
            return ("if", e[1], e[2], e[3])
        e = self.parse_expr()
        for op in ("=", "+=", "-=", "*="):
            if self.at(op):
                self.next()
                r = self.parse_expr()
                if not self.at("}"):
                    self.expect(";")
                return ("assign", e, None if op == "=" else op[0], r)
        if self.accept(";"):
            return ("expr", e)
        if self.at("}"):
            return ("tail", e)
        raise Unsupported(f"statement: unexpected {self.peek()[1]!r}")


# --------------------------------------------------------------------------------------------------------
# emitter
# --------------------------------------------------------------------------------------------------------
class NeedPartial(Exception):
    pass


IDENT_METHODS = ("iter", "as_ref", "into_owned", "to_vec", "clone", "copied", "cloned", "to_owned", "into_iter", "collect",
                 "collect_vec", "to_mut", "as_slice", "iter_mut")
REGISTRY = {}        # rust fn name -> info dict of a function translated earlier in this run


def paren(t):
    t = t.strip()
    if re.fullmatch(r"[A-Za-z_αβγσιε][A-Za-z0-9_.'?]*|\d+|\[\]", t) or (t[0] == "(" and _balanced_whole(t)):
        return t
    return "(" + t + ")"


def _balanced_whole(t):
    d = 0
    for i, c in enumerate(t):
        d += c == "("
        d -= c == ")"
        if d == 0 and i < len(t) - 1:
            return False
    return d == 0


def indent(text):
    return "\n".join("    " + l for l in text.split("\n"))


def names_in(node, acc=None):
    """all single-segment path names (and `self`) occurring in an AST"""
    if acc is None:
        acc = set()
    if isinstance(node, tuple):
        if len(node) == 2 and node[0] == "path" and isinstance(node[1], list):
            acc.add(node[1][0])
        for x in node:
            names_in(x, acc)
    elif isinstance(node, list):
        for x in node:
            names_in(x, acc)
    return acc


def pat_names(p):
    if p[0] == "pid":
        return [p[1]]
    if p[0] == "pref":
        return pat_names(p[1])
    if p[0] in ("ptuple",):
        return [n for q in p[1] for n in pat_names(q)]
    if p[0] == "pctor":
        return [n for q in p[2] for n in pat_names(q)]
    return []


def place_root(pl):
    """the variable a place expression writes to"""
    while True:
        if pl[0] == "path" and len(pl[1]) == 1:
            return pl[1][0]
        if pl[0] in ("index", "field", "mcall"):
            pl = pl[1]
        elif pl[0] in ("un", "ref"):
            pl = pl[-1]
        elif pl[0] == "paren":
            pl = pl[1]
        else:
            raise Unsupported("assignment target")


MUT_METHODS = ("push", "pop", "reverse", "splice", "extend", "truncate", "resize", "normalize", "scalar_mul_mut")
MUT_CALLS = ("ntt", "intt")


def assigned(block, acc=None):
    """variables (outer names) written by a block (statements and tail)"""
    if acc is None:
        acc = []

    def add(n):
        if n not in acc:
            acc.append(n)

    def in_expr(e):
        # `x.pop()` inside an expression, `std::mem::take(&mut self.coefficients)`
        if isinstance(e, tuple):
            if e and e[0] == "mcall" and e[2] in MUT_METHODS:
                try:
                    add(place_root(e[1]))
                except Unsupported:
                    pass
            if e and e[0] == "call" and (e[1][-1] == "take" or e[1][-1] in MUT_CALLS) and e[2]:
                try:
                    add(place_root(e[2][0]))
                except Unsupported:
                    pass
            for x in e:
                in_expr(x)
        elif isinstance(e, list):
            for x in e:
                in_expr(x)

    stmts, tail = block
    for st in stmts:
        if st[0] == "assign":
            add(place_root(st[1]))
            in_expr(st[3])
        elif st[0] in ("while",):
            in_expr(st[1])
            assigned(st[2], acc)
        elif st[0] == "for":
            in_expr(st[2])
            if st[2][0] == "ref" or (st[2][0] == "mcall" and "iter_mut" in repr(st[2])):
                try:
                    r = st[2]
                    while r[0] in ("mcall",):
                        r = r[1]
                    add(place_root(r))
                except Unsupported:
                    pass
            assigned(st[3], acc)
        elif st[0] == "if":
            in_expr(st[1])
            assigned(st[2], acc)
            if st[3]:
                assigned(st[3], acc)
        else:
            in_expr(st)
    if tail is not None:
        in_expr(tail)
    return acc


def has_escape(block, kinds):
    stmts, tail = block
    for st in stmts:
        if st[0] in kinds:
            return True
        if st[0] == "if" and (has_escape(st[2], kinds) or (st[3] and has_escape(st[3], kinds))):
            return True
        if st[0] == "letelse":
            return True
    if tail is not None and tail[0] == "ifx":
        if has_escape(tail[2], kinds) or (tail[3] and has_escape(tail[3], kinds)):
            return True
    return False


class Em:
    def __init__(self, spec):
        self.spec = spec
        self.partial = False
        self.n = 0
        self.aux = []           # auxiliary loop definitions (text)
        self.nloops = 0
        self.tp = {t[0]: t for t in spec.get("tparams", [])}
        self.self_ty = spec.get("self_ty", ("poly", "FF"))
        self.loop_k = None
        self.ret_ty = None

    # ------------------------------------------------------------------ types
    def conv_type(self, t):
        if t is None:
            return None
        if t[0] == "tuple":
            return ("tuple", [self.conv_type(x) for x in t[1]])
        if t[0] == "slice":
            return ("list", self.conv_type(t[1]))
        _, name, args = t
        if name in INT_TYS:
            return name
        if name == "bool":
            return "bool"
        if name == "Self":
            return self.self_ty
        if name in self.tp:
            return ("elem", name)
        if name == "Polynomial" and len(args) == 1:
            return ("poly", self.conv_type(args[0])[1])
        if name in ("Vec", "Cow") and len(args) == 1:
            return ("list", self.conv_type(args[0]))
        if name == "Option" and len(args) == 1:
            return ("opt", self.conv_type(args[0]))
        raise Unsupported(f"type {name}")

    def lean_ty(self, ty):
        if ty in ("usize", "u64", "u32"):
            return "Nat"
        if ty in ("isize", "i64", "i32"):
            return "Int"
        if ty == "bool":
            return "Bool"
        if ty == "unit":
            return "Unit"
        if ty[0] == "elem":
            return self.tp[ty[1]][1]
        if ty[0] in ("list", "poly"):
            inner = ty[1] if ty[0] == "list" else ("elem", ty[1])
            if inner is None:
                raise Unsupported("list of unknown element type")
            return "List " + paren(self.lean_ty(inner))
        if ty[0] == "opt":
            return "Option " + paren(self.lean_ty(ty[1]))
        if ty[0] == "tuple":
            return "(" + " × ".join(self.lean_ty(x) for x in ty[1]) + ")"
        raise Unsupported(f"type {ty}")

    def unify(self, a, b, what=""):
        if a == b:
            return a
        if a is None:
            return b
        if b is None:
            return a
        if a == "int" and b in INT_TYS:
            return b
        if b == "int" and a in INT_TYS:
            return a
        lk = lambda t: ("list", ("elem", t[1])) if isinstance(t, tuple) and t[0] == "poly" else t
        if isinstance(a, tuple) and isinstance(b, tuple):
            if {a[0], b[0]} == {"list", "poly"}:
                u = self.unify(lk(a), lk(b), what)
                return a if a[0] == "poly" else b
            if a[0] == b[0] and a[0] in ("list", "opt"):
                return (a[0], self.unify(a[1], b[1], what))
            if a[0] == b[0] == "tuple" and len(a[1]) == len(b[1]):
                return ("tuple", [self.unify(x, y, what) for x, y in zip(a[1], b[1])])
        raise Unsupported(f"type mismatch {what}: {a} vs {b}")

    # ------------------------------------------------------------------ operations of element types
    def op(self, ty, name):
        """term of the operation `name` (zero, one, add, sub, mul, neg, isZero, beq, ofNat, inv) of element type `ty`"""
        if not (isinstance(ty, tuple) and ty[0] == "elem"):
            raise Unsupported(f"field operation {name} on {ty}")
        t = self.tp[ty[1]]
        if t[2] == "field":
            return f"{t[3]}.{name}"
        if name in t[3]:
            return t[3][name]
        raise Unsupported(f"operation {name} of the scalar type {ty[1]}")

    def binop(self, opname, lt, rt):
        """(term of the binary operation, result type) for element operands"""
        if lt == rt:
            return self.op(lt, opname), lt
        for o, a, b, c, pn in self.spec.get("mixed", []):
            if o == opname and ("elem", a) == lt and ("elem", b) == rt:
                return pn, ("elem", c)
        raise Unsupported(f"mixed operation {opname} on {lt} and {rt}")

    # ------------------------------------------------------------------ helpers
    def tmp(self):
        self.n += 1
        return f"t{self.n}"

    def pbind(self, binds, term, pat=None):
        """register a partial step; returns the name bound to its value"""
        if not self.partial:
            raise NeedPartial()
        name = pat or self.tmp()
        binds.append((name, term, True))
        return name

    def wrap(self, binds, body):
        for name, term, partial in reversed(binds):
            if partial:
                body = f"({term}).bind fun {name} =>\n{body}"
            else:
                body = f"let {name} := {term}\n{body}"
        return body

    def ret(self, term):
        return f"some {paren(term)}" if self.partial else term

    def lname(self, n):
        return {"self": "self_", "end": "end_", "from": "from_", "at": "at_", "show": "show_"}.get(n, n)

    def lit(self, n, ty):
        if ty in ("isize", "i64", "i32"):
            return f"({n} : Int)"
        if n < 0:
            raise Unsupported("negative literal of an unsigned type")
        return str(n)

    def pure(self, e, env, want=None):
        binds, t, ty = self.ex(e, env, want)
        if any(b[2] for b in binds):
            raise Unsupported("partial operation inside a closure / pure context")
        return self.wrap_pure(binds, t), ty

    def wrap_pure(self, binds, t):
        for name, term, _ in reversed(binds):
            t = f"(let {name} := {term}; {t})"
        return t

    def closure(self, c, env, arg_ty):
        """(lean lambda, result type) of a closure applied to elements of type `arg_ty`"""
        if c[0] == "path" and c[1] in (["Zero", "is_zero"],):
            return f"(fun c_ => {self.op(arg_ty, 'isZero')} c_)", "bool"
        if c[0] != "closure" or len(c[1]) != 1:
            raise Unsupported("closure form")
        pat = c[1][0]
        env2 = dict(env)
        lp = self.bind_pat(pat, arg_ty, env2)
        body, ty = self.pure(c[2], env2)
        return f"(fun {lp} => {body})", ty

    def bind_pat(self, pat, ty, env):
        """bind an irrefutable pattern against type `ty` in env; returns the Lean pattern text"""
        if pat[0] == "pref":
            return self.bind_pat(pat[1], ty, env)
        if pat[0] == "pwild":
            return "_"
        if pat[0] == "pid":
            env[pat[1]] = ty
            return self.lname(pat[1])
        if pat[0] == "ptuple" and isinstance(ty, tuple) and ty[0] == "tuple" and len(ty[1]) == len(pat[1]):
            return "(" + ", ".join(self.bind_pat(p, t, env) for p, t in zip(pat[1], ty[1])) + ")"
        raise Unsupported(f"pattern {pat[0]} against {ty}")

    # ------------------------------------------------------------------ expressions: returns (binds, pure term, type)
    def ex(self, e, env, want=None):
        k = e[0]
        if k == "paren":
            return self.ex(e[1], env, want)
        if k == "ref":
            return self.ex(e[1], env, want)
        if k == "int":
            ty = e[2] or (want if want in INT_TYS else "int")
            return [], self.lit(e[1], ty), ty
        if k == "bool":
            return [], "true" if e[1] else "false", "bool"
        if k == "path":
            return self.ex_path(e[1], env, want)
        if k == "un":
            if e[1] == "*":
                return self.ex(e[2], env, want)
            if e[1] == "-" and e[2][0] == "int":
                ty = want if want in INT_TYS else "isize"
                return [], self.lit(-e[2][1], ty), ty
            b, t, ty = self.ex(e[2], env, want)
            if e[1] == "!":
                if ty != "bool":
                    raise Unsupported("`!` on a non-bool")
                return b, f"(!{paren(t)})", "bool"
            if ty in ("isize", "i64"):
                return b, f"(-{paren(t)})", ty
            return b, f"({self.op(ty, 'neg')} {paren(t)})", ty
        if k == "bin":
            return self.ex_bin(e, env, want)
        if k == "cast":
            b, t, ty = self.ex(e[1], env)
            to = self.conv_type(e[2])
            if ty == "int":
                b, t, ty = self.ex(e[1], env, to)
            if ty == to:
                return b, t, to
            if ty in ("usize", "u64", "u32") and to in ("isize", "i64"):
                return b, f"(Int.ofNat {paren(t)})", to
            if ty in ("isize", "i64") and to in ("usize", "u64"):
                return b, self.pbind(b, f"TF.PolyStd.toUsize? {paren(t)}"), to
            if ty in ("usize", "u64") and to in ("usize", "u64"):
                return b, t, to
            if ty == "u32" and to in ("usize", "u64"):
                return b, t, to
            raise Unsupported(f"cast {ty} as {to}")
        if k == "tuple":
            parts = [self.ex(x, env) for x in e[1]]
            return sum((p[0] for p in parts), []), "(" + ", ".join(p[1] for p in parts) + ")", ("tuple", [p[2] for p in parts])
        if k == "vecrep":
            b1, v, vty = self.ex(e[1], env)
            b2, c, cty = self.ex(e[2], env, "usize")
            self.unify(cty, "usize", "vec! length")
            return b1 + b2, f"(List.replicate {paren(c)} {paren(v)})", ("list", vty)
        if k in ("veclist", "arrlit"):
            parts = [self.ex(x, env) for x in e[1]]
            ty = None
            for p in parts:
                ty = self.unify(ty, p[2], "vec! items")
            if ty is None and isinstance(want, tuple) and want[0] in ("list", "poly"):
                ty = want[1] if want[0] == "list" else ("elem", want[1])
            return sum((p[0] for p in parts), []), "[" + ", ".join(p[1] for p in parts) + "]", ("list", ty)
        if k == "struct":
            if e[1] in (["Self"], ["Polynomial"]) and len(e[2]) == 1 and e[2][0][0] == "coefficients":
                b, t, ty = self.ex(e[2][0][1], env, want)
                if not (isinstance(ty, tuple) and ty[0] in ("list", "poly")):
                    raise Unsupported("struct literal field type")
                return b, t, ("poly", self.elem_name(ty, want))
            raise Unsupported("struct literal")
        if k == "index":
            return self.ex_index(e, env)
        if k == "field":
            b, t, ty = self.ex(e[1], env)
            if e[2] == "coefficients" and isinstance(ty, tuple) and ty[0] == "poly":
                return b, t, ("list", ("elem", ty[1]))
            if e[2] in ("0", "1") and isinstance(ty, tuple) and ty[0] == "tuple" and len(ty[1]) == 2:
                return b, f"{paren(t)}.{int(e[2]) + 1}", ty[1][int(e[2])]
            raise Unsupported(f"field .{e[2]} of {ty}")
        if k == "call":
            return self.ex_call(e, env, want)
        if k == "mcall":
            return self.ex_mcall(e, env, want)
        if k == "match":
            return self.ex_match(e, env, want)
        if k == "ifx":
            # value-level `if` with pure branches
            if e[3] is None:
                raise Unsupported("if without else as a value")
            bc, c, cty = self.ex(e[1], env)
            if cty != "bool":
                raise Unsupported("condition type")
            vals = []
            for blk in (e[2], e[3]):
                if blk[0] or blk[1] is None:
                    raise Unsupported("if-expression with statements in a value position")
                vals.append(self.pure(blk[1], env, want))
            ty = self.unify(vals[0][1], vals[1][1], "if branches")
            return bc, f"(if {c} then {vals[0][0]} else {vals[1][0]})", ty
        if k == "macro":
            raise Unsupported(f"macro {e[1]}! in an expression")
        raise Unsupported(f"expression form {k}")

    def elem_name(self, ty, want=None):
        if ty[0] == "poly":
            return ty[1]
        if ty[1] is None:
            if isinstance(want, tuple) and want[0] == "poly":
                return want[1]
            if isinstance(self.ret_ty, tuple) and self.ret_ty[0] == "poly":
                return self.ret_ty[1]
            raise Unsupported("element type of an empty vector")
        if ty[1][0] != "elem":
            raise Unsupported("polynomial over a non-element type")
        return ty[1][1]

    def ex_path(self, path, env, want):
        if len(path) == 1:
            n = path[0]
            if n in env:
                return [], self.lname(n), env[n]
            if n == "None":
                return [], "none", ("opt", None)
            raise Unsupported(f"unknown name {n}")
        if len(path) == 2 and path[0] in self.tp and path[1] in ("ZERO", "ONE"):
            ty = ("elem", path[0])
            return [], self.op(ty, {"ZERO": "zero", "ONE": "one"}[path[1]]), ty
        if len(path) == 2 and path[0] in ("Self", "Polynomial") and path[1] in self.spec.get("consts", {}):
            lean, ty = self.spec["consts"][path[1]]
            return [], lean, ty
        raise Unsupported(f"path {'::'.join(path)}")

    def ex_bin(self, e, env, want):
        _, op, l, r = e
        if op in ("&&", "||"):
            bl, tl, tyl = self.ex(l, env)
            br, tr, tyr = self.ex(r, env)
            if tyl != "bool" or tyr != "bool":
                raise Unsupported(f"{op} on non-bools")
            if not any(b[2] for b in br):
                return bl + br, f"({tl} {op} {tr})", "bool"
            inner = self.wrap(br, f"some {paren(tr)}")
            if op == "&&":
                term = f"if {tl} then ({inner}) else some false"
            else:
                term = f"if {tl} then some true else ({inner})"
            return bl, self.pbind(bl, term), "bool"
        cmp_ops = ("==", "!=", "<", ">", "<=", ">=")
        bl, tl, tyl = self.ex(l, env, None if op in cmp_ops else want)
        if tyl == "int":
            br, tr, tyr = self.ex(r, env, None if op in cmp_ops else want)
            if tyr != "int":
                bl, tl, tyl = self.ex(l, env, tyr)
        else:
            br, tr, tyr = self.ex(r, env, tyl if tyl in INT_TYS or (isinstance(tyl, tuple) and tyl[0] == "poly") else None)
        b = bl + br
        if tyl in INT_TYS or tyl == "int" or tyr in INT_TYS:
            ty = self.unify(tyl, tyr, f"operands of {op}")
            if ty == "int":
                ty = want if want in INT_TYS else "usize"
            if op in cmp_ops:
                if op == "==":
                    return b, f"({tl} == {tr})", "bool"
                if op == "!=":
                    return b, f"({tl} != {tr})", "bool"
                return b, f"(decide ({tl} {op} {tr}))", "bool"
            if op in ("+", "*"):
                return b, f"({tl} {op} {tr})", ty
            if op == "-":
                if ty in ("isize", "i64"):
                    return b, f"({tl} - {tr})", ty
                return b, self.pbind(b, f"TF.PolyStd.usub? {paren(tl)} {paren(tr)}"), ty
            if op == ">>" and ty in ("usize", "u64", "u32"):
                # a shift amount of the full width or more is a debug-build panic (and masked in release): `none`
                w = 32 if ty == "u32" else 64
                return b, self.pbind(b, f"TF.PolyStd.ushr? {w} {paren(tl)} {paren(tr)}"), ty
            if op == "&" and ty in ("usize", "u64", "u32"):
                return b, f"({tl} &&& {tr})", ty
            raise Unsupported(f"integer operator {op}")
        if op in ("==", "!="):
            if tyl == "bool" and tyr == "bool":
                return b, f"({tl} {op} {tr})", "bool"
            if isinstance(tyl, tuple) and tyl[0] == "poly" and isinstance(tyr, tuple) and tyr[0] == "poly":
                bb, t, ty = self.call_fn("eq", [(tl, tyl), (tr, tyr)], b)
                return bb, (t if op == "==" else f"(!{t})"), "bool"
            t, _ = self.binop("beq", tyl, tyr)
            return b, (f"({t} {paren(tl)} {paren(tr)})" if op == "==" else f"(!({t} {paren(tl)} {paren(tr)}))"), "bool"
        if op in ("+", "-", "*") and isinstance(tyl, tuple) and tyl[0] == "elem":
            t, ty = self.binop({"+": "add", "-": "sub", "*": "mul"}[op], tyl, tyr)
            return b, f"({t} {paren(tl)} {paren(tr)})", ty
        if op == "*" and isinstance(tyl, tuple) and tyl[0] == "poly" and isinstance(tyr, tuple) and tyr[0] == "poly":
            return self.call_fn("mul", [(tl, tyl), (tr, tyr)], b)
        raise Unsupported(f"operator {op} on {tyl} and {tyr}")

    def ex_index(self, e, env):
        b, t, ty = self.ex(e[1], env)
        if not (isinstance(ty, tuple) and ty[0] == "list"):
            raise Unsupported(f"index into {ty}")
        idx = e[2]
        if idx[0] == "range":
            _, lo, hi, incl = idx
            tl = th = None
            if lo is not None:
                b2, tl, lty = self.ex(lo, env, "usize")
                self.unify(lty, "usize", "slice bound")
                b = b + b2
            if hi is not None:
                b2, th, hty = self.ex(hi, env, "usize")
                self.unify(hty, "usize", "slice bound")
                b = b + b2
            if incl and tl is not None and th is not None:
                return b, self.pbind(b, f"TF.PolyStd.sliceIncl? {paren(t)} {paren(tl)} {paren(th)}"), ty
            if not incl and tl is None and th is not None:
                return b, self.pbind(b, f"TF.PolyStd.sliceTo? {paren(t)} {paren(th)}"), ty
            if tl is not None and th is None:
                return b, self.pbind(b, f"TF.PolyStd.sliceFrom? {paren(t)} {paren(tl)}"), ty
            raise Unsupported("slice range form")
        b2, ti, ity = self.ex(idx, env, "usize")
        self.unify(ity, "usize", "index")
        b = b + b2
        return b, self.pbind(b, f"{paren(t)}[{ti}]?"), ty[1]

    def ex_match(self, e, env, want):
        bs, s, sty = self.ex(e[1], env)
        if sty in INT_TYS:
            # integer literal arms, last arm a binding or `_`
            arms = e[2]
            out = None
            ty = None
            for pats, body in reversed(arms):
                if len(pats) != 1:
                    raise Unsupported("or-pattern in an integer match")
                p = pats[0]
                if p[0] in ("pid", "pwild"):
                    if out is not None:
                        raise Unsupported("catch-all arm that is not last")
                    env2 = dict(env)
                    nm = self.bind_pat(p, sty, env2)
                    bb, t, bty = self.ex(body, env2, want)
                    out = self.wrap(bb, self.ret(t)) if any(x[2] for x in bb) else self.wrap_pure(bb, t)
                    partial_arm = any(x[2] for x in bb)
                    if nm != "_":
                        out = f"(let {nm} := {s}; {out})" if not partial_arm else f"let {nm} := {s}\n{out}"
                    ty = bty
                    anyp = partial_arm
                    continue
                if p[0] != "pint" or out is None:
                    raise Unsupported("integer match arm")
                bb, t, bty = self.ex(body, env, want or ty)
                if any(x[2] for x in bb):
                    raise Unsupported("partial operation in a literal match arm")
                ty = self.unify(ty, bty, "match arms")
                t = self.wrap_pure(bb, t)
                out = f"if {s} == {self.lit(p[1], sty)} then {self.ret(t) if anyp else t} else ({out})"
            if anyp:
                return bs, self.pbind(bs, out), ty
            return bs, f"({out})", ty
        raise Unsupported(f"match on {sty}")

    # ------------------------------------------------------------------ calls
    def ex_call(self, e, env, want):
        _, path, args = e
        name = path[-1]
        head = path[0]
        if path in (["Cow", "Owned"], ["Cow", "Borrowed"], ["Some"]) and len(args) == 1:
            b, t, ty = self.ex(args[0], env, want)
            if path == ["Some"]:
                return b, f"(some {paren(t)})", ("opt", ty)
            return b, t, ty
        if path == ["usize", "try_from"] and len(args) == 1:
            b, t, ty = self.ex(args[0], env, "isize")
            if ty != "isize":
                raise Unsupported(f"usize::try_from of {ty}")
            return b, f"(TF.PolyStd.toUsize? {paren(t)})", ("opt", "usize")
        if path == ["Vec", "with_capacity"] and len(args) == 1:
            b, t, ty = self.ex(args[0], env, "usize")
            return b, "[]", ("list", None)
        if len(path) == 2 and head in self.tp and name in ("from", "new") and len(args) == 1:
            b, t, ty = self.ex(args[0], env, "u64")
            if ty not in ("u64", "usize", "u32"):
                raise Unsupported(f"{head}::from of {ty}")
            return b, f"({self.op(('elem', head), 'ofNat')} {paren(t)})", ("elem", head)
        if len(path) == 2 and head in self.tp and name in ("one", "zero") and not args:
            return [], self.op(("elem", head), name), ("elem", head)
        if len(path) == 2 and head in ("Self", "Polynomial") and name in REGISTRY:
            vals = []
            b = []
            info = REGISTRY[name]
            for a, pty in zip(args, info["ptys"]):
                bb, t, ty = self.ex(a, env, ("list", None) if isinstance(pty, tuple) and pty[0] in ("list", "poly") else None)
                b += bb
                vals.append((t, ty))
            if len(args) != len(info["ptys"]):
                raise Unsupported(f"arity of {name}")
            return self.call_fn(name, vals, b, want)
        if len(path) == 1 and name in self.spec.get("callees", {}):
            return self.call_param(name, [self.ex(a, env) for a in args])
        raise Unsupported(f"call of {'::'.join(path)}")

    def call_param(self, name, parts):
        """call of a function that is a PARAMETER of the translated definition (an untranslated callee)"""
        ptys, rty, partial = self.spec["callees"][name]
        if len(parts) != len(ptys):
            raise Unsupported(f"arity of {name}")
        b = sum((p[0] for p in parts), [])
        for p, t in zip(parts, ptys):
            self.unify(p[2], t, f"argument of {name}")
        term = f"{name} " + " ".join(paren(p[1]) for p in parts)
        if partial:
            return b, self.pbind(b, term), rty
        return b, f"({term})", rty

    def call_fn(self, name, vals, b, want=None):
        """call of a function translated earlier; vals = [(term, type)] including the receiver"""
        info = REGISTRY.get(name)
        if info is None:
            if name in self.spec.get("callees", {}):
                return self.call_param(name, [([], t, ty) for t, ty in vals])
            raise Unsupported(f"call of {name} (not translated)")
        if len(vals) != len(info["ptys"]):
            raise Unsupported(f"arity of {name}")
        m = {}

        def match(pt, at):
            if isinstance(pt, tuple) and pt[0] in ("elem", "poly") and not (isinstance(pt[1], tuple)):
                a = at
                if isinstance(a, tuple) and a[0] == "list" and pt[0] == "poly":
                    a = ("poly", a[1][1]) if a[1] is not None else None
                if a is None:
                    return
                if not (isinstance(a, tuple) and a[0] == pt[0]):
                    raise Unsupported(f"argument type of {name}: {at} for {pt}")
                if m.setdefault(pt[1], a[1]) != a[1]:
                    raise Unsupported(f"inconsistent instantiation of {pt[1]} in a call of {name}")
            elif isinstance(pt, tuple) and pt[0] in ("list", "opt") and isinstance(at, tuple) and at[0] in ("list", "poly", "opt"):
                a = ("list", ("elem", at[1])) if at[0] == "poly" else at
                if a[1] is not None:
                    match(pt[1], a[1])
            elif pt in INT_TYS:
                self.unify(pt, at, f"argument of {name}")
            elif pt == "bool" and at == "bool":
                pass
            else:
                raise Unsupported(f"argument type of {name}: {at} for {pt}")

        for (t, at), pt in zip(vals, info["ptys"]):
            match(pt, at)
        # result-only type parameters through the callee's mixed operations
        changed = True
        while changed:
            changed = False
            for o, a, bb, c, pn in info["mixed"]:
                if c not in m and a in m and bb in m:
                    _, rty = self.binop(o, ("elem", m[a]), ("elem", m[bb]))
                    m[c] = rty[1]
                    changed = True
        if want is not None and isinstance(want, tuple) and want[0] == "poly":
            rt = info["rty"]
            if isinstance(rt, tuple) and rt[0] == "poly" and rt[1] not in m:
                m[rt[1]] = want[1]
        if isinstance(self.ret_ty, tuple) and self.ret_ty[0] == "poly":
            rt = info["rty"]
            if isinstance(rt, tuple) and rt[0] == "poly" and rt[1] not in m:
                m[rt[1]] = self.ret_ty[1]
        argv = []
        for tpn, tyvar, kind, rec in info["tparams"]:
            if tpn not in m and tpn in self.tp and len(info["tparams"]) == 1:
                m[tpn] = tpn       # same-named parameter of the caller (a wrong choice does not type-check in Lean)
            if tpn not in m:
                raise Unsupported(f"type parameter {tpn} of {name} not determined at the call")
            mine = self.tp.get(m[tpn])
            if mine is None:
                raise Unsupported(f"type {m[tpn]} in a call of {name}")
            if kind == "field":
                if mine[2] != "field":
                    raise Unsupported(f"{name} needs a field for {tpn}")
                argv.append(mine[3])
            else:
                for opn in rec:
                    argv.append(self.op(("elem", m[tpn]), opn))
        for o, a, bb, c, pn in info["mixed"]:
            t, rty = self.binop(o, ("elem", m[a]), ("elem", m[bb]))
            if rty != ("elem", m[c]):
                raise Unsupported(f"result type of the mixed operation in a call of {name}")
            argv.append(t)
        for cn in info["callee_names"]:
            if cn not in self.spec.get("callees", {}):
                raise Unsupported(f"{name} needs the parameter {cn}")
            argv.append(cn)

        def inst(t):
            if isinstance(t, tuple) and t[0] in ("elem", "poly") and not isinstance(t[1], tuple):
                return (t[0], m[t[1]])
            if isinstance(t, tuple) and t[0] in ("list", "opt"):
                return (t[0], inst(t[1]))
            if isinstance(t, tuple) and t[0] == "tuple":
                return ("tuple", [inst(x) for x in t[1]])
            return t

        term = f"TF.Gen.Poly.{info['lname']} " + " ".join(argv + [paren(t) for t, _ in vals])
        rty = inst(info["rty"])
        if info["partial"]:
            return b, self.pbind(b, term), rty
        return b, f"({term.strip()})", rty

    def ex_mcall(self, e, env, want):
        _, recv, name, args = e
        # `a.zip_longest(b).map(|x| match x { Both.., Left.., Right.. })`
        if name == "map" and recv[0] == "mcall" and recv[2] == "zip_longest" and len(args) == 1:
            return self.zip_longest_map(recv, args[0], env)
        # `x.pop().unwrap()` on a variable: the variable is re-bound
        if name in ("unwrap", "expect") and recv[0] == "mcall" and recv[2] == "pop" and not recv[3]:
            b, t, ty = self.ex(recv[1], env)
            root = place_root(recv[1])
            if not (isinstance(ty, tuple) and ty[0] == "list") or self.lname(root) != t:
                raise Unsupported("pop() on something that is not a vector variable")
            v = self.tmp()
            self.pbind(b, f"TF.PolyStd.pop? {t}", f"({v}, {t})")
            return b, v, ty[1]
        if name == "zip" and len(args) == 1 and recv[0] == "paren" and recv[1] == ("range", ("int", 0, None), None, False):
            b, o, oty = self.ex(args[0], env)
            if not (isinstance(oty, tuple) and oty[0] == "list"):
                raise Unsupported("zip with a non-list")
            return b, f"(TF.PolyStd.enumerate {paren(o)})", ("list", ("tuple", ["u64", oty[1]]))
        b, t, ty = self.ex(recv, env)
        tt = ty[0] if isinstance(ty, tuple) else ty
        if name in ("clone", "to_owned") and not args:
            return b, t, ty
        if tt in ("list", "poly") and name in IDENT_METHODS and not args:
            if tt == "poly" and name in ("into_owned",) and "into_owned" in REGISTRY:
                return self.call_fn("into_owned", [(t, ty)], b, want)
            if tt == "poly" and name not in ("clone", "into_owned"):
                raise Unsupported(f"method {name} on a polynomial")
            return b, t, ty
        if tt == "list":
            ety = ty[1]
            if name == "into" and not args and isinstance(want, tuple) and want[0] in ("list", "poly"):
                return b, t, ty
            if name == "len" and not args:
                return b, f"{paren(t)}.length", "usize"
            if name == "is_empty" and not args:
                return b, f"{paren(t)}.isEmpty", "bool"
            if name == "rev" and not args:
                return b, f"{paren(t)}.reverse", ty
            if name == "last" and not args:
                return b, f"{paren(t)}.getLast?", ("opt", ety)
            if name == "first" and not args:
                return b, f"{paren(t)}.head?", ("opt", ety)
            if name in ("skip", "take") and len(args) == 1:
                b2, n, nty = self.ex(args[0], env, "usize")
                self.unify(nty, "usize", name)
                return b + b2, f"({paren(t)}.{ {'skip': 'drop', 'take': 'take'}[name]} {paren(n)})", ty
            if name == "zip" and len(args) == 1:
                b2, o, oty = self.ex(args[0], env)
                if not (isinstance(oty, tuple) and oty[0] == "list"):
                    raise Unsupported("zip with a non-list")
                return b + b2, f"(List.zip {paren(t)} {paren(o)})", ("list", ("tuple", [ety, oty[1]]))
            if name == "enumerate" and not args:
                return b, f"(TF.PolyStd.enumerate {paren(t)})", ("list", ("tuple", ["usize", ety]))
            if name in ("map", "all", "any", "skip_while", "rposition", "position", "filter") and len(args) == 1:
                f, fty = self.closure(args[0], env, ety)
                if name == "map":
                    return b, f"({paren(t)}.map {f})", ("list", fty)
                if fty != "bool":
                    raise Unsupported(f"closure of {name} must return bool")
                if name in ("all", "any"):
                    return b, f"({paren(t)}.{name} {f})", "bool"
                if name == "skip_while":
                    return b, f"({paren(t)}.dropWhile {f})", ty
                if name == "filter":
                    return b, f"({paren(t)}.filter {f})", ty
                if name == "rposition":
                    return b, f"(TF.PolyStd.rposition {f} {paren(t)})", ("opt", "usize")
            raise Unsupported(f"method {name} on a list")
        if tt == "opt":
            if name == "unwrap" and not args or name == "expect" and len(args) == 1 and args[0][0] == "str":
                return b, self.pbind(b, t), ty[1]
            if name == "is_some_and" and len(args) == 1:
                f, fty = self.closure(args[0], env, ty[1])
                return b, f"(Option.any {f} {paren(t)})", "bool"
            if name == "unwrap_or" and len(args) == 1:
                b2, d, dty = self.ex(args[0], env, ty[1])
                self.unify(dty, ty[1], "unwrap_or")
                return b + b2, f"(Option.getD {paren(t)} {paren(d)})", ty[1]
            if name in ("is_some", "is_none") and not args:
                return b, f"{paren(t)}.{ {'is_some': 'isSome', 'is_none': 'isNone'}[name]}", "bool"
            raise Unsupported(f"method {name} on an Option")
        if tt == "elem":
            if name == "is_zero" and not args:
                return b, f"({self.op(ty, 'isZero')} {paren(t)})", "bool"
            if name == "is_one" and not args:
                return b, f"({self.op(ty, 'beq')} {paren(t)} {self.op(ty, 'one')})", "bool"
            if name == "inverse" and not args:
                if self.tp[ty[1]][2] != "field":
                    raise Unsupported("inverse of a scalar type")
                return b, self.pbind(b, f"TF.PolyStd.inverse? {self.tp[ty[1]][3]} {paren(t)}"), ty
            raise Unsupported(f"method {name} on an element")
        if ty in INT_TYS:
            if name in ("min", "max") and len(args) == 1:
                b2, o, oty = self.ex(args[0], env, ty)
                self.unify(oty, ty, name)
                return b + b2, f"({ {'min': 'Nat.min', 'max': 'Nat.max'}[name] if ty in ('usize', 'u64', 'u32') else name} {paren(t)} {paren(o)})", ty
            if name == "saturating_sub" and len(args) == 1 and ty in ("usize", "u64"):
                b2, o, oty = self.ex(args[0], env, ty)
                self.unify(oty, ty, name)
                return b + b2, f"({paren(t)} - {paren(o)})", ty
            if name == "saturating_add" and len(args) == 1 and ty in ("usize", "u64"):
                b2, o, oty = self.ex(args[0], env, ty)
                self.unify(oty, ty, name)
                return b + b2, f"(Nat.min ({t} + {o}) 18446744073709551615)", ty
            if name == "next_power_of_two" and not args and ty in ("usize", "u64"):
                return b, f"(TF.PolyStd.nextPowerOfTwo {paren(t)})", ty
            if name == "checked_ilog2" and not args and ty in ("usize", "u64", "u32"):
                # `None` exactly for 0, else the position of the highest set bit
                return b, f"(if {paren(t)} == 0 then none else some (Nat.log2 {paren(t)}))", ("opt", "u32")
            raise Unsupported(f"method {name} on an integer")
        if tt == "poly":
            vals = [(t, ty)]
            for a in args:
                bb, at, aty = self.ex(a, env)
                b += bb
                vals.append((at, aty))
            return self.call_fn(name, vals, b, want)
        raise Unsupported(f"method {name} on {ty}")

    def zip_longest_map(self, recv, clo, env):
        b1, a, aty = self.ex(recv[1], env)
        if len(recv[3]) != 1:
            raise Unsupported("zip_longest arity")
        b2, o, oty = self.ex(recv[3][0], env)
        if not (isinstance(aty, tuple) and aty[0] == "list" and isinstance(oty, tuple) and oty[0] == "list"):
            raise Unsupported("zip_longest on non-lists")
        if not (clo[0] == "closure" and len(clo[1]) == 1 and clo[1][0][0] == "pid" and clo[2][0] == "match"
                and clo[2][1] == ("path", [clo[1][0][1]])):
            raise Unsupported("closure of zip_longest().map must be |a| match a {..}")
        fns, rty = {}, None
        for pats, body in clo[2][2]:
            for p in pats:
                if not (p[0] == "pctor" and len(p[1]) == 2 and p[1][0] == "EitherOrBoth" and p[1][1] in ("Both", "Left", "Right")):
                    raise Unsupported("pattern of the zip_longest match")
                kind = p[1][1]
                tys = {"Both": [aty[1], oty[1]], "Left": [aty[1]], "Right": [oty[1]]}[kind]
                if len(p[2]) != len(tys) or kind in fns:
                    raise Unsupported("pattern of the zip_longest match")
                env2 = dict(env)
                names = [self.bind_pat(q, t, env2) for q, t in zip(p[2], tys)]
                t, ty = self.pure(body, env2)
                rty = self.unify(rty, ty, "zip_longest arms")
                fns[kind] = f"(fun {' '.join(names)} => {t})"
        if set(fns) != {"Both", "Left", "Right"}:
            raise Unsupported("zip_longest match must cover Both, Left, Right")
        return b1 + b2, f"(TF.PolyStd.zipLongestMap {fns['Both']} {fns['Left']} {fns['Right']} {paren(a)} {paren(o)})", ("list", rty)

    # ------------------------------------------------------------------ statements (continuation passing)
    def block(self, blk, env, k):
        """term of a block; `k(env, tail)` gives the term after it (`tail` = (binds, term, type) of the tail expression or None)"""
        stmts, tail = blk
        return self.seq(stmts, 0, tail, dict(env), k)

    def seq(self, stmts, i, tail, env, k):
        if i == len(stmts):
            if tail is not None and tail[0] == "ifx" and tail[3] is None:
                # `if c { .. }` in tail position has type `()`: it is a statement
                return self.seq(stmts + [("if", tail[1], tail[2], None)], i, None, env, k)
            if tail is not None and tail[0] == "ifx" and self.tail_if_needs_cps(tail):
                return self.tail_if(tail, env, k)
            if tail is not None and tail[0] == "macro" and tail[1] == "panic":
                if not self.partial:
                    raise NeedPartial()
                return "none"
            if tail is None:
                return k(env, None)
            want = self.ret_ty if getattr(k, "is_fn_end", False) else None
            b, t, ty = self.ex(tail, env, want)
            return self.wrap(b, k(env, ([], t, ty)))
        st = stmts[i]
        rest = lambda env2: self.seq(stmts, i + 1, tail, env2, k)
        kind = st[0]
        if kind == "let":
            _, pat, ty, e = st
            want = self.conv_type(ty) if ty is not None else None
            # `let mut x = std::mem::take(&mut self.coefficients).into_owned();`
            tk = e
            while tk[0] == "mcall" and tk[2] in IDENT_METHODS and not tk[3]:
                tk = tk[1]
            if tk[0] == "call" and tk[1][-2:] == ["mem", "take"] and len(tk[2]) == 1:
                b, t, vty = self.ex(tk[2][0], env)
                root = place_root(tk[2][0])
                if self.lname(root) != t or not (isinstance(vty, tuple) and vty[0] == "list"):
                    raise Unsupported("mem::take of something that is not a vector variable")
                env2 = dict(env)
                lp = self.bind_pat(pat, vty, env2)
                return self.wrap(b, f"let {lp} := {t}\nlet {t} : {self.lean_ty(vty)} := []\n" + rest(env2))
            b, t, vty = self.ex(e, env, want)
            if want is not None:
                vty = self.unify(vty, want, "let type")
            if pat[0] == "pid" and pat[1] in self.spec.get("hints", {}):
                vty = self.unify(vty, self.spec["hints"][pat[1]], "type hint of the table")
            env2 = dict(env)
            lp = self.bind_pat(pat, vty, env2)
            if t == "[]" and isinstance(vty, tuple) and vty[0] == "list" and vty[1] is not None:
                t = f"([] : {self.lean_ty(vty)})"
            return self.wrap(b, f"let {lp} := {t}\n" + rest(env2))
        if kind == "letelse":
            _, pat, e, el = st
            b, t, vty = self.ex(e, env)
            if not (pat[0] == "pctor" and pat[1] in (["Some"], ["Ok"]) and len(pat[2]) == 1 and isinstance(vty, tuple) and vty[0] == "opt"):
                raise Unsupported("let-else pattern")
            env2 = dict(env)
            lp = self.bind_pat(pat[2][0], vty[1], env2)
            if not has_escape(el, ("return",)) or el[1] is not None:
                raise Unsupported("let-else whose else block does not return")
            elt = self.block(el, env, lambda e_, t_: self.bad("else block of let-else falls through"))
            return self.wrap(b, f"match {t} with\n| none => ({elt})\n| some {lp} =>\n" + rest(env2))
        if kind == "return":
            if self.loop_k is not None:
                raise Unsupported("return inside a loop")
            if st[1] is None:
                return self.fn_k(env, None)
            b, t, ty = self.ex(st[1], env, self.ret_ty)
            return self.wrap(b, self.fn_k(env, ([], t, ty)))
        if kind == "continue":
            if self.loop_k is None:
                raise Unsupported("continue outside a loop")
            return self.loop_k(env)
        if kind == "assign":
            return self.assign(st, env, rest)
        if kind == "expr":
            return self.expr_stmt(st[1], env, rest)
        if kind == "if":
            return self.if_stmt(st, env, rest)
        if kind == "while":
            return self.while_loop(st, env, rest)
        if kind == "for":
            return self.for_loop(st, env, rest)
        raise Unsupported(f"statement {kind}")

    def bad(self, msg):
        raise Unsupported(msg)

    def tail_if_needs_cps(self, e):
        return True

    def tail_if(self, e, env, k):
        _, c, th, el = e
        b, ct, cty = self.ex(c, env)
        if cty != "bool":
            raise Unsupported("condition type")
        if el is None:
            raise Unsupported("tail `if` without else")
        tt = self.block(th, env, k)
        et = self.block(el, env, k)
        return self.wrap(b, f"if {ct} then\n{tt}\nelse\n{et}")

    def if_stmt(self, st, env, rest):
        _, c, th, el = st
        b, ct, cty = self.ex(c, env)
        if cty != "bool":
            raise Unsupported("condition type")
        el = el or ([], None)
        if th[1] is not None or el[1] is not None:
            if not (th[1] is not None and th[1][0] == "macro" and th[1][1] == "panic"):
                raise Unsupported("if statement with a value")
        esc = has_escape(th, ("return", "continue")) or has_escape(el, ("return", "continue")) or \
            (th[1] is not None)
        if esc:
            tt = self.block(th, env, lambda e_, t_: rest(self.merge_env(env, e_)))
            et = self.block(el, env, lambda e_, t_: rest(self.merge_env(env, e_)))
            return self.wrap(b, f"if {ct} then\n{tt}\nelse\n{et}")
        vs = [v for v in assigned((th[0] + el[0], None)) if v in env]
        if not vs:
            raise Unsupported("if statement without effect")
        tup = lambda e_, t_: self.ret("(" + ", ".join(self.lname(v) for v in vs) + ")" if len(vs) > 1 else self.lname(vs[0]))
        saved = self.partial
        pat = "(" + ", ".join(self.lname(v) for v in vs) + ")" if len(vs) > 1 else self.lname(vs[0])
        # try the branches as pure terms first
        try:
            self.partial = False
            tt = self.block(th, env, tup)
            et = self.block(el, env, tup)
            self.partial = saved
            return self.wrap(b, f"let {pat} := (if {ct} then\n{tt}\nelse\n{et})\n" + rest(env))
        except NeedPartial:
            self.partial = saved
            if not saved:
                raise
            tt = self.block(th, env, tup)
            et = self.block(el, env, tup)
            return self.wrap(b, f"(if {ct} then\n{tt}\nelse\n{et}).bind fun {pat} =>\n" + rest(env))

    def merge_env(self, env, inner):
        """after a nested block: outer variables keep their (possibly refined) types, inner `let`s go out of scope"""
        return {k: inner.get(k, v) for k, v in env.items()}

    def assign(self, st, env, rest):
        _, place, op, e = st
        pl = place
        while pl[0] in ("paren",):
            pl = pl[1]
        if pl[0] == "un" and pl[1] == "*":
            pl = pl[2]
        if pl[0] == "field" and pl[2] == "coefficients":
            pl = pl[1]
        if pl[0] == "path" and len(pl[1]) == 1:
            n = pl[1][0]
            if n not in env:
                raise Unsupported(f"assignment to unknown {n}")
            ty = env[n]
            if op is None:
                b, t, ety = self.ex(e, env, ty)
            else:
                b, t, ety = self.ex(("bin", op, ("path", [n]), e), env, ty)
            env2 = dict(env)
            env2[n] = self.unify(ty, ety, f"assignment to {n}")
            return self.wrap(b, f"let {self.lname(n)} := {t}\n" + rest(env2))
        if pl[0] == "index":
            base = pl[1]
            if base[0] == "field" and base[2] == "coefficients":
                base = base[1]
            if not (base[0] == "path" and len(base[1]) == 1 and base[1][0] in env):
                raise Unsupported("indexed assignment to something that is not a variable")
            n = base[1][0]
            ty = env[n]
            lty = ("list", ("elem", ty[1])) if ty[0] == "poly" else ty
            if lty[0] != "list":
                raise Unsupported("indexed assignment into a non-list")
            b, ti, ity = self.ex(pl[2], env, "usize")
            self.unify(ity, "usize", "index")
            ln = self.lname(n)
            if op is None:
                b2, t, ety = self.ex(e, env, lty[1])
                b = b + b2
                self.unify(lty[1], ety, "indexed assignment")
                self.pbind(b, f"TF.PolyStd.setAt? {ln} {paren(ti)} {paren(t)}", ln)
                return self.wrap(b, rest(env))
            iv = self.tmp()
            b.append((iv, ti, False))
            old = self.pbind(b, f"{ln}[{iv}]?")
            b2, t, ety = self.ex(e, env, lty[1])
            b = b + b2
            ot, rty = self.binop({"+": "add", "-": "sub", "*": "mul"}[op], lty[1], ety)
            if rty != lty[1]:
                raise Unsupported("compound assignment changes the type")
            return self.wrap(b, f"let {ln} := {ln}.set {iv} ({ot} {old} {paren(t)})\n" + rest(env))
        raise Unsupported("assignment target")

    def expr_stmt(self, e, env, rest):
        if e[0] == "macro":
            if e[1] in ("debug_assert", "assert") and len(e[2]) >= 1:
                b, t, ty = self.ex(e[2][0], env)
                if ty != "bool":
                    raise Unsupported("assert of a non-bool")
                self.pbind(b, f"TF.PolyStd.assert? {paren(t)}", "_")
                return self.wrap(b, rest(env))
            if e[1] == "panic":
                if not self.partial:
                    raise NeedPartial()
                return "none"
            raise Unsupported(f"macro {e[1]}!")
        if e[0] == "mcall":
            _, recv, name, args = e
            r = recv
            while (r[0] == "mcall" and r[2] in ("to_mut",) and not r[3]) or (r[0] == "field" and r[2] == "coefficients"):
                r = r[1]
            if r[0] == "path" and len(r[1]) == 1 and r[1][0] in env:
                n = r[1][0]
                ln = self.lname(n)
                ty = env[n]
                lty = ("list", ("elem", ty[1])) if ty[0] == "poly" else ty
                is_list = isinstance(lty, tuple) and lty[0] == "list"
                direct_poly = ty[0] == "poly" and r is recv
                if direct_poly and name in REGISTRY and REGISTRY[name]["self_mut"]:
                    vals = [(ln, ty)]
                    b = []
                    for a in args:
                        bb, at, aty = self.ex(a, env)
                        b += bb
                        vals.append((at, aty))
                    b, t, rty = self.call_fn(name, vals, b)
                    return self.wrap(b, f"let {ln} := {t}\n" + rest(env))
                if is_list and not direct_poly:
                    if name == "push" and len(args) == 1:
                        b, t, ety = self.ex(args[0], env, lty[1])
                        env2 = dict(env)
                        env2[n] = self.unify(lty, ("list", ety), "push") if ty[0] != "poly" else ty
                        return self.wrap(b, f"let {ln} := {ln} ++ [{t}]\n" + rest(env2))
                    if name == "pop" and not args:
                        return f"let {ln} := {ln}.dropLast\n" + rest(env)
                    if name == "reverse" and not args:
                        return f"let {ln} := {ln}.reverse\n" + rest(env)
                    if name == "splice" and len(args) == 2 and args[0] == ("range", ("int", 0, None), ("int", 0, None), False):
                        b, t, ety = self.ex(args[1], env)
                        self.unify(lty, ety, "splice")
                        return self.wrap(b, f"let {ln} := {t} ++ {ln}\n" + rest(env))
                    if name == "extend" and len(args) == 1:
                        b, t, ety = self.ex(args[0], env)
                        self.unify(lty, ety, "extend")
                        return self.wrap(b, f"let {ln} := {ln} ++ {t}\n" + rest(env))
                    if name == "truncate" and len(args) == 1:
                        b, t, ety = self.ex(args[0], env, "usize")
                        self.unify(ety, "usize", "truncate")
                        return self.wrap(b, f"let {ln} := {ln}.take {paren(t)}\n" + rest(env))
                    if name == "resize" and len(args) == 2:
                        b, t, ety = self.ex(args[0], env, "usize")
                        self.unify(ety, "usize", "resize")
                        b2, z, zty = self.ex(args[1], env, lty[1])
                        self.unify(zty, lty[1], "resize")
                        return self.wrap(b + b2, f"let {ln} := TF.PolyStd.resize {ln} {paren(t)} {paren(z)}\n" + rest(env))
            raise Unsupported(f"method call statement .{name}(..)")
        if e[0] == "call" and len(e[1]) == 1 and e[1][0] in MUT_CALLS and len(e[2]) == 1:
            # `ntt(&mut v);` with `ntt` a parameter: the vector is re-bound
            r = e[2][0]
            while r[0] == "ref":
                r = r[1]
            if not (r[0] == "path" and len(r[1]) == 1 and r[1][0] in env):
                raise Unsupported("`&mut` argument that is not a variable")
            ln = self.lname(r[1][0])
            vt = env[r[1][0]]
            en = vt[1][1] if isinstance(vt, tuple) and vt[0] == "list" and vt[1] is not None else None
            b, t, rty = self.call_param(self.spec.get("callee_by_type", {}).get(e[1][0], {}).get(en, e[1][0]), [([], ln, vt)])
            return self.wrap(b, f"let {ln} := {t}\n" + rest(env))
        raise Unsupported("expression statement")

    # ------------------------------------------------------------------ loops
    def loop_frame(self, nodes, body, env):
        vs = [v for v in assigned(body) if v in env]
        used = set()
        for n in nodes:
            names_in(n, used)
        names_in(list(body[0]), used)
        names_in(body[1], used)
        fixed = [v for v in env if v in used and v not in vs]
        return vs, fixed

    def tuple_of(self, vs):
        return "(" + ", ".join(self.lname(v) for v in vs) + ")" if len(vs) != 1 else self.lname(vs[0])

    def state_ty(self, vs, env):
        return " × ".join(paren(self.lean_ty(env[v])) for v in vs) if len(vs) != 1 else self.lean_ty(env[vs[0]])

    def while_loop(self, st, env, rest):
        if not self.partial:
            raise NeedPartial()
        _, cond, body = st
        if has_escape(body, ("return",)):
            raise Unsupported("return inside a loop")
        vs, fixed = self.loop_frame([cond], body, env)
        if not vs:
            raise Unsupported("while loop without state")
        fuels = self.spec.get("fuel", [])
        if self.nwhile >= len(fuels):
            raise Unsupported("while loop without a fuel expression in the table")
        fuel = fuels[self.nwhile]
        self.nwhile += 1
        self.nloops += 1
        name = f"{self.spec['lname']}_loop{self.nloops if self.nloops > 1 else ''}"
        fx = "".join(f" ({self.lname(v)} : {self.lean_ty(env[v])})" for v in fixed)
        call = lambda fuel_t: f"{name} {self.sig_args}" + "".join(" " + self.lname(v) for v in fixed) + f" {fuel_t}" + \
            "".join(" " + self.lname(v) for v in vs)
        saved_k = self.loop_k
        self.loop_k = lambda env_: call("fuel")
        b, c, cty = self.ex(cond, env)
        if cty != "bool":
            raise Unsupported("condition type")
        bt = self.block(body, env, lambda env_, t_: call("fuel"))
        self.loop_k = saved_k
        text = f"/-- the `while` loop of `{self.spec['rust']}` (`none`: panic, or more than `fuel` evaluations of the loop head) -/\n" \
               f"def {name} {self.sig_decl}{fx} : (fuel : Nat)" + "".join(f" → {paren(self.lean_ty(env[v]))}" for v in vs) + \
               f" → Option ({self.state_ty(vs, env)})\n" \
               f"  | 0" + ", _" * len(vs) + " => none\n" \
               f"  | fuel+1" + "".join(", " + self.lname(v) for v in vs) + " =>\n" + \
               indent(self.wrap(b, f"if {c} then\n{bt}\nelse some {self.tuple_of(vs)}")) + "\n"
        self.aux.append(text)
        fuel_t = fuel
        return f"({call('(' + fuel_t + ')')}).bind fun {self.tuple_of(vs)} =>\n" + rest(env)

    def for_loop(self, st, env, rest):
        _, pat, it, body = st
        if has_escape(body, ("return",)):
            raise Unsupported("return inside a loop")
        # ---- `for x in &mut v { *x = .. }` / `for (l, &r) in v.iter_mut().zip(w.iter()) { *l += r; }`: elementwise update
        mt = it
        zipped = None
        if mt[0] == "mcall" and mt[2] == "zip" and len(mt[3]) == 1 and mt[1][0] == "mcall" and mt[1][2] == "iter_mut":
            zipped = mt[3][0]
            mt = mt[1]
        is_mut = (mt[0] == "ref" and it is mt and mt[1][0] == "path") or (mt[0] == "mcall" and mt[2] == "iter_mut" and not mt[3])
        if is_mut:
            return self.for_mut(pat, mt[1], zipped, body, env, rest)
        if "iter_mut" in repr(it):
            raise Unsupported("iter_mut in an unsupported position")
        if it[0] == "range":
            _, lo, hi, incl = it
            if lo is None or hi is None:
                raise Unsupported("open range in a for loop")
            b2, th, hty = self.ex(hi, env, "usize")
            # the bounds decide the element type; unsigned machine integers only (all are `Nat` in the model)
            rty = hty if hty in ("u32", "u64") else "usize"
            b1, tl, lty = self.ex(lo, env, rty)
            self.unify(self.unify(lty, hty, "range"), rty, "range")
            b = b1 + b2
            lst = f"(List.range' {paren(tl)} ({th} + 1 - {tl}))" if incl else f"(List.range' {paren(tl)} ({th} - {tl}))"
            ety = rty
        else:
            b, lst, lty = self.ex(it, env)
            if not (isinstance(lty, tuple) and lty[0] == "list"):
                raise Unsupported(f"for loop over {lty}")
            ety = lty[1]
        vs, fixed = self.loop_frame([], body, env)
        if not vs:
            raise Unsupported("for loop without state")
        for v in pat_names(pat):
            if v in vs:
                raise Unsupported("loop pattern shadows a state variable")
        fixed = [v for v in fixed if v not in pat_names(pat)]
        self.nloops += 1
        name = f"{self.spec['lname']}_for{self.nloops if self.nloops > 1 else ''}"
        fx = "".join(f" ({self.lname(v)} : {self.lean_ty(env[v])})" for v in fixed)
        call = lambda l: f"{name} {self.sig_args}" + "".join(" " + self.lname(v) for v in fixed) + f" {l}" + \
            "".join(" " + self.lname(v) for v in vs)
        env2 = dict(env)
        lp = self.bind_pat(pat, ety, env2)
        saved = (self.partial, self.loop_k, len(self.aux), self.nloops, self.n, self.nwhile)
        text = None
        for mode in ((False, True) if True else ()):
            self.partial = mode
            self.loop_k = lambda env_: call("rest_")
            try:
                bt = self.block(body, env2, lambda env_, t_: call("rest_"))
            except NeedPartial:
                if mode:
                    raise
                del self.aux[saved[2]:]
                self.nloops, self.n, self.nwhile = saved[3], saved[4], saved[5]
                continue
            sty = self.state_ty(vs, env)
            text = f"/-- the `for` loop of `{self.spec['rust']}` over the list iterated -/\n" \
                   f"def {name} {self.sig_decl}{fx} : List {paren(self.lean_ty(ety))}" + \
                   "".join(f" → {paren(self.lean_ty(env[v]))}" for v in vs) + \
                   f" → {'Option (' + sty + ')' if mode else sty}\n" \
                   f"  | []" + "".join(", " + self.lname(v) for v in vs) + f" => {self.ret(self.tuple_of(vs))}\n" \
                   f"  | {lp} :: rest_" + "".join(", " + self.lname(v) for v in vs) + " =>\n" + indent(bt) + "\n"
            loop_partial = mode
            break
        self.partial, self.loop_k = saved[0], saved[1]
        self.aux.append(text)
        if loop_partial:
            if not self.partial:
                raise NeedPartial()
            return self.wrap(b, f"({call(lst)}).bind fun {self.tuple_of(vs)} =>\n" + rest(env))
        return self.wrap(b, f"let {self.tuple_of(vs)} := {call(lst)}\n" + rest(env))

    def for_mut(self, pat, vec, zipped, body, env, rest):
        while vec[0] == "ref":
            vec = vec[1]
        if not (vec[0] == "path" and len(vec[1]) == 1 and vec[1][0] in env):
            raise Unsupported("iter_mut over something that is not a variable")
        n = vec[1][0]
        ty = env[n]
        if not (isinstance(ty, tuple) and ty[0] == "list"):
            raise Unsupported("iter_mut over a non-list")
        stmts, tail = body
        if tail is not None or len(stmts) != 1 or stmts[0][0] != "assign":
            raise Unsupported("body of an iter_mut loop must be a single assignment through the reference")
        _, place, op, e = stmts[0]
        env2 = dict(env)
        if zipped is None:
            if pat[0] != "pid":
                raise Unsupported("pattern of an iter_mut loop")
            x = pat[1]
            env2[x] = ty[1]
            names = self.lname(x)
        else:
            bz, zt, zty = self.ex(zipped, env)
            if bz or not (isinstance(zty, tuple) and zty[0] == "list"):
                raise Unsupported("zip partner of an iter_mut loop")
            if not (pat[0] == "ptuple" and len(pat[1]) == 2 and pat[1][0][0] == "pid"):
                raise Unsupported("pattern of an iter_mut().zip() loop")
            x = pat[1][0][1]
            env2[x] = ty[1]
            names = self.lname(x) + " " + self.bind_pat(pat[1][1], zty[1], env2)
        if not (place == ("un", "*", ("path", [x]))):
            raise Unsupported("body of an iter_mut loop must assign through the reference")
        if n in names_in(e):
            raise Unsupported("iter_mut loop body reads the vector")
        rhs = e if op is None else ("bin", op, ("path", [x]), e)
        t, ety = self.pure(rhs, env2, ty[1])
        if ety != ty[1]:
            raise Unsupported("iter_mut loop changes the element type")
        ln = self.lname(n)
        if zipped is None:
            return f"let {ln} := {ln}.map (fun {names} => {t})\n" + rest(env)
        return f"let {ln} := TF.PolyStd.zipMutWith (fun {names} => {t}) {ln} {paren(zt)}\n" + rest(env)


# --------------------------------------------------------------------------------------------------------
# functions
# --------------------------------------------------------------------------------------------------------
def split_top(s):
    parts, depth, cur = [], 0, ""
    for ch in s:
        if ch in "(<[":
            depth += 1
        elif ch in ")>]":
            depth -= 1
        if ch == "," and depth == 0:
            parts.append(cur)
            cur = ""
        else:
            cur += ch
    if cur.strip():
        parts.append(cur)
    return [p.strip() for p in parts if p.strip()]


def translate_fn(spec, src):
    """returns (text of the definitions, registry info)"""
    params_text, ret_text, body = find_fn(src, spec["rust"], spec.get("after"))
    for a, bsub in spec.get("subst", {}).items():
        params_text, ret_text, body = (x.replace(a, bsub) for x in (params_text, ret_text, body))
    ret_text = re.split(r"\bwhere\b", ret_text)[0].strip()
    lt = lambda s: re.sub(r"'[A-Za-z_]\w*\s*,?", " ", s)
    em = Em(spec)
    env, params, self_mut = {}, [], False
    for p in split_top(lt(params_text)):
        if re.fullmatch(r"&\s*mut\s+self", p):
            self_mut = True
            env["self"] = em.self_ty
            params.append("self")
        elif re.fullmatch(r"(&\s*|mut\s+)?self", p):
            env["self"] = em.self_ty
            params.append("self")
        else:
            m = re.fullmatch(r"(?:mut\s+)?([A-Za-z_]\w*)\s*:\s*(.*)", p, re.S)
            if not m:
                raise Unsupported(f"parameter {p!r}")
            ty = em.conv_type(PParser(tokenize(m.group(2))).parse_type())
            env[m.group(1)] = ty
            params.append(m.group(1))
    if ret_text:
        rty = em.conv_type(PParser(tokenize(lt(ret_text))).parse_type())
        if self_mut:
            raise Unsupported("`&mut self` function with a result")
    else:
        rty = em.self_ty if self_mut else "unit"
    if rty == "unit":
        raise Unsupported("function without a result")
    em.ret_ty = rty
    blk = PParser(tokenize(lt("{" + body + "}"))).parse_block()
    # signature pieces shared with the auxiliary loop definitions
    decl, args = [], []
    for tpn, tyvar, kind, rec in spec.get("tparams", []):
        if kind == "field":
            decl.append(f"({rec} : TF.FieldOps {tyvar})")
            args.append(rec)
        else:
            sig = {"one": "{t}", "zero": "{t}", "mul": "{t} → {t} → {t}", "add": "{t} → {t} → {t}"}
            for opn, pn in rec.items():
                decl.append(f"({pn} : {sig[opn].format(t=tyvar)})")
                args.append(pn)
    for o, a, b, c, pn in spec.get("mixed", []):
        decl.append(f"({pn} : {em.tp[a][1]} → {em.tp[b][1]} → {em.tp[c][1]})")
        args.append(pn)
    for cn, (ptys, crty, cpartial) in spec.get("callees", {}).items():
        r = em.lean_ty(crty)
        decl.append(f"({cn} : " + " → ".join([paren(em.lean_ty(t)) for t in ptys] + [f"Option {paren(r)}" if cpartial else r]) + ")")
        args.append(cn)
    em.sig_decl = " ".join(decl)
    em.sig_args = " ".join(args)

    def fn_k(env_, tail):
        if self_mut:
            if tail is not None:
                raise Unsupported("`&mut self` function with a value")
            return em.ret(em.lname("self"))
        if tail is None:
            raise Unsupported("function body without a value")
        b, t, ty = tail
        em.unify(ty, rty, "result")
        return em.wrap(b, em.ret(t))
    fn_k.is_fn_end = True
    em.fn_k = fn_k
    text = None
    for mode in (False, True):
        em.partial, em.n, em.aux, em.nloops, em.nwhile, em.loop_k = mode, 0, [], 0, 0, None
        try:
            bt = em.block(blk, env, fn_k)
        except NeedPartial:
            if mode:
                raise Unsupported("internal: partial step in partial mode")
            continue
        break
    ps = "".join(f" ({em.lname(p)} : {em.lean_ty(env[p])})" for p in params)
    r = em.lean_ty(rty)
    doc = f"/-- `{spec['rust']}` in {spec['rel']}" + (" (`none`: panic)" if mode else "") + " -/\n"
    text = "".join(t + "\n" for t in em.aux) + doc + \
        f"def {spec['lname']} {em.sig_decl}{ps} : {'Option ' + paren(r) if mode else r} :=\n{bt}\n"
    info = {"lname": spec["lname"], "ptys": [env[p] for p in params], "rty": rty, "tparams": spec.get("tparams", []),
            "mixed": spec.get("mixed", []), "callee_names": list(spec.get("callees", {})), "partial": mode,
            "self_mut": self_mut}
    return text, info


# --------------------------------------------------------------------------------------------------------
# table of functions (in dependency order)
# --------------------------------------------------------------------------------------------------------
REL = "twenty-first/src/math/polynomial.rs"
FF = ("FF", "α", "field", "F")
FF_PLAIN = ("FF", "α", "ops", {})
OUT3 = "<FF as Mul<FF2>>::Output"
P_FF, P_FF2, P_FF3 = ("poly", "FF"), ("poly", "FF2"), ("poly", "FF3")
THREE = dict(tparams=[FF, ("FF2", "β", "field", "F2"), ("FF3", "γ", "field", "F3")], mixed=[("mul", "FF", "FF2", "FF3", "mul")],
             subst={OUT3: "FF3"})
OUTPUT = {"Self::Output": "Polynomial<FF>"}


def S(lname, rust, after=None, **kw):
    d = dict(lname=lname, rust=rust, after=after, rel=REL, tparams=[FF])
    d.update(kw)
    return d


POLY_FUNCTIONS = [
    # ---- constructors and storage observers (C17)
    S("new", "new", r"impl<FF>\s+Polynomial<'static, FF>", tparams=[FF_PLAIN]),
    S("zero", "zero", r"Zero for Polynomial<'static, FF>", tparams=[FF_PLAIN]),
    S("one", "one", r"One for Polynomial<'static, FF>"),
    S("from_constant", "from_constant", tparams=[FF_PLAIN]),
    S("into_owned", "into_owned", tparams=[FF_PLAIN]),
    S("degree", "degree", fuel=["self_.length + 1"]),
    S("coefficients", "coefficients"),
    S("normalize", "normalize", fuel=["self_.length + 1"]),
    S("into_coefficients", "into_coefficients"),
    S("leading_coefficient", "leading_coefficient"),
    S("eq", "eq", r"PartialEq<Polynomial<'_, FF>> for Polynomial<'_, FF>"),
    S("is_zero", "is_zero", r"Zero for Polynomial<'static, FF>"),
    S("is_one", "is_one", r"One for Polynomial<'static, FF>"),
    S("is_x", "is_x"),
    # ---- ring operations (C07)
    S("scalar_mul", "scalar_mul", tparams=[FF, ("S", "σ", "ops", {}), ("FF2", "γ", "ops", {})], mixed=[("mul", "FF", "S", "FF2", "mul")]),
    S("scalar_mul_mut", "scalar_mul_mut", tparams=[FF, ("S", "σ", "ops", {})], mixed=[("mul", "FF", "S", "FF", "mul")]),
    S("scale", "scale", hints={"return_coefficients": ("list", ("elem", "XF"))}, tparams=[FF, ("S", "σ", "ops", {"one": "oneS", "mul": "mulS"}), ("XF", "γ", "ops", {})],
      mixed=[("mul", "FF", "S", "XF", "mul")]),
    S("shift_coefficients", "shift_coefficients"),
    S("add", "add", r"impl<FF> Add<Polynomial<'_, FF>> for", subst=OUTPUT),
    S("sub", "sub", r"impl<FF> Sub<Polynomial<'_, FF>> for", subst=OUTPUT),
    S("neg", "neg", r"impl<FF> Neg for Polynomial", subst=OUTPUT),
    S("add_assign", "add_assign", r"AddAssign<Polynomial<'_, FF>> for Polynomial"),
    S("naive_multiply", "naive_multiply", **THREE),
    S("mul", "mul", r"impl<FF, FF2> Mul<Polynomial<'_, FF2>> for Polynomial<'_, FF>", **THREE),
    S("slow_square", "slow_square"),
    S("pow", "pow"),
    # ---- evaluation, truncation, division (C09 / C17)
    S("evaluate", "evaluate", tparams=[FF, ("Ind", "ι", "ops", {}), ("Eval", "ε", "ops", {"zero": "zeroE"})],
      mixed=[("mul", "Eval", "Ind", "Eval", "mulX"), ("add", "Eval", "FF", "Eval", "addC")]),
    S("formal_derivative", "formal_derivative"),
    S("reverse", "reverse"),
    S("truncate", "truncate"),
    S("mod_x_to_the_n", "mod_x_to_the_n"),
    S("naive_divide", "naive_divide", fuel=["remainder.length + 1"], hints={"rev_quotient": ("list", ("elem", "FF"))}),
    S("divide", "divide"),
    S("div", "div", r"impl<FF> Div<Polynomial<'_, FF>> for", subst=OUTPUT),
    S("rem", "rem", r"impl<FF> Rem<Polynomial<'_, FF>> for", subst=OUTPUT),
    S("reduce_long_division", "reduce_long_division"),
    # ---- dispatchers: size comparisons against the regenerated thresholds; untranslated callees are parameters
    S("multiply", "multiply", callees={"fast_multiply": ([P_FF, P_FF2], P_FF3, True)},
      consts={"FAST_MULTIPLY_CUTOFF_THRESHOLD": ("(Int.ofNat TF.Gen.FAST_MULTIPLY_CUTOFF_THRESHOLD)", "isize")}, **THREE),
    S("square", "square", callees={"fast_square": ([P_FF], P_FF, True)}),
    S("reduce", "reduce", callees={"fast_reduce": ([P_FF, P_FF], P_FF, True)}),
    S("fast_pow", "fast_pow", callees={"fast_square": ([P_FF], P_FF, True), "fast_multiply": ([P_FF, P_FF], P_FF, True)},
      consts={"FAST_MULTIPLY_CUTOFF_THRESHOLD": ("(Int.ofNat TF.Gen.FAST_MULTIPLY_CUTOFF_THRESHOLD)", "isize")}),
    # ---- NTT-based products on top of `ntt` / `intt` (parameters: the regenerated transforms of ntt.rs)
    S("fast_multiply", "fast_multiply",
      callees={"ntt": ([("list", ("elem", "FF"))], ("list", ("elem", "FF")), True),
               "ntt2": ([("list", ("elem", "FF2"))], ("list", ("elem", "FF2")), True),
               "intt": ([("list", ("elem", "FF3"))], ("list", ("elem", "FF3")), True)},
      callee_by_type={"ntt": {"FF2": "ntt2"}}, **THREE),
    S("fast_square", "fast_square",
      callees={"ntt": ([("list", ("elem", "FF"))], ("list", ("elem", "FF")), True),
               "intt": ([("list", ("elem", "FF"))], ("list", ("elem", "FF")), True)}),
]

# functions of polynomial.rs that are deliberately attempted and expected to be REFUSED (recorded under `outside_subset`)
POLY_OUTSIDE = ["xgcd", "batch_multiply", "par_batch_multiply", "fast_reduce", "formal_power_series_inverse_minimal",
                "formal_power_series_inverse_newton", "structured_multiple_of_degree", "reduce_by_structured_modulus",
                "shift_factor_ntt_with_tail_length", "reduce_by_ntt_friendly_modulus", "fast_coset_evaluate", "are_colinear",
                "lagrange_interpolate", "naive_zerofier", "clean_divide"]

FILE_DOC = """/-!
Core loops of `twenty-first/src/math/polynomial.rs`, regenerated from the source text on every run (tools/rs2lean_poly.py).

* `Polynomial<FF>` is its coefficient storage `List α` (`Cow::Owned` / `Cow::Borrowed` / slices / iterators are the same list).
* The code is generic over the field: the field operations are the parameter `F : TF.FieldOps α`; products of different element
  types are explicit parameters; callees that are not translated are parameters as well.
* A function that can panic returns `Option` (`none` = panic); partial steps are chained with `Option.bind`.
* `usize`/`u64` = `Nat`, `isize` = `Int`; `+`, `*` unbounded; `usize - usize` and `isize as usize` checked (TF/Model/PolyStd.lean).
* `for` loops: structural recursion over the list iterated; `while` loops: fuel-indexed (fuel sufficiency is proved in the bridge).
-/
"""


def run(status, changed, read_src):
    src = read_src(REL)
    if src is None:
        for sp in POLY_FUNCTIONS:
            status["failed"][f"fn poly_{sp['lname']}"] = "poly: source file not readable"
        return
    cut = src.find("#[cfg(test)]\nmod ")
    if cut >= 0:
        src = src[:cut]
    REGISTRY.clear()
    texts = []
    for sp in POLY_FUNCTIONS:
        key = "poly_" + sp["lname"]
        try:
            text, info = translate_fn(sp, src)
        except Unsupported as ex:
            status["failed"][f"fn {key}"] = "poly: " + str(ex)
            continue
        except Exception as ex:       # a translator crash is a refusal, never a guess
            status["failed"][f"fn {key}"] = f"poly: internal: {type(ex).__name__}: {ex}"
            continue
        REGISTRY[sp["rust"]] = info
        texts.append(text)
        status["translated"][key] = {"source": REL, "sha256": hashlib.sha256(text.encode()).hexdigest()[:16], "loops": True,
                                     "poly": True, "partial": info["partial"]}
        status.get("outside_subset", {}).pop(key, None)
    for rn in POLY_OUTSIDE:
        key = "poly_" + rn
        try:
            translate_fn(S(rn, rn), src)
            status.setdefault("outside_subset", {})[key] = "translatable now (not emitted: not in the table of translated functions)"
        except Unsupported as ex:
            status.setdefault("outside_subset", {})[key] = "poly: " + str(ex)
        except Exception as ex:
            status.setdefault("outside_subset", {})[key] = f"poly: internal: {type(ex).__name__}: {ex}"
    REGISTRY.clear()
    out = [HEADER.format(src=REL).replace("rs2lean.py", "rs2lean.py (rs2lean_poly.py)"),
           "import TF.Model.FieldOps\nimport TF.Model.PolyStd\nimport TF.Gen.Consts\n", FILE_DOC,
           "set_option linter.unusedVariables false\n", "namespace TF.Gen.Poly\n", "variable {α β γ σ ι ε : Type}\n"]
    out += texts
    out.append("end TF.Gen.Poly\n")
    if write_if_changed(os.path.join(OUT, "PolyLoops.lean"), "\n".join(out)):
        changed.append("PolyLoops")
# END BT6
