#!/usr/bin/env python3
# BEGIN BT4 (the whole file; hooked into tools/rs2lean_loops.py by one delimited block)
"""rs2lean_bt4.py -- third extension of the translator (on top of rs2lean_loops.py / rs2lean_bfe.py); additive.

Functions regenerated from source by this module (anything it does not fully understand is REFUSED and recorded in
TF/Gen/status.json under `failed` / `outside_subset`, never guessed):

  TF/Gen/SpongeLoops.lean     `impl Sponge for Tip5 { init, absorb, squeeze }`, the default method
                              `Sponge::pad_and_absorb_all` (instantiated at `Self = Tip5`), `Tip5::{hash_pair, hash_varlen,
                              sample_indices, sample_scalars}`, `BFieldElement::value`
  TF/Gen/MmrPeaksLoops.lean   `shared_basic::{calculate_new_peaks_from_append, calculate_new_peaks_from_leaf_mutation}`,
                              `shared::bag_peaks`   -- digests OPAQUE
  TF/Gen/MerkleLoops.lean     `CpuParallel::from_digests`   -- digests OPAQUE

Additional subset
  opaque digests    (MMR / Merkle files) `Digest` is a type parameter `D`; every generated definition takes
                    `(H : D -> D -> D)` = `Tip5::hash_pair` and `(d0 : D)` = the value read after an out-of-range index /
                    `pop` on an empty vector (unreachable: the `_ok` twin is false there); `Vec<Digest>`, `&[Digest]` = `List D`;
                    `MmrMembershipProof` = its single field `authentication_path` (checked against the struct item)
  glue (identity)   `Digest::new(a)` (with the length check `a.len() == Digest::LEN` in `_ok`), `d.values()`,
                    `x.to_owned()`, `x.to_vec()`, `x.clone()`, `&e`, `MmrMembershipProof::new(v)`, `p.authentication_path`
  Vec               `v.len()`, `v.is_empty()`, `let x = v.pop().unwrap();` (statement), `v.push(e);`, `vec![]` of any
                    element type, `v[i]`, `v[i] = e;`
  arrays            `<slice or list>.try_into().unwrap()` when the target length is known: from the declared type of the
                    `let`, from `Digest::new(..)` or from the array type of the parameter of the translated function the value
                    is passed to (every use of the `let` variable must be such an argument)
                    `a[..k].iter_mut().zip_eq(&b).for_each(|(x, &y)| *x = y);` = `a[..k].copy_from_slice(&b)` (both panic
                    exactly when the lengths differ)
  iterators         `iter::once(e)`, `iter::repeat(e)`, `x.iter()`, `.into_iter()`, `.chain(it)`, `.take(n)`, `.rev()`,
                    `.cloned()`, `.copied()`, `.collect_vec()`, itertools `.chunks(k)`  (TF/Model/RustIter.lean: an
                    iterator is a finite prefix plus an optional element repeated forever), `for x in <finite iterator>`
                    (structural recursion over the list), `n.next_multiple_of(k)`
  calls             `let x = recv.m(..);` / nested `recv.m(..)` of a translated method with `&mut self` *and* a value (hoisted
                    into a preceding `let` in evaluation order, through strict positions only)
  fuel              `sample_indices` takes its fuel as an explicit first parameter (its loop has no bound)
"""
import hashlib
import os
import re

import rs2lean_loops as L
import rs2lean_bfe as B
from rs2lean import HEADER, INT_TYPES, OUT, NatEmitter, Unsupported, find_fn, p2, write_if_changed
from rs2lean_loops import K, Ctl, LoopCtx, LParser, is_ivar, paren, tokenize, tuple_term
from rs2lean_bfe import CTX, map_ast

X = {
    "field": False,      # P10: `Self` is an abstract finite field (opaque `D`), its operations are parameters
    "opaque": False,     # digests are opaque (`D`), hash_pair is the parameter `H`
    "plens": {},         # rust name of a translated function -> [array length (int) or None per parameter]
    "mp_struct_ok": False,
}

ITER_KINDS = ("iter", "chunks", "riter")


# --------------------------------------------------------------------------------------------------------
# Lean types
# --------------------------------------------------------------------------------------------------------

def make_lean_ty(base):
    def lean_ty(ty):
        if ty == "digest":
            return "D"
        if ty == "bfe":
            return "Nat"
        if ty == "hfun":
            return "D → D → D"
        # BEGIN P10
        if ty == "ufun":
            return "D → D"
        if ty == "pfun":
            return "D → Bool"
        # END P10
        if isinstance(ty, tuple) and ty and ty[0] == "iter":
            return "List " + L.lean_ty_atom(ty[1])
        if isinstance(ty, tuple) and ty and ty[0] == "chunks":
            return "List (List " + L.lean_ty_atom(ty[1]) + ")"
        if isinstance(ty, tuple) and ty and ty[0] == "riter":
            return "TF.RustIter.RIter " + L.lean_ty_atom(ty[1])
        if isinstance(ty, tuple) and ty and ty[0] == "result":
            return "Except String " + L.lean_ty_atom(ty[1])
        return base(ty)
    return lean_ty


# --------------------------------------------------------------------------------------------------------
# parser
# --------------------------------------------------------------------------------------------------------

class BT4Parser(B.BfeParser):
    def parse_type(self):
        if self.peek() == ("id", "Result") and self.peek(1)[1] == "<":
            self.next()
            self.expect("<")
            a = self.parse_type()
            if self.peek()[1] == ">>":
                self.t[self.i] = ("op", ">")
            else:
                self.expect(">")
            return ("generic", "Result", a)
        return B.BfeParser.parse_type(self)

    def parse_pattern(self):
        if self.accept("&"):
            return ("pref", self.parse_pattern())
        self.accept("mut")
        if self.accept("("):
            items = []
            while not self.accept(")"):
                items.append(self.parse_pattern())
                self.accept(",")
            return ("ptuple", items)
        k, v = self.next()
        if k != "id":
            raise Unsupported("closure parameter pattern")
        if self.peek()[1] == ":":
            raise Unsupported("typed closure parameter")
        return ("pwild",) if v == "_" else ("pid", v)

    def parse_primary(self):
        k, v = self.peek()
        if k == "op" and v == "|":
            self.next()
            pats = []
            while not self.accept("|"):
                pats.append(self.parse_pattern())
                self.accept(",")
            if self.peek() == ("op", "{"):
                return ("closure", pats, ("block", self.parse_block()))
            body = self.parse_expr()
            if self.peek() == ("op", "="):
                self.next()
                body = ("assignexpr", body, self.parse_expr())
            return ("closure", pats, body)
        if k == "id" and v == "vec" and self.peek(1)[1] == "!" and self.peek(2) == ("op", "["):
            save = self.i
            self.next(); self.next(); self.next()
            if self.peek() != ("op", "]"):
                x = self.parse_expr()
                if self.accept(";"):
                    n = self.parse_expr()
                    self.expect("]")
                    return ("vecrep", x, n)
            self.i = save
        # BEGIN P10: `Vec::<T>::new()`
        if k == "id" and v == "Vec" and self.peek(1)[1] == "::" and self.peek(2)[1] == "<":
            self.next(); self.next(); self.next()
            ty = self.parse_type()
            self.expect(">")
            self.expect("::")
            if self.next() != ("id", "new"):
                raise Unsupported("turbofish path other than Vec::<T>::new()")
            self.expect("(")
            self.expect(")")
            return ("vecnew_t", ty)
        # END P10
        if k == "op" and v == "(":
            save = self.i
            self.next()
            try:
                lo = self.parse_expr(len(self.BIN) - 2)
                if self.accept(".."):
                    hi = self.parse_expr(len(self.BIN) - 2)
                    self.expect(")")
                    return ("range", lo, hi)
            except Unsupported:
                pass
            self.i = save
        if k == "id" and v == "MerkleTree" and self.peek(1) == ("op", "{") and self.peek(2)[0] == "id" \
                and self.peek(3) == ("op", "}"):
            self.next(); self.next()
            f = self.next()[1]
            self.next()
            return ("structlit2", "MerkleTree", f)
        return B.BfeParser.parse_primary(self)

    def stmt_hook(self, stmts):
        k, v = self.peek()
        site = self.i
        # `let Some(&x) = e else { .. };`
        if k == "id" and v == "let" and self.peek(1) == ("id", "Some") and self.peek(2) == ("op", "(") \
                and self.peek(3) == ("op", "&"):
            for _ in range(4):
                self.next()
            self.accept("mut")
            kk, name = self.next()
            if kk != "id":
                raise Unsupported("let Some(pattern)")
            self.expect(")")
            self.expect("=")
            e = self.parse_expr()
            self.expect("else")
            els = self.parse_block()
            self.expect(";")
            stmts.append(("letelse", name, ("someref", e), els, site))
            return True
        # `for x in <iterator expression> { .. }` (ranges are left to the base parser)
        if k == "id" and v == "for" and self.peek(1)[0] == "id" and self.peek(2) == ("id", "in"):
            save = self.i
            self.next()
            var = self.next()[1]
            self.next()
            try:
                e = self.parse_expr()
            except Unsupported:
                self.i = save
                return B.BfeParser.stmt_hook(self, stmts)
            if self.peek() != ("op", "{") or e[0] == "range" or (e[0] == "mcall" and e[1][0] == "range"):
                self.i = save       # `a..b` / `(a..b).rev()`: the base parser's range loops
                return B.BfeParser.stmt_hook(self, stmts)
            body = self.parse_block()
            self.accept(";")
            stmts.append(("foreach", None, "it_" if var == "_" else var, e, body, site))
            return True
        # `a[i..j].clone_from_slice(&b[..k]);` (panics exactly when the lengths differ, like copy_from_slice)
        if k == "id" and v not in ("let", "if", "while", "loop", "for", "return", "break", "continue", "assert",
                                   "debug_assert", "match", "use", "fn"):
            save = self.i
            try:
                e = self.parse_expr()
            except Unsupported:
                e = None
            if e is not None and e[0] == "mcall" and e[2] == "clone_from_slice" and e[1][0] == "slice" and len(e[3]) == 1 \
                    and self.peek() == ("op", ";"):
                self.next()
                stmts.append(("copyslice", e[1], e[3][0], [e[1][1]]))
                return True
            self.i = save
        return B.BfeParser.stmt_hook(self, stmts)


# ---- syntactic analyses of the base module: the statement kinds of this module (additive: unknown kinds were ignored)
_assigned_outer_prev = L.assigned_outer
_walk_stmts_prev = L.walk_stmts


def _assigned_outer4(stmts, local=None):
    local = set(local or ())
    out = []

    def add(n):
        if n not in local and n not in out:
            out.append(n)
    for st in stmts:
        k = st[0]
        if k == "letcall":
            for x in st[4]:
                add(L.lhs_base(x))
            for n in pat_names(st[1]):
                local.add(n)
        elif k == "letpop":
            add(L.lhs_base(st[2]))
            local.add(st[1])
        elif k == "foreach":
            for n in _assigned_outer4(st[4], local | {st[2]}):
                add(n)
        elif k == "mcallstmt" and st[1][2] == "collect_into_vec" and len(st[1][3]) == 1:
            a = st[1][3][0]
            add(L.lhs_base(a[1] if a[0] == "mutref" else a))
        else:
            for n in _assigned_outer_prev([st], local):
                add(n)
            if k == "let":
                for n in pat_names(st[1]):
                    local.add(n)
            elif k == "letelse":
                local.add(st[1])
    return out


def _walk_stmts4(stmts, f, in_loop=False):
    for st in stmts:
        if st[0] == "foreach":
            f(st, in_loop)
            _walk_stmts4(st[4], f, True)
        else:
            _walk_stmts_prev([st], f, in_loop)


def pat_names(pat):
    return [pat[1]] if pat[0] == "pid" else list(pat[1])


def install_patches():
    L.assigned_outer = _assigned_outer4
    L.walk_stmts = _walk_stmts4


def remove_patches():
    L.assigned_outer = _assigned_outer_prev
    L.walk_stmts = _walk_stmts_prev


def map_blocks(stmts, f):
    """apply `f` to every statement list, innermost first"""
    out = []
    for st in stmts:
        k = st[0]
        if k == "if":
            st = ("if", st[1], map_blocks(st[2], f), map_blocks(st[3], f) if st[3] else st[3])
        elif k == "while":
            st = st[:3] + (map_blocks(st[3], f),) + st[4:]
        elif k == "loop":
            st = st[:2] + (map_blocks(st[2], f),) + st[3:]
        elif k == "for":
            st = st[:7] + (map_blocks(st[7], f),) + st[8:]
        elif k == "foreach":
            st = st[:4] + (map_blocks(st[4], f),) + st[5:]
        elif k == "letelse":
            st = st[:3] + (map_blocks(st[3], f),) + st[4:]
        out.append(st)
    return f(out)


def count_path(x, name):
    if isinstance(x, tuple):
        if len(x) == 2 and x[0] == "path" and x[1] == [name]:
            return 1
        return sum(count_path(y, name) for y in x)
    if isinstance(x, list):
        return sum(count_path(y, name) for y in x)
    return 0


# BEGIN P10
def count_kind_p10(x, mname):
    """number of method calls named `mname` in an AST"""
    if isinstance(x, tuple):
        n = 1 if (len(x) == 4 and x[0] == "mcall" and x[2] == mname) else 0
        return n + sum(count_kind_p10(y, mname) for y in x)
    if isinstance(x, list):
        return sum(count_kind_p10(y, mname) for y in x)
    return 0
# END P10


def is_tryinto_unwrap(e):
    return isinstance(e, tuple) and len(e) == 4 and e[0] == "mcall" and e[2] == "unwrap" and not e[3] \
        and e[1][0] == "mcall" and e[1][2] == "try_into" and not e[1][3]


# --------------------------------------------------------------------------------------------------------
# emitter
# --------------------------------------------------------------------------------------------------------

class BT4Emitter(B.BfeEmitter):
    ARRAY_FIELDS = ("values", "state", "authentication_path")

    def __init__(self, consts, fns, pfns, self_name):
        B.BfeEmitter.__init__(self, consts, fns, pfns, self_name)
        self.reserved |= {"D"}

    # ---- types
    def tyname(self, ty):
        if ty[0] == "named" and ty[1] == "Digest" and X["opaque"]:
            return "digest"
        if ty[0] == "named" and ty[1] == "MmrMembershipProof":
            if not (X["opaque"] and X["mp_struct_ok"]):
                raise Unsupported("type MmrMembershipProof (struct item not of the expected single-field shape)")
            return ("vec", "digest")
        if ty[0] == "named" and ty[1] == "MerkleTree" and X["opaque"]:
            return ("vec", "digest")
        if ty[0] == "named" and ty[1] == "XFieldElement" and not X["opaque"]:
            return ("array", "bfe")
        if ty[0] == "generic" and ty[1] == "Result":
            return ("result", self.tyname(ty[2]))
        if ty[0] == "array":
            return ("array", self.tyname(ty[1]))
        return B.BfeEmitter.tyname(self, ty)

    def param_type_ok(self, ty):
        if ty in ("digest", "hfun", "ufun", "pfun"):      # P10: ufun, pfun
            return True
        if isinstance(ty, tuple) and ty[0] in ("array", "vec") and ty[1] == "digest":
            return True
        return B.BfeEmitter.param_type_ok(self, ty)

    def resolve(self, t):
        t = B.BfeEmitter.resolve(self, t)
        if isinstance(t, tuple) and t and t[0] in ITER_KINDS + ("result",):
            return (t[0], self.resolve(t[1]))
        return t

    def unify(self, a, b, what=""):
        ra, rb = self.resolve(a), self.resolve(b)
        for x, y in ((ra, rb), (rb, ra)):
            if is_ivar(x) and y in ("bfe", "digest"):
                self.bind[x[1]] = y
                self.new_binding = True
                return y
        if isinstance(ra, tuple) and isinstance(rb, tuple) and ra and rb and ra[0] == rb[0] \
                and ra[0] in ITER_KINDS + ("result",):
            return (ra[0], self.unify(ra[1], rb[1], what))
        if ra in ("int?", None) and rb in ("bfe", "digest"):
            return rb
        if rb in ("int?", None) and ra in ("bfe", "digest"):
            return ra
        return B.BfeEmitter.unify(self, a, b, what)

    def dflt(self, ety):
        ety = self.resolve(ety)
        if ety == "digest":
            return "d0"
        if isinstance(ety, tuple) and ety[0] in ("array", "vec", "iter"):
            return "[]"
        return "0"

    def array_base(self, e, env):
        """as the base, and a `Vec` variable may be indexed like an array"""
        e0 = e
        if e0[0] == "fieldn" and e0[2] in self.ARRAY_FIELDS:
            e0 = e0[1]
        if e0[0] == "path" and len(e0[1]) == 1 and e0[1][0] in env and env[e0[1][0]][0] is not None:
            ty = self.resolve(env[e0[1][0]][1])
            if isinstance(ty, tuple) and ty[0] == "vec":
                return env[e0[1][0]][0], ty[1], e0[1][0]
        return B.BfeEmitter.array_base(self, e, env)

    def as_list(self, e, env):
        """(term, element type, ok) of an expression denoting a finite sequence"""
        t, ty, ok = self.emit(e, env, None)
        ty = self.resolve(ty)
        if isinstance(ty, tuple) and ty[0] in ("array", "vec", "iter"):
            return t, ty[1], ok
        raise Unsupported(f"finite sequence expected, got {ty}")

    def as_riter(self, e, env):
        t, ty, ok = self.emit(e, env, None)
        ty = self.resolve(ty)
        if isinstance(ty, tuple) and ty[0] == "riter":
            return t, ty[1], ok
        if isinstance(ty, tuple) and ty[0] in ("array", "vec", "iter"):
            return f"(TF.RustIter.ofList {paren(t)})", ty[1], ok
        raise Unsupported(f"iterator expected, got {ty}")

    # ---- expressions
    def emit(self, e, env, exp=None):
        k = e[0]
        exp = self.resolve(exp)
        if k == "closure":
            raise Unsupported("closure outside the supported iterator idioms")
        if k == "assignexpr":
            raise Unsupported("assignment expression")
        if k == "toarray":
            _, s, n = e
            nt, nty, nok = self.emit(n, {}, "usize")
            if nok is not None:
                raise Unsupported("array length that is not a constant")
            if s[0] == "slice":
                t, ty, ok, ln = self.emit_slice(s, env)
                return t, ty, self.conj(ok, f"({ln} == {nt})")
            t, ety, ok = self.as_list(s, env)
            return t, ("array", ety), self.conj(ok, f"({paren(t)}.length == {nt})")
        if k == "arraylit":
            inner = exp[1] if isinstance(exp, tuple) and exp[0] == "array" else None
            parts = []
            for x in e[1]:
                self.check_no_partial(x)
                t, ty, ok = self.emit(x, env, inner)
                inner = ty if inner is None else self.unify(inner, ty, "array literal")
                parts.append((t, ok))
            if inner is None:
                raise Unsupported("empty array literal")
            return "[" + ", ".join(p[0] for p in parts) + "]", ("array", inner), self.conj(*[p[1] for p in parts])
        if k == "veclit" and not e[1] and isinstance(exp, tuple) and exp[0] == "vec":
            return "[]", exp, None
        if k == "vecrep":
            self.check_no_partial(e[1])
            self.check_no_partial(e[2])
            inner = exp[1] if isinstance(exp, tuple) and exp[0] == "vec" else None
            v, vty, vok = self.emit(e[1], env, inner)
            c, cty, cok = self.emit(e[2], env, "usize")
            self.unify(cty, "usize", "vec! length")
            return f"(List.replicate {paren(c)} {paren(v)})", ("vec", vty), self.conj(vok, cok)
        if k == "range":
            raise Unsupported("range expression outside the supported idioms")
        # BEGIN P10
        if k == "vecnew_t":
            ety = self.tyname(e[1])
            if isinstance(exp, tuple) and exp[0] == "vec":
                self.unify(exp[1], ety, "Vec::<T>::new()")
            return "[]", ("vec", ety), None
        # END P10
        if k == "path" and e[1] == ["PARALLELIZATION_CUTOFF"] and X["opaque"] and X.get("cutoff_static_ok") \
                and "PARALLELIZATION_CUTOFF" not in env and "cutoff" in env:
            return env["cutoff"][0], "usize", None
        if k == "index":
            base = e[1]
            if not (base[0] == "path" and len(base[1]) == 1 and base[1][0] not in env and base[1][0] in CTX["tables"]):
                t, ety, _ = self.array_base(e[1], env)
                self.check_no_partial(e[2])
                i, ity, iok = self.emit(e[2], env, "usize")
                self.unify(ity, "usize", "array index")
                return f"({t}.getD {paren(i)} {self.dflt(ety)})", ety, self.conj(iok, f"decide ({i} < {t}.length)")
        if k == "structlit2":
            if not X["opaque"]:
                raise Unsupported("struct literal")
            t, ty, ok = self.emit(("path", [e[2]]), env, ("vec", "digest"))
            self.unify(ty, ("vec", "digest"), "MerkleTree { nodes }")
            return t, ("vec", "digest"), ok
        if k == "call":
            r = self.emit_call4(e, env, exp)
            if r is not None:
                return r
        if k == "mcall":
            r = self.emit_mcall4(e, env, exp)
            if r is not None:
                return r
        return B.BfeEmitter.emit(self, e, env, exp)

    # BEGIN P10: the abstract finite field (`X["field"]`): `Self` is the opaque type `D`, its operations are parameters
    def emit_bin(self, e, env, exp):
        _, op, l, r = e
        if X.get("field") and op in ("+", "-", "*", "/", "==", "!="):
            saved = self.dirty
            a, aty, aok = self.emit(l, env, None)
            self.dirty = saved
            if self.resolve(aty) == "digest":
                if op != "*" or "f_mul" not in env:
                    raise Unsupported(f"operator {op} of the abstract field")
                b, bty, bok = self.emit(r, env, "digest")
                if self.resolve(bty) != "digest":
                    raise Unsupported("`*` of a field element and something else")
                return f"({env['f_mul'][0]} {paren(a)} {paren(b)})", "digest", self.conj(aok, bok)
        return B.BfeEmitter.emit_bin(self, e, env, exp)

    def emit_field_mcall_p10(self, e, env):
        _, recv, name, args = e
        if not (X.get("field") and name in ("is_zero", "inverse") and not args):
            return None
        a, aty, aok = self.emit(recv, env, "digest")
        if self.resolve(aty) != "digest":
            raise Unsupported(f"{name}() on something that is not a field element")
        if name == "is_zero":
            return f"({env['f_is_zero'][0]} {paren(a)})", "bool", aok
        return f"({env['f_inverse'][0]} {paren(a)})", "digest", self.conj(aok, f"({env['f_inverse_ok'][0]} {paren(a)})")
    # END P10

    def emit_call4(self, e, env, exp):
        path, args = e[1], e[2]
        # BEGIN P10
        if X.get("field") and path in (["Self", "zero"], ["Self", "one"]) and not args:
            return env["f_" + path[1]][0], "digest", None
        # END P10
        if path in (["iter", "once"], ["std", "iter", "once"], ["iter", "repeat"], ["std", "iter", "repeat"]) and len(args) == 1:
            self.check_no_partial(args[0])
            t, ty, ok = self.emit(args[0], env, None)
            f = "once" if path[-1] == "once" else "rept"
            return f"(TF.RustIter.{f} {paren(t)})", ("riter", ty), ok
        if path == ["Digest", "new"] and len(args) == 1:
            if X["opaque"]:
                raise Unsupported("Digest::new on opaque digests")
            if "Digest::LEN" not in CTX["named_consts"]:
                raise Unsupported("Digest::LEN unknown")
            t, ty, ok = self.emit(args[0], env, ("array", "bfe"))
            self.unify(ty, ("array", "bfe"), "Digest::new")
            return t, ("array", "bfe"), self.conj(ok, f"({paren(t)}.length == {CTX['named_consts']['Digest::LEN'][0]})")
        if path == ["XFieldElement", "new"] and len(args) == 1 and not X["opaque"]:
            t, ty, ok = self.emit(args[0], env, ("array", "bfe"))
            self.unify(ty, ("array", "bfe"), "XFieldElement::new")
            return t, ("array", "bfe"), self.conj(ok, f"({paren(t)}.length == 3)")
        if path == ["MmrMembershipProof", "new"] and len(args) == 1 and X["opaque"] and X["mp_struct_ok"]:
            t, ty, ok = self.emit(args[0], env, ("vec", "digest"))
            self.unify(ty, ("vec", "digest"), "MmrMembershipProof::new")
            return t, ("vec", "digest"), ok
        if path == ["Tip5", "hash_pair"] and len(args) == 2 and X["opaque"]:
            a, aty, aok = self.emit(args[0], env, "digest")
            b, bty, bok = self.emit(args[1], env, "digest")
            self.unify(aty, "digest", "hash_pair")
            self.unify(bty, "digest", "hash_pair")
            return f"(H {paren(a)} {paren(b)})", "digest", self.conj(aok, bok)
        if path == ["Tip5", "hash"] and len(args) == 1 and X["opaque"] and args[0] == ("lit", 0, "u128"):
            if "hash0" not in env:
                raise Unsupported("Tip5::hash(&0u128) without the `hash0` parameter")
            return env["hash0"][0], "digest", None
        if path == ["Digest", "default"] and not args and X["opaque"]:
            if "digest_default" not in env:
                raise Unsupported("Digest::default() without the `digest_default` parameter")
            return env["digest_default"][0], "digest", None
        if path == ["Vec", "with_capacity"] and len(args) == 1:
            self.check_no_partial(args[0])
            t, ty, ok = self.emit(args[0], env, "usize")
            self.unify(ty, "usize", "with_capacity")
            inner = exp[1] if isinstance(exp, tuple) and exp[0] == "vec" else "int?"
            if inner in ("digest", "bfe") or inner in INT_TYPES:
                return f"([] : {L.lean_ty(('vec', inner))})", ("vec", inner), ok
            return "[]", ("vec", inner), ok
        if path in (["Ok"], ["Err"]) and len(args) == 1:
            inner = exp[1] if isinstance(exp, tuple) and exp[0] == "result" else None
            hint = getattr(self, "ret_hint", None)
            if inner is None and isinstance(hint, tuple) and hint[0] == "result":
                inner = hint[1]
            if path == ["Ok"]:
                t, ty, ok = self.emit(args[0], env, inner)
                return f"(Except.ok {paren(t)})", ("result", ty), ok
            a = args[0]
            if not (a[0] == "path" and len(a[1]) >= 2 and a[1][-1][:1].isupper()) or inner is None:
                raise Unsupported("Err(..) of something that is not an enum variant path")
            return f"(Except.error \"{a[1][-1]}\" : {L.lean_ty(('result', inner))})", ("result", inner), None
        return None

    def emit_mcall4(self, e, env, exp):
        _, recv, name, args = e
        # BEGIN P10
        r = self.emit_mcall_p10(e, env, exp)
        if r is None:
            r = self.emit_field_mcall_p10(e, env)
        if r is not None:
            return r
        # END P10
        if name in ("unwrap", "try_into", "expect", "pop", "next_back", "fold", "for_each", "map", "flat_map",
                    "collect_into_vec", "into_par_iter", "collect"):
            return None
        if name in ("next_multiple_of", "div_ceil") and len(args) == 1:
            a, aty, aok = self.emit(recv, env, None)
            aty = self.resolve(aty)
            b, bty, bok = self.emit(args[0], env, aty)
            ty = self.unify(aty, bty, name)
            if ty != "usize":
                raise Unsupported(f"{name} on {ty}")
            w = p2(64)
            if name == "next_multiple_of":
                v = f"(TF.RustIter.nextMultipleOf {paren(a)} {paren(b)})"
                return f"({v} % {w})", "usize", self.conj(aok, bok, f"({b} != 0)", f"decide ({v} < {w})")
            return f"(({a} + {b} - 1) / {b})", "usize", self.conj(aok, bok, f"({b} != 0)")
        try:
            saved = self.dirty
            a, aty, aok = self.emit(recv, env, None)
        except Unsupported:
            self.dirty = saved
            return None
        aty = self.resolve(aty)
        seq = isinstance(aty, tuple) and aty[0] in ("array", "vec", "iter")
        if name == "is_power_of_two" and not args and aty == "usize":
            return f"(decide ({a} != 0) && ({a} &&& ({a} - 1)) == 0)", "bool", aok
        if seq and name == "is_empty" and not args and aty[0] != "iter":
            return f"{paren(a)}.isEmpty", "bool", aok
        if seq and name == "len" and not args and aty[0] != "iter":
            return f"{paren(a)}.length", "usize", aok
        if seq and name in ("iter", "into_iter") and not args:
            return a, ("iter", aty[1]), aok
        if isinstance(aty, tuple) and aty[0] == "chunks" and name == "into_iter" and not args:
            return a, aty, aok
        if isinstance(aty, tuple) and aty[0] == "iter":
            if name in ("cloned", "copied") and not args:
                return a, aty, aok
            if name == "rev" and not args:
                return f"{paren(a)}.reverse", aty, aok
            if name == "collect_vec" and not args:
                return a, ("vec", aty[1]), aok
        if isinstance(aty, tuple) and aty[0] in ("iter", "riter"):
            if name == "chain" and len(args) == 1:
                self.check_no_partial(args[0])
                x, xty, xok = self.as_riter(recv, env)
                y, yty, yok = self.as_riter(args[0], env)
                ety = self.unify(xty, yty, "chain")
                return f"(TF.RustIter.chain {x} {y})", ("riter", ety), self.conj(xok, yok)
            if name == "take" and len(args) == 1:
                self.check_no_partial(args[0])
                n, nty, nok = self.emit(args[0], env, "usize")
                self.unify(nty, "usize", "take")
                x, xty, xok = self.as_riter(recv, env)
                return f"(TF.RustIter.take {paren(n)} {x})", ("iter", xty), self.conj(xok, nok)
            if name == "chunks" and len(args) == 1 and aty[0] == "iter":
                self.check_no_partial(args[0])
                n, nty, nok = self.emit(args[0], env, "usize")
                self.unify(nty, "usize", "chunks")
                return f"(TF.RustIter.chunks {paren(n)} {paren(a)})", ("chunks", aty[1]), self.conj(aok, nok, f"({n} != 0)")
        if seq and name in ("to_vec", "to_owned", "clone") and not args:
            return a, (("vec", aty[1]) if name == "to_vec" else aty), aok
        if aty == "digest" and name in ("to_owned", "clone") and not args:
            return a, aty, aok
        if name == "values" and not args and aty == ("array", "bfe") and not X["opaque"]:
            return a, aty, aok
        return None


    # BEGIN P10
    def pure_closure_p10(self, clo, npar, what):
        """a closure `|p1, .., pn| <expression>`: no block, no assignment, no nested closure; returns (patterns, body)"""
        if not (clo[0] == "closure" and len(clo[1]) == npar):
            raise Unsupported(f"{what}: closure arity")
        body = clo[2]
        if body[0] in ("block", "assignexpr"):
            raise Unsupported(f"{what}: closure with a block / assignment body")
        bad = {"n": 0}

        def f(node):
            if node and node[0] in ("closure", "assignexpr", "mutref", "block"):
                bad["n"] += 1
            if node and node[0] == "call":
                sig = CTX["sigs"].get(node[1][-1])
                if sig is None or sig.get("outs"):
                    # unknown functions are refused when emitted; functions with `&mut` parameters are refused here
                    if sig is not None:
                        bad["n"] += 1
            return node
        map_ast(body, f)
        if bad["n"]:
            raise Unsupported(f"{what}: closure body outside the pure expression subset")
        self.check_no_partial(body)
        return clo[1], body

    def emit_mcall_p10(self, e, env, exp):
        """exactly three closure idioms (everything else falls through to the refusals of the BT4 module):
        `<finite iterator>.fold(init, |acc, &x| <pure expr>)`                 = `List.foldl (fun acc x => ..) init l`
        `<slice/Vec>.chunks(k)` / `<chunks>.take(n)`                           (slice::chunks; lazy and pure)
        `<chunks or finite iterator>.map(|x| <pure expr>).collect()`           = `List.map`, every check of the body in `_ok`
        A closure here is an expression without assignment, nested closure, block, `&mut` argument or call of a function
        with `&mut` parameters / that may not terminate, so it only reads its environment."""
        _, recv, name, args = e
        if name == "fold" and len(args) == 2 and args[1][0] == "closure":
            pats, body = self.pure_closure_p10(args[1], 2, "fold")
            if not (pats[0][0] == "pid" and pats[1][0] == "pref" and pats[1][1][0] == "pid" and pats[0][1] != pats[1][1][1]):
                raise Unsupported("fold: closure parameters other than `|acc, &x|`")
            l, lty, lok = self.emit(recv, env, None)
            lty = self.resolve(lty)
            if not (isinstance(lty, tuple) and lty[0] == "iter"):
                raise Unsupported(f"fold on {lty}")
            self.check_no_partial(args[0])
            i0, ity, iok = self.emit(args[0], env, exp)
            env2 = dict(env)
            accn, xn = pats[0][1], pats[1][1][1]
            env2.pop(accn, None)
            env2.pop(xn, None)
            al = self.fresh(accn, env2)
            env2[accn] = (al, ity)
            xl = self.fresh(xn, env2)
            env2[xn] = (xl, lty[1])
            b, bty, bok = self.emit(body, env2, self.resolve(ity))
            if bok is not None:
                raise Unsupported("fold: closure body with a run-time check")
            rty = self.unify(ity, bty, "fold")
            return f"(List.foldl (fun {al} {xl} => {b}) {paren(i0)} {paren(l)})", rty, self.conj(lok, iok)
        if name == "chunks" and len(args) == 1:
            saved = self.dirty
            try:
                a, aty, aok = self.emit(recv, env, None)
            except Unsupported:
                self.dirty = saved
                return None
            aty = self.resolve(aty)
            if isinstance(aty, tuple) and aty[0] in ("vec", "array"):
                self.check_no_partial(args[0])
                n, nty, nok = self.emit(args[0], env, "usize")
                self.unify(nty, "usize", "chunks")
                return f"(TF.RustIter.chunks {paren(n)} {paren(a)})", ("chunks", aty[1]), self.conj(aok, nok, f"({n} != 0)")
            return None
        if name == "take" and len(args) == 1 and recv[0] == "mcall" and recv[2] == "chunks":
            a, aty, aok = self.emit(recv, env, None)
            aty = self.resolve(aty)
            if not (isinstance(aty, tuple) and aty[0] == "chunks"):
                return None
            self.check_no_partial(args[0])
            n, nty, nok = self.emit(args[0], env, "usize")
            self.unify(nty, "usize", "take")
            return f"({paren(a)}.take {paren(n)})", aty, self.conj(aok, nok)
        if name == "collect" and not args and recv[0] == "mcall" and recv[2] == "map" and len(recv[3]) == 1 \
                and recv[3][0][0] == "closure":
            pats, body = self.pure_closure_p10(recv[3][0], 1, "map")
            if pats[0][0] != "pid":
                raise Unsupported("map: closure parameter other than a plain identifier")
            if not (isinstance(exp, tuple) and exp[0] == "vec"):
                raise Unsupported("collect() with an unknown target type")
            a, aty, aok = self.emit(recv[1], env, None)
            aty = self.resolve(aty)
            if isinstance(aty, tuple) and aty[0] == "chunks":
                elty = ("vec", aty[1])
            elif isinstance(aty, tuple) and aty[0] == "iter":
                elty = aty[1]
            else:
                raise Unsupported(f"map on {aty}")
            env2 = dict(env)
            xn = pats[0][1]
            env2.pop(xn, None)
            xl = self.fresh(xn, env2)
            env2[xn] = (xl, elty)
            b, bty, bok = self.emit(body, env2, exp[1])
            rty = ("vec", self.unify(exp[1], bty, "collect"))
            ok = self.conj(aok, f"({paren(a)}.all (fun {xl} => {bok}))" if bok else None)
            return f"({paren(a)}.map (fun {xl} => {b}))", rty, ok
        return None
    # END P10


# --------------------------------------------------------------------------------------------------------
# statements
# --------------------------------------------------------------------------------------------------------

OPAQUE_PARAMS = ("H", "d0", "hash0", "digest_default", "cutoff")
FIELD_PARAMS = ("f_zero", "f_one", "f_mul", "f_is_zero", "f_inverse", "f_inverse_ok")      # P10
STRICT_KINDS = ("cast", "field", "fieldn", "not", "neg", "mutref", "toarray")


class BT4Translator(B.BfeFnTranslator):
    EMITTER = BT4Emitter
    PARSER = BT4Parser

    # ---- AST preparation
    def outsig(self, node):
        if isinstance(node, tuple) and node and node[0] == "call":
            sig = CTX["sigs"].get(node[1][-1])
            if sig and sig.get("outs") and sig.get("has_ret"):
                return sig
        return None

    def call_targets(self, e, sig):
        targets = []
        for j in sig["outs"]:
            jj = j - sig.get("generics", 0)
            if jj >= len(e[2]):
                raise Unsupported(f"arity of {e[1][-1]}")
            a = e[2][jj]
            targets.append(a[1] if a[0] == "mutref" else a)
        return targets

    def arg_len(self, path, j):
        if path == ["Digest", "new"] and j == 0:
            return ("path", ["Digest", "LEN"])
        if path == ["XFieldElement", "new"] and j == 0:
            return ("lit", 3, "usize")
        name = path[-1]
        if name in X["plens"] and (len(path) == 1 or path[0] in B.PREFIXES):
            sig = CTX["sigs"].get(name, {})
            jj = j + sig.get("generics", 0)
            pl = X["plens"][name]
            if jj < len(pl) and pl[jj] is not None:
                return ("lit", pl[jj], "usize")
        return None

    def resolve_tryinto_args(self, x):
        """`f(.., e.try_into().unwrap(), ..)` where the parameter's array length is known"""
        def f(node):
            if node and node[0] == "call":
                args = list(node[2])
                ch = False
                for j, a in enumerate(args):
                    if is_tryinto_unwrap(a):
                        n = self.arg_len(node[1], j)
                        if n is not None:
                            args[j] = ("toarray", a[1][1], n)
                            ch = True
                if ch:
                    return ("call", node[1], args)
            return node
        return map_ast(x, f)

    def hoist_out(self, e, acc, top):
        """move calls of functions with `&mut` parameters *and* a value out of `e` (evaluation order, strict positions)"""
        if not isinstance(e, tuple) or not self.has_outcall(e):
            return e
        k = e[0]
        if k == "call":
            args = [self.hoist_out(a, acc, False) for a in e[2]]
            e2 = ("call", e[1], args)
            sig = self.outsig(e2)
            if sig is None:
                return e2
            if top:
                return e2
            self.hoist_counter4 += 1
            tmp = f"t_{e[1][-1]}_{self.hoist_counter4}"
            acc.append(("letcall", ("pid", tmp), None, e2, self.call_targets(e2, sig), ("hoist4", tmp)))
            return ("path", [tmp])
        if k == "bin" and e[1] not in ("&&", "||"):
            l = self.hoist_out(e[2], acc, False)
            r = self.hoist_out(e[3], acc, False)
            return ("bin", e[1], l, r)
        if k in STRICT_KINDS:
            return (k, self.hoist_out(e[1], acc, False)) + tuple(e[2:])
        if k == "mcall":
            return ("mcall", self.hoist_out(e[1], acc, False), e[2], [self.hoist_out(a, acc, False) for a in e[3]])
        if k == "index":
            return ("index", self.hoist_out(e[1], acc, False), self.hoist_out(e[2], acc, False))
        if k == "tuple":
            return ("tuple", [self.hoist_out(a, acc, False) for a in e[1]])
        raise Unsupported(f"call of a method with `&mut self` and a value inside a `{k}` expression")

    def has_outcall(self, x):
        if isinstance(x, tuple):
            if self.outsig(x) is not None:
                return True
            return any(self.has_outcall(y) for y in x)
        if isinstance(x, list):
            return any(self.has_outcall(y) for y in x)
        return False

    def rewrite_block(self, blk):
        out = []
        for i, st in enumerate(blk):
            k = st[0]
            # 1. `let x = v.pop().unwrap();`
            if k == "let" and st[1][0] == "pid" and st[3] is not None and st[3][0] == "mcall" and st[3][2] == "unwrap" \
                    and not st[3][3] and st[3][1][0] == "mcall" and st[3][1][2] == "pop" and not st[3][1][3]:
                out.append(("letpop", st[1][1], st[3][1][1], st[4]))
                continue
            # 2. try_into().unwrap() with a target length known from the context
            if k == "let" and st[3] is not None and is_tryinto_unwrap(st[3]):
                n = None
                if st[2] is not None and st[2][0] == "array" and len(st[2]) == 3 and st[2][2] is not None:
                    n = st[2][2]
                elif st[2] is None and st[1][0] == "pid":
                    x = st[1][1]
                    lens = []
                    uses = 0

                    def scan(node):
                        nonlocal uses
                        if node and node[0] == "call":
                            for j, a in enumerate(node[2]):
                                if a == ("path", [x]):
                                    uses += 1
                                    lens.append(self.arg_len(node[1], j))
                        return node
                    rest = blk[i + 1:]
                    map_ast(rest, scan)
                    if uses and uses == count_path(rest, x) and all(l is not None for l in lens) \
                            and all(l == lens[0] for l in lens):
                        n = lens[0]
                if n is not None:
                    st = ("let", st[1], st[2], ("toarray", st[3][1][1], n), st[4])
            if k in ("let", "assign", "tail", "return", "mcallstmt", "callstmt", "assert"):
                st = self.resolve_tryinto_args(st)
            # 3. calls with `&mut` parameters and a value
            if k == "let" and st[3] is not None and self.has_outcall(st[3]):
                acc = []
                e2 = self.hoist_out(st[3], acc, True)
                out += acc
                sig = self.outsig(e2)
                if sig is not None:
                    out.append(("letcall", st[1], st[2], e2, self.call_targets(e2, sig), st[4]))
                else:
                    out.append(("let", st[1], st[2], e2, st[4]))
                continue
            if k in ("assign", "tail", "return", "assert", "mcallstmt") and self.has_outcall(st):
                acc = []
                if k == "assign":
                    if self.has_outcall(st[1]):
                        raise Unsupported("call with `&mut` parameters in an assignment target")
                    st = ("assign", st[1], st[2], self.hoist_out(st[3], acc, False))
                elif k == "mcallstmt":
                    m = st[1]
                    if self.has_outcall(m[1]):
                        raise Unsupported("call with `&mut` parameters in a receiver")
                    st = ("mcallstmt", ("mcall", m[1], m[2], [self.hoist_out(a, acc, False) for a in m[3]]))
                else:
                    st = (k, self.hoist_out(st[1], acc, False)) + tuple(st[2:])
                out += acc
                out.append(st)
                continue
            if k in ("if", "while", "foreach", "for", "callstmt", "copyslice", "letelse") and \
                    self.has_outcall([x for x in st[1:] if not isinstance(x, list)]):
                raise Unsupported("call of a method with `&mut self` and a value in a condition / loop header / call statement")
            out.append(st)
        return out

    # BEGIN P10
    def flatmap_node_p10(self, e):
        """`(<literal>..<identifier>).flat_map(|_| self.<m>()).collect_vec()`: (lo, hi, m) or None"""
        if not (isinstance(e, tuple) and e and e[0] == "mcall" and e[2] == "collect_vec" and not e[3]):
            return None
        fm = e[1]
        if not (fm[0] == "mcall" and fm[2] == "flat_map" and len(fm[3]) == 1 and fm[1][0] == "range"):
            return None
        clo, rng = fm[3][0], fm[1]
        if not (clo[0] == "closure" and clo[1] == [("pwild",)] and clo[2][0] == "mcall" and clo[2][1] == ("path", ["self"])
                and not clo[2][3]):
            raise Unsupported("flat_map with a closure other than `|_| self.<method>()`")
        if not (rng[1][0] == "lit" and rng[2][0] == "path" and len(rng[2][1]) == 1):
            raise Unsupported("flat_map over a range other than `<literal>..<variable>`")
        return rng[1][1], rng[2][1][0], clo[2][2]

    def desugar_flatmap_p10(self, blk):
        """`S[(lo..hi).flat_map(|_| self.m()).collect_vec()]` where the node is the innermost receiver of the method chain
        that is the whole expression of the `let` / tail / `return` statement S (so it is evaluated first):
        `collect_vec` drives the lazy `flat_map` to the end at once, calling the closure for lo, lo+1, .. in order and
        appending what each call returns.  Rewritten, on the AST, to the loop that this is:
            let mut v = vec![]; for i in lo..hi { let t = self.m(); for x in t { v.push(x); } }  S[v]
        (`i` is a fresh, unused name for the closure's `_`)"""
        out = []
        for st in blk:
            if st[0] in ("let", "tail", "return") and count_kind_p10(st, "flat_map"):
                idx = 3 if st[0] == "let" else 1
                spine = [st[idx]]
                while spine[-1] is not None and spine[-1][0] == "mcall" and self.flatmap_node_p10(spine[-1]) is None:
                    spine.append(spine[-1][1])
                hit = self.flatmap_node_p10(spine[-1]) if spine[-1] is not None else None
                if hit is None or count_kind_p10(st, "flat_map") != 1:
                    raise Unsupported("flat_map outside the supported idiom (head of the statement's method chain)")
                lo, hi, m = hit
                self.p10_counter = getattr(self, "p10_counter", 0) + 1
                c = self.p10_counter
                v, t, x, iv = f"fm_acc_{c}", f"fm_out_{c}", f"fm_x_{c}", f"fm_i_{c}"
                used = {tv for tk, tv in tokenize(self.src) if tk == "id"}
                if {v, t, x, iv} & used:
                    raise Unsupported("identifier clash with a variable introduced for flat_map")
                text = f"let mut {v} = vec![]; for {iv} in {lo}..{hi} {{ let {t} = self.{m}(); for {x} in {t} {{ {v}.push({x}); }} }}"
                ps = self.PARSER(tokenize(text))
                pre = ps.parse_stmts("")
                if ps.peek()[0] != "eof":
                    raise Unsupported("internal: flat_map desugaring")
                e2 = ("path", [v])
                for node in reversed(spine[:-1]):
                    e2 = ("mcall", e2, node[2], node[3])
                out += pre
                out.append(st[:idx] + (e2,) + st[idx + 1:])
            else:
                out.append(st)
        return out
    # END P10

    def prepare(self, stmts):
        self.hoist_counter4 = 0
        # BEGIN P10
        stmts = map_blocks(stmts, self.desugar_flatmap_p10)
        # END P10
        stmts = B.BfeFnTranslator.prepare(self, stmts)

        def glue(node):
            # `a[..k].iter_mut().zip_eq(&b).for_each(|(x, &y)| *x = y);`
            if node and node[0] == "mcallstmt":
                m = node[1]
                if m[0] == "mcall" and m[2] == "for_each" and len(m[3]) == 1 and m[3][0][0] == "closure":
                    c = m[3][0]
                    z = m[1]
                    if z[0] == "mcall" and z[2] == "zip_eq" and len(z[3]) == 1 and z[1][0] == "mcall" \
                            and z[1][2] == "iter_mut" and not z[1][3] and z[1][1][0] == "slice" \
                            and len(c[1]) == 1 and c[1][0][0] == "ptuple" and len(c[1][0][1]) == 2 \
                            and c[1][0][1][0][0] == "pid" and c[1][0][1][1] == ("pref", ("pid", c[1][0][1][1][1][1]))  \
                            and c[2] == ("assignexpr", ("path", [c[1][0][1][0][1]]), ("path", [c[1][0][1][1][1][1]])) \
                            and c[1][0][1][0][1] != c[1][0][1][1][1][1]:
                        sl = z[1][1]
                        return ("copyslice", sl, z[3][0], [sl[1]])
            if node and node[0] == "fieldn" and node[2] == "authentication_path" and X["opaque"] and X["mp_struct_ok"]:
                return node[1]
            return node
        stmts = map_ast(stmts, glue)
        return map_blocks(stmts, self.rewrite_block)

    # ---- statements
    def seq(self, stmts, i, env, k, ctl):
        if i < len(stmts):
            kind = stmts[i][0]
            if kind == "letcall":
                return self.do_letcall(stmts[i], stmts, i, env, k, ctl)
            if kind == "letpop":
                return self.do_letpop(stmts[i], stmts, i, env, k, ctl)
            if kind == "foreach":
                return self.do_foreach(stmts[i], stmts, i, env, k, ctl)
            if kind == "letelse" and stmts[i][2][0] == "someref":
                return self.do_letelse_nextback(stmts[i], stmts, i, env, k, ctl)
            if kind == "copyslice" and stmts[i][2][0] == "slice":
                return self.do_copyslice4(stmts[i], stmts, i, env, k, ctl)
            if kind == "mcallstmt" and stmts[i][1][2] == "collect_into_vec":
                return self.do_parmap(stmts[i], stmts, i, env, k, ctl)
            if kind == "mcallstmt" and stmts[i][1][2] == "push":
                # `v.push(e)` for element types the base statement does not know (digests, field elements)
                _, recv, mname, args = stmts[i][1]
                em = self.em
                if recv[0] == "path" and len(recv[1]) == 1 and recv[1][0] in env and len(args) == 1:
                    name = recv[1][0]
                    ln, vty = env[name][0], em.resolve(env[name][1])
                    if ln is not None and isinstance(vty, tuple) and vty[0] == "vec":
                        em.check_no_partial(args[0])
                        inner = vty[1] if not (vty[1] == "int?" or is_ivar(vty[1])) else None
                        a, aty, aok = em.emit(args[0], env, inner)
                        nty = ("vec", em.unify(vty[1], aty, "push"))
                        env2 = dict(env)
                        env2[name] = (ln, nty)
                        bt, bok = self.seq(stmts, i + 1, env2, k, ctl)
                        v = f"{ln} ++ [{a}]"
                        return self.let_(ln, v, bt), self.let_ok(ln, v, aok, bok)
        return B.BfeFnTranslator.seq(self, stmts, i, env, k, ctl)

    def do_copyslice4(self, st, stmts, i, env, k, ctl):
        """`a[i..j].clone_from_slice(&b[..k]);` with a slice as the source"""
        em = self.em
        _, sl, src, _ = st
        em.check_no_partial(src)
        em.check_no_partial(sl)
        t, ety, name = em.array_base(sl[1], env)
        s, sty, sok, sln = em.emit_slice(src, env)
        em.unify(sty[1], ety, "clone_from_slice")
        _, _, slok, ln = em.emit_slice(sl, env)
        hi, _, _ = em.emit(sl[3], env, "usize")
        if sl[2] is None:
            val = f"{paren(s)} ++ {t}.drop {paren(hi)}"
        else:
            lo, _, _ = em.emit(sl[2], env, "usize")
            val = f"{t}.take {paren(lo)} ++ {paren(s)} ++ {t}.drop {paren(hi)}"
        ok = self.conj(sok, slok, f"({sln} == {ln})")
        bt, bok = self.seq(stmts, i + 1, dict(env), k, ctl)
        return self.let_(t, val, bt), self.let_ok(t, val, ok, bok)

    def do_parmap(self, st, stmts, i, env, k, ctl):
        """`(a..b).into_par_iter().map(|i| { .. }).collect_into_vec(&mut v);`: the closure only reads its environment and
        rayon's indexed collect puts result `i` in slot `i`, so the statement is `v = (a..b).map(closure).collect()`"""
        em = self.em
        m = st[1]
        tgt = m[3][0]
        if not (len(m[3]) == 1 and tgt[0] == "mutref" and tgt[1][0] == "path" and len(tgt[1][1]) == 1
                and tgt[1][1][0] in env and env[tgt[1][1][0]][0] is not None):
            raise Unsupported("collect_into_vec target")
        tn = tgt[1][1][0]
        mp = m[1]
        if not (mp[0] == "mcall" and mp[2] == "map" and len(mp[3]) == 1 and mp[3][0][0] == "closure"
                and mp[1][0] == "mcall" and mp[1][2] == "into_par_iter" and not mp[1][3] and mp[1][1][0] == "range"):
            raise Unsupported("collect_into_vec on anything but `(a..b).into_par_iter().map(closure)`")
        clo = mp[3][0]
        rng = mp[1][1]
        if not (len(clo[1]) == 1 and clo[1][0][0] == "pid"):
            raise Unsupported("closure parameter")
        var = clo[1][0][1]
        body = clo[2][1] if clo[2][0] == "block" else [("tail", clo[2])]
        if L.assigned_outer(body, {var}):
            raise Unsupported("closure of a parallel map that assigns a captured variable")
        fl = {"bad": False}

        def f(s_, _):
            if s_[0] in ("return", "break", "continue", "while", "loop", "for", "foreach", "letcall", "callstmt"):
                fl["bad"] = True
        L.walk_stmts(body, f)
        if fl["bad"] or self.is_partial_block(body):
            raise Unsupported("closure of a parallel map with control flow / calls that may not terminate")
        em.check_no_partial(rng[1])
        em.check_no_partial(rng[2])
        lo, loty, look = em.emit(rng[1], env, "usize")
        hi, hity, hiok = em.emit(rng[2], env, "usize")
        em.unify(loty, "usize", "range")
        em.unify(hity, "usize", "range")
        env2 = dict(env)
        env2.pop(var, None)
        iv = em.fresh(var, env2)
        env2[var] = (iv, "usize")
        res = {}

        def value(e_, env3):
            em.check_no_partial(e_)
            t, ty, ok = em.emit(e_, env3, None)
            res["ty"] = ty
            return t, ok

        def never(env3):
            raise Unsupported("closure body without a value")

        def noret(e_, env3):
            raise Unsupported("return inside a closure")
        bt, bok = self.seq(body, 0, env2, K(never, value), Ctl(noret))
        vn, vty = env[tn][0], em.resolve(env[tn][1])
        if not (isinstance(vty, tuple) and vty[0] == "vec"):
            raise Unsupported("collect_into_vec into a non-Vec")
        nty = ("vec", em.unify(vty[1], res["ty"], "collect_into_vec"))
        rl = f"(List.range' {paren(lo)} ({hi} - {lo}))"
        val = f"{rl}.map (fun {iv} =>\n  {bt})"
        ok = self.conj(look, hiok, (f"{rl}.all (fun {iv} =>\n  {bok})" if bok else None))
        env3 = dict(env)
        env3[tn] = (vn, nty)
        rt, rok = self.seq(stmts, i + 1, env3, k, ctl)
        return self.let_(vn, val, rt), self.let_ok(vn, val, ok, rok)

    def do_letcall(self, st, stmts, i, env, k, ctl):
        em = self.em
        _, pat, ty, e, targets, site = st
        if pat[0] != "pid":
            raise Unsupported("tuple pattern on a call with `&mut` parameters")
        name = em.lookup_fn(e[1])
        if name is None:
            raise Unsupported(f"call of the untranslated function {'::'.join(e[1])}")
        sig = CTX["sigs"][name]
        for j, a in enumerate(e[2]):
            is_out = (j + sig.get("generics", 0)) in sig["outs"]
            if a[0] == "mutref" and not is_out:
                raise Unsupported(f"`&mut` argument for a parameter of {name} that is not `&mut`")
            if is_out and a[0] != "mutref" and not (sig.get("method") and j == 0):
                raise Unsupported(f"argument {j} of {name} must be `&mut`")
        partial = name in em.pfns or name == self.rust_name
        if partial:
            call, rty, cok = self.partial_call(e, env)
        else:
            em.allow_outs = True
            try:
                call, rty, cok = em.total_call(name, e[2], env)
            finally:
                em.allow_outs = False
        rty = em.resolve(rty)
        if not (isinstance(rty, tuple) and rty[0] == "tuple" and len(rty[1]) == 1 + len(targets)):
            raise Unsupported(f"result of {name}")
        env2 = dict(env)
        tmp = em.fresh("t_" + name, env2)
        env2["\0tmp"] = (tmp, None)
        n = len(rty[1])
        binds = []
        oks = []
        for idx, target in enumerate(targets):
            ln, val, ok, env2 = self.assign_target(target, NatEmitter.proj(tmp, idx + 1, n), rty[1][idx + 1], env2)
            binds.append((ln, val))
            oks.append(ok)
        vty = rty[1][0]
        if ty is not None:
            vty = em.unify(vty, em.tyname(ty), "let type")
        env2.pop(pat[1], None)
        xl = em.fresh(pat[1], env2)
        env2[pat[1]] = (xl, vty)
        binds.append((xl, NatEmitter.proj(tmp, 0, n)))
        oks.append(None)
        del env2["\0tmp"]
        bt, bok = self.seq(stmts, i + 1, env2, k, ctl)
        term, okt = bt, bok
        for (ln, val), ok in reversed(list(zip(binds, oks))):
            term = self.let_(ln, val, term)
            okt = self.conj(ok, "(" + self.let_(ln, val, okt) + ")") if okt else ok
        if partial:
            return self.match_option(call, cok, tmp, term, okt)
        return self.let_(tmp, call, term), self.let_ok(tmp, call, cok, okt)

    def do_letpop(self, st, stmts, i, env, k, ctl):
        em = self.em
        _, x, vexpr, site = st
        if not (vexpr[0] == "path" and len(vexpr[1]) == 1 and vexpr[1][0] in env and env[vexpr[1][0]][0] is not None):
            raise Unsupported("pop() on something that is not a Vec variable")
        vn = vexpr[1][0]
        ln, vty = env[vn][0], em.resolve(env[vn][1])
        if not (isinstance(vty, tuple) and vty[0] == "vec"):
            raise Unsupported("pop() on a non-Vec")
        ety = em.resolve(vty[1])
        if ety == "int?" or is_ivar(ety):
            em.dirty = True
        env2 = dict(env)
        env2.pop(x, None)
        xl = em.fresh(x, env2)
        env2[x] = (xl, vty[1])
        bt, bok = self.seq(stmts, i + 1, env2, k, ctl)
        v1 = f"(TF.RustIter.popVal {ln} {em.dflt(ety)})"
        v2 = f"{ln}.dropLast"
        term = self.let_(xl, v1, self.let_(ln, v2, bt))
        ok = self.conj(f"(!{ln}.isEmpty)", ("(" + self.let_(xl, v1, self.let_(ln, v2, bok)) + ")") if bok else None)
        return term, ok

    def do_foreach(self, st, stmts, i, env, k, ctl):
        em = self.em
        _, label, var, itexpr, body, site = st
        fname = self.loop_name("for")
        em.check_no_partial(itexpr)
        it, itty, itok = em.emit(itexpr, env, None)
        itty = em.resolve(itty)
        if isinstance(itty, tuple) and itty[0] == "chunks":
            elty = ("iter", itty[1])
        elif isinstance(itty, tuple) and itty[0] in ("iter", "vec", "array"):
            elty = itty[1]
        else:
            raise Unsupported(f"for over {itty}")
        if var in L.assigned_outer(body, ()):
            raise Unsupported("assignment to the loop variable")
        S = [n for n in self.env_order(env) if n in set(L.assigned_outer(body, {var})) and n != var]
        for n in L.assigned_outer(body, {var}):
            if n not in env:
                raise Unsupported(f"assignment to unknown variable {n}")
        S = [n for n in S if env[n][0] is not None]
        used = self.free_in([body], env)
        F = [n for n in self.env_order(env) if n in used and n not in S and n != var and env[n][0] is not None]
        impure = self.is_partial_block(body)
        fl = {"ret": False}

        def f(s, in_loop):
            if s[0] == "return":
                fl["ret"] = True
        L.walk_stmts(body, f)
        if fl["ret"]:
            raise Unsupported("`return` inside a `for` loop")
        benv = {n: env[n] for n in self.env_order(env) if n in F + S or env[n][0] is None}
        xv = em.fresh(var, benv)
        benv[var] = (xv, elty)
        rest_name = em.fresh(var + "_rest", benv)
        sty = ("tuple", [em.resolve(env[n][1]) for n in S])
        if len(S) == 1:
            sty = em.resolve(env[S[0]][1])
        fargs = " ".join(env[n][0] for n in F)
        call_prefix = f"{fname} {fargs}".strip()
        wrap = (lambda v: f"some {paren(v)}") if impure else (lambda v: v)

        def state_of(env2):
            return [env2[n][0] for n in S]

        def cont(env2):
            a = " ".join(state_of(env2))
            return f"{call_prefix} {rest_name} {a}".strip(), f"({fname}_ok {fargs} {rest_name} {a})".replace("  ", " ")

        def brk(env2):
            for n in S:
                em.unify(env2[n][1], env[n][1], f"loop state {n}")
            return wrap(tuple_term(state_of(env2))), None

        def ret(e, env2):
            raise Unsupported("`return` inside a `for` loop")
        lctx = LoopCtx(label, cont, brk, None)
        bctl = Ctl(ret, ctl.loops + [lctx])

        def fall(env2):
            for n in S:
                em.unify(env2[n][1], env[n][1], f"loop state {n}")
            return cont(self.leave(benv, env2))
        bk = K(fall)
        bk.is_loop_body = True
        bt, bok = self.seq(body, 0, benv, bk, bctl)
        exit_t, _ = brk(benv)
        RT = L.lean_ty(sty)
        if impure:
            RT = f"Option {L.lean_ty_atom(sty)}"
        fb = " ".join(f"({env[n][0]} : {L.lean_ty(em.resolve(env[n][1]))})" for n in F)
        sig = " → ".join(f"({env[n][0]} : {L.lean_ty(em.resolve(env[n][1]))})" for n in S)
        pats = ", ".join(env[n][0] for n in S)
        sig_arrow = (sig + " → ") if S else ""
        p_some = (", " + pats) if S else ""
        lt = L.lean_ty_atom(elty)
        d = f"/-- the `for {var}` loop of `{self.rust_name}` over a finite iterator -/\n"
        d += f"def {fname} {fb} : ({rest_name} : List {lt}) → {sig_arrow}{RT}\n  | []{p_some} => {exit_t}\n  | {xv} :: {rest_name}{p_some} =>\n  {bt}\n"
        d += f"\ndef {fname}_ok {fb} : ({rest_name} : List {lt}) → {sig_arrow}Bool\n  | []{p_some} => true\n  | {xv} :: {rest_name}{p_some} =>\n  {bok or 'true'}\n"
        d = d.replace(f"def {fname}  :", f"def {fname} :").replace(f"def {fname}_ok  :", f"def {fname}_ok :")
        self.defs.append(d)
        a0 = " ".join(state_of(env))
        pre = " ".join(env[n][0] for n in F)
        call = f"{fname} {pre} {paren(it)} {a0}".replace("  ", " ").strip()
        callok = self.conj(itok, f"({fname}_ok {pre} {paren(it)} {a0})".replace("  ", " ").replace(" )", ")"))
        env2 = dict(env)
        lns = [env[n][0] for n in S]
        rt, rok = self.seq(stmts, i + 1, env2, k, ctl)
        if impure:
            if len(S) == 1:
                return self.match_option(call, callok, lns[0], rt, rok)
            if not S:
                return self.match_option(call, callok, "_", rt, rok)
            tmp = em.fresh("t_" + fname.split("_")[-1], env2)
            return self.match_option(call, callok, tmp, self.bind_tuple(tmp, lns, rt),
                                     self.bind_tuple(tmp, lns, rok) if rok else None)
        if not S:
            return rt, self.conj(callok, rok)
        if len(S) == 1:
            return self.let_(lns[0], call, rt), self.let_ok(lns[0], call, callok, rok)
        tmp = em.fresh("t_" + fname.split("_")[-1], env2)
        return (self.let_(tmp, call, self.bind_tuple(tmp, lns, rt)),
                self.let_ok(tmp, call, callok, self.bind_tuple(tmp, lns, rok) if rok else None))

    def do_letelse_nextback(self, st, stmts, i, env, k, ctl):
        """`let Some(&x) = it.next_back() else { <diverging block> };` on an iterator variable over a slice"""
        em = self.em
        _, name, e, els, site = st
        e = e[1]
        if not (e[0] == "mcall" and e[2] == "next_back" and not e[3] and e[1][0] == "path" and len(e[1][1]) == 1
                and e[1][1][0] in env and env[e[1][1][0]][0] is not None):
            raise Unsupported("let-else on anything but `<iterator variable>.next_back()`")
        vn = e[1][1][0]
        ln, vty = env[vn][0], em.resolve(env[vn][1])
        if not (isinstance(vty, tuple) and vty[0] == "iter"):
            raise Unsupported("next_back() on a non-iterator")

        def never(env2):
            raise Unsupported("else block of let-else does not diverge")
        et, eok = self.seq(els, 0, env, K(never), ctl)
        env2 = dict(env)
        env2.pop(name, None)
        xl = em.fresh(name, env2)
        env2[name] = (xl, vty[1])
        bt, bok = self.seq(stmts, i + 1, env2, k, ctl)
        v1 = f"(TF.RustIter.popVal {ln} {em.dflt(vty[1])})"
        v2 = f"{ln}.dropLast"
        term = f"if {ln}.isEmpty then {paren(et)} else\n  {self.let_(xl, v1, self.let_(ln, v2, bt))}"
        ok = None
        if eok or bok:
            ok = f"(if {ln}.isEmpty then {eok or 'true'} else ({self.let_(xl, v1, self.let_(ln, v2, bok or 'true'))}))"
        return term, ok

    def free_in(self, parts, env):
        names = B.BfeFnTranslator.free_in(self, parts, env)
        if X["opaque"]:
            names = names | set(OPAQUE_PARAMS)
        if X.get("field"):      # P10
            names = names | set(FIELD_PARAMS)
        return names

    def translate(self):
        if X["opaque"]:
            # the parameters added by this module keep their names: the Rust text must not use them
            for k, v in tokenize(self.src):
                if k == "id" and (v in OPAQUE_PARAMS or (X.get("field") and v in FIELD_PARAMS)):      # P10: FIELD_PARAMS
                    raise Unsupported(f"identifier {v} clashes with a parameter added by the translator")
        self.em.ret_hint = None
        if self.ret_ast is not None:
            try:
                self.em.ret_hint = self.em.tyname(self.ret_ast)
            except Unsupported:
                pass
        return B.BfeFnTranslator.translate(self)


# --------------------------------------------------------------------------------------------------------
# driver
# --------------------------------------------------------------------------------------------------------

def param_lens(src, rname, after, consts, generics):
    """array length (int) or None for every parameter of `fn rname` (the const generics first)"""
    params_text, _, _ = find_fn(src, rname, after)
    ps = BT4Parser(tokenize(params_text))
    em = BT4Emitter(consts, {}, {}, rname)
    out = [None] * generics
    while ps.peek()[0] != "eof":
        ps.accept("&")
        ps.accept("mut")
        k, n = ps.next()
        if n == "self":
            out.append(None)
        else:
            ps.expect(":")
            ty = ps.parse_type()
            ln = None
            if ty[0] == "array" and len(ty) == 3 and ty[2] is not None:
                try:
                    t, _, ok = em.emit(ty[2], {}, "usize")
                    if ok is None and re.fullmatch(r"[0-9]+", t):
                        ln = int(t)
                except Unsupported:
                    ln = None
            out.append(ln)
        if not ps.accept(","):
            break
    return out


def translate_fn4(src, rust_name, lname, rel, consts, fns, pfns, fuel, after=None, self_ty=None, pre_params=(), info=None):
    """like rs2lean_loops.translate_fn with the classes of this module; `pre_params`: [(name, type)] put in front"""
    params_text, ret_text, body = find_fn(src, rust_name, after)
    if X["opaque"]:
        for k, v in tokenize(params_text):
            if k == "id" and (v in OPAQUE_PARAMS or (X.get("field") and v in FIELD_PARAMS)):      # P10: FIELD_PARAMS
                raise Unsupported(f"parameter {v} clashes with a parameter added by the translator")
    probe = BT4Emitter(consts, fns, pfns, rust_name)
    probe.self_ty_override = self_ty
    inouts = []
    params, mut_self = L.parse_params(params_text, probe, self_ty, inouts)
    params = list(pre_params) + params
    ret_ast = None
    if ret_text.strip():
        rp = BT4Parser(tokenize(ret_text))
        ret_ast = rp.parse_type()
        if rp.peek()[0] != "eof":
            raise Unsupported("return type")
    tr = BT4Translator(lname, rust_name, params, ret_ast, body, consts, fns, pfns, fuel, rel, self_ty, mut_self)
    tr.inouts = inouts
    text = tr.translate()
    if info is not None:
        names = [n for n, _ in params]
        info["outs"] = [names.index(n) for n in names if n in tr.inouts or (n == "self" and mut_self)]
        info["has_ret"] = ret_ast is not None
        info["method"] = bool(names) and "self" in names and names.index("self") == len(pre_params)
        info["generics"] = len(pre_params)
    return text, [t for _, t in params], tr.em.resolve(tr.rty), tr.partial


def run_group4(status, changed, out_name, header_src, imports, preamble, specs, read_src, tfns, pfns):
    """specs: dicts with lname, rname, fuel, rel, owner, self_ty, after, consts, pre (params put in front), key"""
    out = [HEADER.format(src=header_src).replace("rs2lean.py", "rs2lean.py (rs2lean_bt4.py)")]
    out += [f"import {m}\n" for m in imports]
    out += ["set_option linter.unusedVariables false\n", "namespace TF.Gen.Loops\nopen TF.Gen\n"]
    out += preamble
    for sp in specs:
        lname, rname, rel = sp["lname"], sp["rname"], sp["rel"]
        key = f"fn {lname}"
        src = read_src(rel)
        if src is None:
            status["failed"][key] = "bt4: source file not readable"
            continue
        CTX["owner"] = sp.get("owner")
        info = {}
        consts = dict(sp.get("consts", {}))
        try:
            text, ptys, rty, partial = translate_fn4(src, rname, lname, rel, consts, tfns, pfns, sp.get("fuel", L.DEFAULT_FUEL),
                                                     after=sp.get("after"), self_ty=sp.get("self_ty"),
                                                     pre_params=sp.get("pre", ()), info=info)
            plens = param_lens(src, rname, sp.get("after"), consts, len(sp.get("pre", ())))
        except Unsupported as ex:
            if not sp.get("outside"):      # attempted on every run so that the report says why (never listed as `translated`)
                status["failed"][key] = "bt4: " + str(ex)
            status.setdefault("outside_subset", {})[lname] = str(ex)
            continue
        except Exception as ex:      # a translator crash is also a refusal, never a guess
            status["failed"][key] = f"bt4: internal: {type(ex).__name__}: {ex}"
            status.setdefault("outside_subset", {})[lname] = f"internal: {type(ex).__name__}: {ex}"
            continue
        out.append(text)
        kname = sp.get("key") or rname
        (pfns if partial else tfns)[kname] = (lname, ptys, rty)
        info["owner"] = sp.get("owner")
        info["free"] = sp.get("free", False)
        if "::" in kname:
            info["method"] = False
        CTX["sigs"][kname] = info
        X["plens"][kname] = plens
        status["translated"][lname] = {"source": rel, "sha256": hashlib.sha256(text.encode()).hexdigest()[:16],
                                       "loops": True, "fuel": sp.get("fuel", L.DEFAULT_FUEL), "bt4": True}
        status.get("outside_subset", {}).pop(lname, None)
    out.append("end TF.Gen.Loops\n")
    if write_if_changed(os.path.join(OUT, out_name + ".lean"), "\n".join(out)):
        changed.append(out_name)


def check_mp_struct(src):
    """`pub struct MmrMembershipProof { pub authentication_path: Vec<Digest>, }` and `new` = `Self { authentication_path }`"""
    if src is None:
        return False
    m = re.search(r"pub\s+struct\s+MmrMembershipProof\s*\{\s*pub\s+authentication_path\s*:\s*Vec<Digest>\s*,?\s*\}", src)
    n = re.search(r"pub\s+fn\s+new\s*\(\s*authentication_path\s*:\s*Vec<Digest>\s*\)\s*->\s*Self\s*\{\s*Self\s*\{\s*authentication_path\s*,?\s*\}\s*\}", src)
    return bool(m and n)


def check_digest_glue(src):
    """`Digest::values(self)` returns `self.0`, `Digest::new(digest)` is `Self(digest)`"""
    if src is None:
        return False
    a = re.search(r"pub\s+const\s+fn\s+values\s*\(\s*self\s*\)\s*->\s*\[BFieldElement;\s*Self::LEN\]\s*\{\s*self\.0\s*\}", src)
    b = re.search(r"pub\s+const\s+fn\s+new\s*\(\s*digest\s*:\s*\[BFieldElement;\s*Self::LEN\]\s*\)\s*->\s*Self\s*\{\s*Self\(digest\)\s*\}", src)
    return bool(a and b)


def run(status, changed, fns, read_src):
    """called by rs2lean_loops.run after rs2lean_bfe.run (whose registries in rs2lean_bfe.CTX are reused)"""
    saved_lean_ty = L.lean_ty
    L.lean_ty = make_lean_ty(saved_lean_ty)
    install_patches()
    try:
        run_inner(status, changed, fns, read_src)
    finally:
        L.lean_ty = saved_lean_ty
        remove_patches()


def run_inner(status, changed, fns, read_src):
    X["opaque"] = False
    X["plens"] = {}
    cst = status.get("constants", {})
    bfe_rel = "twenty-first/src/math/b_field_element.rs"
    tip5_rel = "twenty-first/src/math/tip5.rs"
    sponge_rel = "twenty-first/src/util_types/sponge.rs"
    digest_rel = "twenty-first/src/math/digest.rs"
    bfe = read_src(bfe_rel) or ""
    tip5 = read_src(tip5_rel) or ""

    # registries of the BFieldElement / Tip5 groups (rebuilt: rs2lean_bfe.run keeps them local)
    tfns, pfns = {}, {}
    tr = status.get("translated", {})

    def have(ln):
        return ln in tr
    if have("bfe_new"):
        tfns["new"] = ("bfe_new", ["u64"], "bfe")
        CTX["sigs"].setdefault("new", {"outs": [], "has_ret": True, "method": False, "owner": "BFieldElement", "free": False,
                                       "generics": 0})
    if have("bfe_value"):
        tfns["canonical_representation"] = ("bfe_value", ["bfe"], "u64")
    st = ("array", "bfe")
    for rn, ln, ptys, rty in (("permutation", "tip5_permutation", [st], st),):
        if have(ln) and rn in CTX["sigs"]:
            tfns[rn] = (ln, ptys, rty)
    if have("tip5_new") and "Tip5::new" in CTX["sigs"]:
        pfns["Tip5::new"] = ("tip5_new", [("enum", "Domain")], st)
    m = re.search(r"pub\s+const\s+MAX\s*:\s*u64\s*=\s*Self::P\s*-\s*1\s*;", bfe)
    if m and "P" in cst:
        CTX["named_consts"]["BFieldElement::MAX"] = (cst["P"] - 1, "u64")
    if re.search(r"impl\s+Sponge\s+for\s+Tip5\s*\{\s*const\s+RATE\s*:\s*usize\s*=\s*RATE\s*;", tip5) and "RATE" in cst:
        CTX["named_consts"]["Self::RATE"] = (cst["RATE"], "usize")
    if not check_digest_glue(read_src(digest_rel)):
        CTX["named_consts"].pop("Digest::LEN", None)      # Digest::new / values are refused below
    sizes = {k: (cst[k], "usize") for k in ("STATE_SIZE", "CAPACITY", "RATE", "NUM_ROUNDS") if k in cst}
    m = re.search(r"pub\s+const\s+EXTENSION_DEGREE\s*:\s*usize\s*=\s*([0-9]+)\s*;",
                  read_src("twenty-first/src/math/x_field_element.rs") or "")
    if m:
        sizes["EXTENSION_DEGREE"] = (int(m.group(1)), "usize")
    P = {k: (v, "u64") for k, v in cst.items() if k in ("P", "R2")}
    T = "Tip5"
    IMPL_T = r"impl Tip5 \{"
    IMPL_S = r"impl Sponge for Tip5 \{"
    sp = lambda lname, rname, rel, after, **kw: dict({"lname": lname, "rname": rname, "rel": rel, "after": after, "owner": T,
                                                      "self_ty": st, "consts": dict(sizes)}, **kw)
    sponge_specs = [
        dict(lname="bfe_value_fn", rname="value", rel=bfe_rel, after=r"impl BFieldElement \{", owner="BFieldElement",
             self_ty="bfe", consts=dict(P)),
        sp("tip5_init", "init", tip5_rel, IMPL_S),
        sp("tip5_absorb", "absorb", tip5_rel, IMPL_S),
        sp("tip5_squeeze", "squeeze", tip5_rel, IMPL_S),
        sp("tip5_hash_pair", "hash_pair", tip5_rel, IMPL_T),
        # the provided method of the trait, instantiated at Self = Tip5 (`self.absorb` is the impl above)
        sp("tip5_pad_and_absorb_all", "pad_and_absorb_all", sponge_rel, r"pub trait Sponge"),
        sp("tip5_hash_varlen", "hash_varlen", tip5_rel, IMPL_T),
        # the rejection loop has no bound: the fuel is an explicit parameter
        sp("tip5_sample_indices", "sample_indices", tip5_rel, IMPL_T, fuel="fuel_v", pre=[("fuel", "usize")]),
        sp("tip5_sample_scalars", "sample_scalars", tip5_rel, IMPL_T, outside=True),
    ]
    run_group4(status, changed, "SpongeLoops", tip5_rel + ", " + sponge_rel,
               ["TF.Gen.Consts", "TF.Gen.Tip5Loops", "TF.Model.RustIter"], [], sponge_specs, read_src, tfns, pfns)

    # ---------------------------------------------------------------- opaque digests: MMR peaks, Merkle construction
    X["opaque"] = True
    X["plens"] = {}
    saved_sigs = CTX["sigs"]
    CTX["sigs"] = {}
    try:
        sb_rel = "twenty-first/src/util_types/mmr/shared_basic.rs"
        sh_rel = "twenty-first/src/util_types/shared.rs"
        mp_rel = "twenty-first/src/util_types/mmr/mmr_membership_proof.rs"
        mt_rel = "twenty-first/src/util_types/merkle_tree.rs"
        X["mp_struct_ok"] = check_mp_struct(read_src(mp_rel))
        ifns = {}
        for rn in ("right_lineage_length_from_leaf_index", "leaf_index_to_mt_index_and_peak_index"):
            if fns.get(rn) is not None:
                ifns[rn] = fns[rn]
                CTX["sigs"][rn] = {"outs": [], "has_ret": True, "method": False, "owner": None, "free": True, "generics": 0}
        HD = [("H", "hfun"), ("d0", "digest")]
        pre = ["variable {D : Type}\n"]
        mmr_specs = [
            dict(lname="mmr_calculate_new_peaks_from_append", rname="calculate_new_peaks_from_append", rel=sb_rel,
                 fuel="(right_lineage_count + 1)", pre=HD, free=True),
            dict(lname="mmr_calculate_new_peaks_from_leaf_mutation", rname="calculate_new_peaks_from_leaf_mutation",
                 rel=sb_rel, pre=HD, free=True),
            dict(lname="mmr_bag_peaks", rname="bag_peaks", rel=sh_rel, pre=HD + [("hash0", "digest")], free=True),      # P10: no longer outside the subset
        ]
        run_group4(status, changed, "MmrPeaksLoops", sb_rel + ", " + sh_rel, ["TF.Gen.MmrIndex", "TF.Model.RustIter"], pre,
                   mmr_specs, read_src, dict(ifns), {})
        mconsts = {k: (cst[k], "usize") for k in ("ROOT_INDEX",) if k in cst}
        X["cutoff_static_ok"] = bool(re.search(r"static\s+ref\s+PARALLELIZATION_CUTOFF\s*:\s*usize\s*=", read_src(mt_rel) or ""))
        merkle_specs = [
            dict(lname="merkle_from_digests", rname="from_digests", rel=mt_rel, after=r"impl MerkleTreeMaker for CpuParallel",
                 fuel="(digests.length + 1)", pre=HD + [("digest_default", "digest"), ("cutoff", "usize")], consts=mconsts, free=True),
        ]
        run_group4(status, changed, "MerkleLoops", mt_rel, ["TF.Gen.Consts", "TF.Model.RustIter"], pre, merkle_specs,
                   read_src, {}, {})
        # BEGIN P10: the provided method `FiniteField::batch_inversion` over an ABSTRACT field: `Self` is the opaque type `D`,
        # `Self::zero()`, `Self::one()`, `*` (and `*=`, checked below to be `*self = *self * rhs` in both implementations),
        # `is_zero()`, `inverse()` (with its panic flag) are parameters
        X["field"] = True
        try:
            tr_rel = "twenty-first/src/math/traits.rs"
            xfe_rel = "twenty-first/src/math/x_field_element.rs"
            pat = r"impl\s+MulAssign(?:<{T}>)?\s+for\s+{T}\s*\{{\s*(?:#\[inline\]\s*)?fn\s+mul_assign\(&mut\s+self,\s*rhs:\s*Self\)\s*\{{\s*\*self\s*=\s*\*self\s*\*\s*rhs\s*;\s*\}}\s*\}}"
            mul_assign_ok = bool(re.search(pat.format(T="BFieldElement"), bfe)) and \
                bool(re.search(pat.format(T="XFieldElement"), read_src(xfe_rel) or ""))
            FP = [("f_zero", "digest"), ("f_one", "digest"), ("f_mul", "hfun"), ("f_is_zero", "pfun"), ("f_inverse", "ufun"),
                  ("f_inverse_ok", "pfun"), ("d0", "digest")]
            field_specs = [
                dict(lname="ff_batch_inversion", rname="batch_inversion", rel=tr_rel, after=r"pub trait FiniteField", pre=FP,
                     self_ty="digest", free=True),
            ]
            if not mul_assign_ok:
                status["failed"]["fn ff_batch_inversion"] = "bt4: a MulAssign impl is not `*self = *self * rhs`"
                field_specs = []
            run_group4(status, changed, "FieldLoops", tr_rel, ["TF.Model.RustIter"], pre, field_specs, read_src, {}, {})
        finally:
            X["field"] = False
        # END P10
    finally:
        X["opaque"] = False
        CTX["sigs"] = saved_sigs
# END BT4
