#!/usr/bin/env python3
"""rs2lean_lattice.py -- the loops of twenty-first/src/math/lattice.rs regenerated from source (property C18).

Built on rs2lean_ext.py / rs2lean_loops.py; everything here is additive.  Output: lean/TF/Gen/LatticeLoops.lean.
Anything outside the subset is REFUSED (`Unsupported`, recorded in TF/Gen/status.json), never guessed.

Two translation modes:

  "field"   `coset_ntt_noswap_64`, `coset_intt_noswap_64`.  The field operations are a PARAMETER record
            `ops : TF.Model.Ntt.Ops σ α` exactly as in the NTT group of rs2lean_ext.py.  The elements of the `&mut [BFieldElement; 64]`
            parameter are `α`, the table entries / `N_INV` (every `BFieldElement::new(<u64 literal>)`, every local declared
            `BFieldElement`) are `σ`; `BFieldElement::new(<literal>)` = `ops.sofNat <literal>`, `u + v` = `ops.add`, `u - v` =
            `ops.sub`, `x * zeta` / `*a *= N_INV` (right operand a scalar) = `ops.scale`.  The Rust code is the instance
            σ = α = BFieldElement; the generated definitions are more general, the bridge theorems hold for every `ops`.
  "canon"   everything else (`embed_msg`, `extract_msg`, `CyclotomicRingElement::{hadamard, add, sub, mul}`).  A `BFieldElement`
            is its canonical value (a `Nat`); `BFieldElement::new(e)` = `e % P` (P = the regenerated `TF.Gen.P`), `x.value()` = `x`
            (values of this type are canonical: an input list is to be read as a list of canonical values),
            `BFieldElement::ZERO` = 0, `a + b` / `a - b` / `a * b` = `TF.Spec.fadd` / `fsub` / `fmul` (the canonical-value
            semantics of the operators, which C01 proves for the Montgomery representation).  A call
            `coset_ntt_noswap_64(&mut v);` is the generated field-mode function at `TF.Model.Ntt.bOps`.

Additional syntax (all with `_ok` twin contributions: index in range, no overflow of plain `+ - * <<`, shift amount in range):

  * `const NAME: T = e;` inside a function body (a `let`; refused when NAME is mentioned earlier in the same block, because a
    const item is visible in the whole block)
  * array literals `[e, e, ..]` of scalars; `BFieldElement::new(<literal>)`
  * the newtype struct `CyclotomicRingElement { coefficients: [BFieldElement; 64] }`: a value of the struct is its array;
    `x.coefficients`, `x.coefficients[i]`, the literal `CyclotomicRingElement { coefficients: e }` / `{ coefficients }`
  * `for (ctr, pair) in <array>.chunks(<k literal>).enumerate() { .. pair[<c literal>] .. }`: an index loop over
    `ctr in 0..ceil(len / k)`, `pair[c]` = `array[k * ctr + c]` (in range exactly when the chunk has more than `c` elements)
  * `(a..b).map(|i| e).collect_vec().try_into().unwrap()` as the value of the struct field (`List.map` over `List.range'`;
    `_ok`: `e` does not panic for any `i` and the number of elements is the array length of the field)
  * `f(&mut v);` for `f` one of the two coset functions
  * integer inference fallback: an integer variable whose type no use determines is an `i32` as in rustc.  Only non-negative
    `i32` values are representable: literals, `+`, `*` (twin: result < 2^31) and the use as a shift amount are accepted,
    every other operation on such a value is refused.  (Where the twin is false the value is unspecified.)

Sensitivity experiments (`tools/mutcheck.sh twenty-first/src/math/lattice.rs '<sed>' C18`, on a mutated COPY of the file), all
reported as VIOLATION with the broken bridge lemmas of TF/Proofs/GenBridgeLattice.lean and a concrete failing op:
  `powers_of_psi_bitreversed[m + i]` -> `[m + i + 1]`   ntt_for2_eq; `lat rmul ..`: implementation panics (index 64), GEN-MISMATCH ok=false
  `powers_of_psi_bitreversed[m + i]` -> `[i]`           ntt_for2_eq, ntt_stage_eq, ntt_loop_step; `lat rmul ..` differs from the schoolbook product
  `array[j + t] = (u - v) * zeta` -> `(v - u) * zeta`   intt_for3_eq; `lat rmul ..` differs from the schoolbook product
  `15 + 16 * j` -> `14 + 16 * j` (embed_msg)            embed_byte_table; `lat kem ..`: decapsulation of an honest ciphertext fails
  `(1 << 14)` -> `(1 << 13)` (extract_msg)              ext_for2_step, ext_for3_step (+ _ok_step); `lat extract ..` differs from the model
"""
import hashlib
import os
import re

import rs2lean_ext as X
import rs2lean_loops as L
from rs2lean import INT_TYPES, Unsupported, balanced, find_fn, p2
from rs2lean_loops import (DEFAULT_FUEL, assigned_outer, expr_names, is_ivar, paren, stmts_names, tokenize, walk_stmts)

STRUCT = "CyclotomicRingElement"
FIELD = "coefficients"
COSET_FNS = ("coset_ntt_noswap_64", "coset_intt_noswap_64")


def subst_pair_index(e, pair, base, ctr, k):
    """replace `pair[<literal c>]` by the node ("chunkidx", base, ctr, k, c) everywhere in an AST"""
    if isinstance(e, tuple):
        if len(e) == 3 and e[0] == "index" and e[1] == ("path", [pair]):
            ix = e[2]
            if not (ix[0] == "lit" and ix[2] in (None, "usize")):
                raise Unsupported("index of a chunk that is not a literal")
            if ix[1] >= k:
                raise Unsupported("index of a chunk beyond the chunk size (always panics)")
            return ("chunkidx", base, ("path", [ctr]), k, ix[1])
        return tuple(subst_pair_index(x, pair, base, ctr, k) for x in e)
    if isinstance(e, list):
        return [subst_pair_index(x, pair, base, ctr, k) for x in e]
    return e


# --------------------------------------------------------------------------------------------------------
# parser
# --------------------------------------------------------------------------------------------------------

class LatParser(X.XParser):
    def __init__(self, toks):
        X.XParser.__init__(self, toks)
        self.const_sites = {}       # site -> name of a `const` declared there

    def parse_primary(self):
        k, v = self.peek()
        if k == "id" and v == STRUCT and self.peek(1) == ("op", "{"):
            self.next()
            self.next()
            kk, f = self.next()
            if (kk, f) != ("id", FIELD):
                raise Unsupported(f"field {f!r} in a {STRUCT} literal")
            e = self.parse_expr() if self.accept(":") else ("path", [FIELD])
            self.accept(",")
            self.expect("}")
            return ("structlit", e)
        if k == "op" and v == "(":
            # `(a..b)` as the receiver of an adaptor chain
            save = self.i
            self.next()
            try:
                lo = self.parse_expr(len(self.BIN) - 2)
                if self.accept(".."):
                    hi = self.parse_expr(len(self.BIN) - 2)
                    self.expect(")")
                    return ("range", lo, hi)
            except Unsupported:
                pass
            self.i = save
        return X.XParser.parse_primary(self)

    def parse_stmt_hook(self, k, v, label, site):
        if k == "id" and v == "const":
            self.next()
            kk, name = self.next()
            if kk != "id":
                raise Unsupported("const pattern")
            self.expect(":")
            ty = self.parse_type()
            self.expect("=")
            e = self.parse_expr()
            self.expect(";")
            self.const_sites[site] = name
            return ("let", ("pid", name), ty, e, site)
        if k == "id" and v in COSET_FNS and self.peek(1) == ("op", "(") and label is None:
            # `f(&mut v);`
            self.next()
            self.next()
            if not (self.accept("&") and self.accept("mut")):
                raise Unsupported(f"argument of {v} that is not `&mut <variable>`")
            kk, var = self.next()
            if kk != "id":
                raise Unsupported(f"argument of {v} that is not `&mut <variable>`")
            self.expect(")")
            self.expect(";")
            return ("callstmt", ("call", [v], [("path", [var])]), [("path", [var])])
        if k == "id" and v == "for" and self.peek(1) == ("op", "("):
            # for (ctr, pair) in <array>.chunks(k).enumerate() { .. }
            self.next()
            self.next()
            k1, ctr = self.next()
            self.expect(",")
            k2, pair = self.next()
            self.expect(")")
            self.expect("in")
            if k1 != "id" or k2 != "id" or ctr == pair or "_" in (ctr, pair):
                raise Unsupported("for pattern")
            it = self.parse_expr()
            if not (it[0] == "mcall" and it[2] == "enumerate" and not it[3] and it[1][0] == "mcall"
                    and it[1][2] == "chunks" and len(it[1][3]) == 1):
                raise Unsupported("for with a tuple pattern over anything but `<array>.chunks(k).enumerate()`")
            kk = it[1][3][0]
            if not (kk[0] == "lit" and kk[2] in (None, "usize") and kk[1] >= 1):
                raise Unsupported("chunk size that is not a positive literal")
            base = it[1][1]
            b = base[1] if base[0] == "fieldn" and base[2] == FIELD else base
            if not (b[0] == "path" and len(b[1]) == 1):
                raise Unsupported("chunks() of something that is not an array variable")
            arr = b[1][0]
            body = self.parse_block()
            self.accept(";")
            for nme in (ctr, pair, arr):
                if X.binds_name(body, nme):
                    raise Unsupported("chunks loop whose body re-binds the counter, the chunk or the array")
            asg = assigned_outer(body, ())
            if arr in asg or pair in asg or ctr in asg:
                raise Unsupported("chunks loop whose body assigns the counter, the chunk or the array")
            body2 = subst_pair_index(body, pair, base, ctr, kk[1])
            if pair in stmts_names(body2, set()):
                raise Unsupported("use of a chunk other than `chunk[<literal>]`")
            return ("for", label, ctr, ("lit", 0, "usize"), ("chunkcount", base, kk[1]), False, False, body2, site)
        return X.XParser.parse_stmt_hook(self, k, v, label, site)


# --------------------------------------------------------------------------------------------------------
# expression emitter
# --------------------------------------------------------------------------------------------------------

class LatEmitter(X.XEmitter):
    ARRAY_FIELDS = (FIELD,)
    CANON_OPS = {"+": "TF.Spec.fadd", "-": "TF.Spec.fsub", "*": "TF.Spec.fmul"}

    def __init__(self, consts, fns, pfns, self_name, mode, struct_len=None):
        X.XEmitter.__init__(self, consts, fns, pfns, self_name, None, field_mode=(mode == "field"))
        self.canon = mode == "canon"
        self.struct_len = struct_len
        self.reserved |= {"P"}

    def elem(self):
        return "cbfe" if self.canon else "ff"

    # ---- types
    def tyname(self, ty):
        if ty[0] == "named" and ty[1] == STRUCT:
            if not self.canon:
                raise Unsupported(f"type {STRUCT} in field-generic code")
            return ("array", "cbfe")
        if self.canon and ty[0] == "named" and ty[1] == "BFieldElement":
            return "cbfe"
        return X.XEmitter.tyname(self, ty)

    def unify(self, a, b, what=""):
        ra, rb = self.resolve(a), self.resolve(b)
        if "i32" in (ra, rb):
            o = rb if ra == "i32" else ra
            if o == "i32" or o == "int?" or o is None:
                return "i32"
            if is_ivar(o):
                self.bind[o[1]] = "i32"
                self.new_binding = True
                return "i32"
            raise Unsupported(f"type mismatch {what}: i32 vs {o}")
        return X.XEmitter.unify(self, a, b, what)

    def width(self, ty):
        if self.resolve(ty) == "i32":
            return 31       # only non-negative values are representable
        return X.XEmitter.width(self, ty)

    # ---- expressions
    def emit(self, e, env, exp=None):
        k = e[0]
        exp = self.resolve(exp)
        if k == "lit" and not e[2] and exp == "i32":
            if e[1] >= 2 ** 31:
                raise Unsupported("literal out of range")
            return str(e[1]), "i32", None
        if k == "structlit":
            if not self.canon:
                raise Unsupported(f"{STRUCT} literal in field-generic code")
            want = ("array", "cbfe")
            if e[1][0] == "mcall":
                r = self.emit_collect(e[1], env)
                if r is not None:
                    return r
            t, ty, ok = self.emit(e[1], env, want)
            self.unify(ty, want, f"field of the {STRUCT} literal")
            return t, want, ok
        if k == "range":
            raise Unsupported("range expression outside `(a..b).map(|i| e).collect_vec().try_into().unwrap()`")
        if k == "chunkidx":
            _, base, ctr, kk, c = e
            t, ety, _ = self.array_base(base, env)
            i, ity, _ = self.emit(ctr, env, "usize")
            self.unify(ity, "usize", "chunk counter")
            ix = f"{kk} * {i} + {c}"
            # `chunks(k)`: chunk number `ctr` has more than `c` elements iff `k * ctr + c < len`
            return f"({t}.getD ({ix}) {self.dflt(ety)})", ety, f"decide ({ix} < {t}.length)"
        if k == "chunkcount":
            _, base, kk = e
            t, ety, _ = self.array_base(base, env)
            # number of chunks = ceil(len / k); a slice is at most isize::MAX long, so nothing overflows
            return f"(({t}.length + {kk - 1}) / {kk})", "usize", None
        if k == "path" and self.canon and e[1] == ["BFieldElement", "ZERO"]:
            return "0", "cbfe", None
        if k == "call" and len(e[1]) == 2 and e[1][0] == STRUCT:
            if not (self.canon and e[1][1] == "zero" and not e[2] and self.fns.get("zero")):
                raise Unsupported(f"call {e[1]}")
            ln = self.fns["zero"][0]
            return ln, ("array", "cbfe"), f"{ln}_ok"
        if k == "call" and e[1] == ["BFieldElement", "new"]:
            if len(e[2]) != 1:
                raise Unsupported("arity of BFieldElement::new")
            a = e[2][0]
            if self.field_mode:
                if not (a[0] == "lit" and a[2] in (None, "u64") and a[1] < 2 ** 64):
                    raise Unsupported("BFieldElement::new of a non-literal in field-generic code")
                return f"(ops.sofNat {a[1]})", "bfe", None
            if self.canon:
                self.check_no_partial(a)
                t, ty, ok = self.emit(a, env, "u64")
                self.unify(ty, "u64", "argument of BFieldElement::new")
                return f"({t} % P)", "cbfe", ok
        if k == "arraylit":
            if not e[1]:
                raise Unsupported("empty array literal")
            inner = exp[1] if isinstance(exp, tuple) and exp[0] == "array" else None
            parts = []
            for x in e[1]:
                self.check_no_partial(x)
                t, ty, ok = self.emit(x, env, inner)
                inner = self.unify(inner, ty, "array literal items")
                parts.append((t, ok))
            r = self.resolve(inner)
            if not (r in INT_TYPES or r in ("bfe", "cbfe", "ff", "int?", "i32") or is_ivar(r)):
                raise Unsupported(f"array literal of {r}")
            return "[" + ", ".join(p[0] for p in parts) + "]", ("array", inner), self.conj(*[p[1] for p in parts])
        return X.XEmitter.emit(self, e, env, exp)

    def emit_collect(self, e, env):
        """`(a..b).map(|i| body).collect_vec().try_into().unwrap()` as the value of the struct field; None = another shape"""
        if not (e[2] == "unwrap" and not e[3] and e[1][0] == "mcall" and e[1][2] == "try_into" and not e[1][3]):
            return None
        c = e[1][1]
        if not (c[0] == "mcall" and c[2] == "collect_vec" and not c[3] and c[1][0] == "mcall" and c[1][2] == "map"
                and len(c[1][3]) == 1 and c[1][1][0] == "range"):
            raise Unsupported("try_into().unwrap() of anything but `(a..b).map(|i| e).collect_vec()`")
        clo = c[1][3][0]
        if not (clo[0] == "closure" and len(clo[1]) == 1):
            raise Unsupported("argument of map that is not a one-parameter closure")
        if self.struct_len is None:
            raise Unsupported("array length of the struct field unknown")
        _, lo, hi = c[1][1]
        self.check_no_partial(lo)
        self.check_no_partial(hi)
        if lo[0] == "lit" and not lo[2]:
            ht, hty, hok = self.emit(hi, env, "usize" if hi[0] == "lit" and not hi[2] else None)
            lt, lty, lok = self.emit(lo, env, hty)
        else:
            lt, lty, lok = self.emit(lo, env, None)
            ht, hty, hok = self.emit(hi, env, lty)
        # the closure parameter indexes arrays, so the range is over usize (anything else is refused by the index rule)
        self.unify(self.unify(lty, hty, "range bounds"), "usize", "range bounds")
        pn = clo[1][0]
        env2 = dict(env)
        env2.pop(pn, None)
        ln = self.fresh(pn, env2)
        env2[pn] = (ln, "usize")
        self.check_no_partial(clo[2])
        b, bty, bok = self.emit(clo[2], env2, "cbfe")
        self.unify(bty, "cbfe", "element produced by the closure")
        rng = f"(List.range' {paren(lt)} ({ht} - {lt}))"
        ok = self.conj(lok, hok, f"({rng}.all fun {ln} => {bok})" if bok else None,
                       f"decide ({ht} - {lt} = {self.struct_len})")
        return f"({rng}.map fun {ln} => {b})", ("array", "cbfe"), ok

    def emit_xmcall(self, e, env, exp):
        _, recv, name, args = e
        if self.canon and name == "value" and not args:
            a, aty, aok = self.emit(recv, env, None)
            if self.resolve(aty) != "cbfe":
                raise Unsupported("value() of something that is not a BFieldElement")
            return a, "u64", aok
        if name in ("map", "collect_vec", "chunks", "enumerate"):
            raise Unsupported(f"iterator adaptor {name} outside the accepted shapes")
        return X.XEmitter.emit_xmcall(self, e, env, exp)

    def probe(self, x, env):
        """type of an operand emitted without a hint (None when that is refused); leaves the `dirty` flag alone"""
        saved = self.dirty
        try:
            return self.resolve(self.emit(x, env, None)[1])
        except Unsupported:
            return None
        finally:
            self.dirty = saved

    def emit_bin(self, e, env, exp):
        _, op, l, r = e
        unsuffixed = lambda x: x[0] == "lit" and not x[2]
        if op in ("<<", ">>"):
            a, aty, aok = self.emit(l, env, exp)
            if self.resolve(aty) == "i32":
                raise Unsupported("shift of an i32 value")
            b, bty, bok = self.emit(r, env, "u32" if r[0] == "lit" else None)
            rb = self.resolve(bty)
            if not (rb in INT_TYPES or is_ivar(rb) or rb == "int?" or rb == "i32"):
                raise Unsupported("shift amount type")
            if r[0] != "lit" and (rb == "int?" or is_ivar(rb)):
                self.dirty = True
            w = self.width(aty)
            rng = None
            if r[0] == "lit":
                if r[1] >= w:
                    if self.dirty:
                        return f"({a})", aty, self.conj(aok, bok)
                    raise Unsupported("constant shift out of range")
                pw = str(2 ** r[1])
            else:
                rng = f"decide ({b} < {w})"
                pw = f"2 ^ ({b} % {w})"      # release semantics: the shift amount is masked
            if op == ">>":
                return f"({a} / {pw})", aty, self.conj(aok, bok, rng)
            return f"({a} * {pw} % {p2(w)})", aty, self.conj(aok, bok, rng)
        if self.canon and op in self.CANON_OPS and self.probe(l, env) == "cbfe":
            a, aty, aok = self.emit(l, env, None)
            if True:
                b, bty, bok = self.emit(r, env, "cbfe")
                if self.resolve(bty) != "cbfe":
                    raise Unsupported(f"operator {op}: BFieldElement vs {bty}")
                return f"({self.CANON_OPS[op]} {paren(a)} {paren(b)})", "cbfe", self.conj(aok, bok)
        if self.field_mode and op in ("+", "-", "*") and l[0] == "bin":
            # `(u - v) * zeta`: the rules of rs2lean_ext.py for a left operand that is itself an operation
            aty = self.probe(l, env)
            if aty in ("ff", "bfe"):
                a, _, aok = self.emit(l, env, None)
                b, bty, bok = self.emit(r, env, None)
                bty = self.resolve(bty)
                ok = self.conj(aok, bok)
                if aty == "ff" and bty == "ff" and op == "+":
                    return f"(ops.add {paren(a)} {paren(b)})", "ff", ok
                if aty == "ff" and bty == "ff" and op == "-":
                    return f"(ops.sub {paren(a)} {paren(b)})", "ff", ok
                if aty == "ff" and bty == "bfe" and op == "*":
                    return f"(ops.scale {paren(b)} {paren(a)})", "ff", ok
                if aty == "bfe" and bty == "bfe" and op == "*":
                    return f"(ops.smul {paren(a)} {paren(b)})", "bfe", ok
                raise Unsupported(f"operator {op} on field elements ({aty}, {bty})")
        if op in ("+", "-", "*") and l[0] == "bin" and l[1] in ("<<", ">>") and unsuffixed(l[2]) and not unsuffixed(r):
            # `(1 << 16) - chunk`: the literal's type comes from the other operand
            b, bty, bok = self.emit(r, env, exp)
            bty = self.resolve(bty)
            if bty in INT_TYPES:
                a, aty, aok = self.emit(l, env, bty)
                ty = self.unify(aty, bty, f"operands of {op}")
                w = self.width(ty)
                if op == "+":
                    return f"(({a} + {b}) % {p2(w)})", ty, self.conj(aok, bok, f"decide ({a} + {b} < {p2(w)})")
                if op == "-":
                    return f"(({a} + {p2(w)} - {b}) % {p2(w)})", ty, self.conj(aok, bok, f"decide ({b} ≤ {a})")
                return f"(({a} * {b}) % {p2(w)})", ty, self.conj(aok, bok, f"decide ({a} * {b} < {p2(w)})")
        t, ty, ok = X.XEmitter.emit_bin(self, e, env, exp)
        if self.resolve(ty) == "i32" and op not in ("+", "*"):
            raise Unsupported(f"operator {op} on an i32 value")
        if ty == "bool" and op not in ("&&", "||"):
            for x in (l, r):
                if self.probe(x, env) == "i32":
                    raise Unsupported(f"operator {op} on an i32 value")
        return t, ty, ok


# --------------------------------------------------------------------------------------------------------
# statements
# --------------------------------------------------------------------------------------------------------

class LatFnTranslator(X.XFnTranslator):
    def __init__(self, *a, mode="canon", struct_len=None, **kw):
        X.XFnTranslator.__init__(self, *a, methods=None, field_mode=(mode == "field"), **kw)
        em = LatEmitter({}, self.em.fns, self.em.pfns, self.rust_name, mode, struct_len)
        em.self_ty_override = self.self_ty
        self.em = em
        self.mode = mode

    def check_consts(self, stmts, const_sites):
        """a `const` item is visible in its whole block: refuse when its name occurs before the declaration"""
        def block(sts):
            seen = set()
            for st in sts:
                if st[0] == "let" and st[4] in const_sites:
                    if st[1][1] in seen:
                        raise Unsupported(f"const {st[1][1]} used before its declaration")
                    if st[3] is None:
                        raise Unsupported("const without a value")
                stmts_names([st], seen)
                if st[0] == "let":
                    pat = st[1]
                    for n in ([pat[1]] if pat[0] == "pid" else pat[1]):
                        seen.add(n)
                k = st[0]
                if k == "if":
                    block(st[2])
                    if st[3]:
                        block(st[3])
                elif k == "letelse":
                    block(st[3])
                elif k == "while":
                    block(st[3])
                elif k == "loop":
                    block(st[2])
                elif k == "for":
                    block(st[7])
        block(stmts)

    def site_type(self, vty, site):
        r = X.XFnTranslator.site_type(self, vty, site)
        if is_ivar(r) or (isinstance(r, tuple) and r and r[0] == "vec" and is_ivar(r[1])):
            self.int_sites.add(site)
        return r

    def sites(self):
        """sites of integer variables: `let x = <integer of undetermined type>` (recorded by site_type) and `for` loops"""
        out = []

        def f(st, _):
            if st[0] == "let" and st[1][0] == "pid" and st[4] in self.int_sites:
                out.append(st[4])
            if st[0] == "for":
                out.append(st[8])
        walk_stmts(self.stmts, f)
        return out

    def translate(self):
        ps = LatParser(tokenize(self.src))
        stmts = ps.parse_stmts("")
        if ps.peek()[0] != "eof":
            raise Unsupported(f"trailing tokens {ps.peek()}")
        self.check_consts(stmts, ps.const_sites)
        self.stmts = stmts
        flags = {"loop": False}

        def scan(st, _):
            if st[0] in ("while", "loop"):
                flags["loop"] = True
        walk_stmts(stmts, scan)
        names = stmts_names(stmts, set())
        self.recursive = ("call:" + self.rust_name) in names
        if self.recursive:
            raise Unsupported("recursion (lattice subset)")
        calls_partial = any(("call:" + n) in names for n in self.em.pfns)
        self.partial = flags["loop"] or calls_partial
        self.rty = self.em.tyname(self.ret_ast) if self.ret_ast is not None else ("tuple", [])
        self.em.ret_hint = self.rty
        self.returns_self = False
        if self.mut_self:
            raise Unsupported("`&mut self` (lattice subset)")
        if self.mut_param is not None:
            if self.ret_ast is not None:
                raise Unsupported("`&mut` parameter in a function that also returns a value")
            self.rty = dict(self.params)[self.mut_param]
        fell_back = False
        self.int_sites = set()
        for attempt in range(16):
            self.em.new_binding = False
            self.em.dirty = False
            self.defs = []
            self.loop_counter = 0
            text = self.run_pass()
            if not self.em.new_binding:
                if self.em.dirty:
                    # rustc's integer fallback: every integer variable no use has determined is an i32
                    todo = [s for s in self.sites() if is_ivar(self.em.resolve(("ivar", s)))]
                    if fell_back or not todo:
                        raise Unsupported("an integer literal's type could not be determined")
                    for s in todo:
                        self.em.bind[s] = "i32"
                    fell_back = True
                    continue
                return text
        raise Unsupported("type inference did not converge")

    def free_in(self, parts, env):
        # the record of field operations is an implicit parameter of every loop
        return L.FnTranslator.free_in(self, parts, env) | {"ops"}

    def seq(self, stmts, i, env, k, ctl):
        em = self.em
        if i < len(stmts) and stmts[i][0] == "callstmt":
            _, call, outs = stmts[i]
            var = outs[0][1][0]
            fname = call[1][0]
            if not em.canon:
                raise Unsupported(f"call of {fname} in field-generic code")
            if var not in env or env[var][0] is None:
                raise Unsupported(f"unknown variable {var}")
            ln, vty = env[var][0], em.resolve(env[var][1])
            if vty != ("array", "cbfe"):
                raise Unsupported(f"argument of {fname} is not an array of BFieldElement")
            if fname in em.pfns:
                lname, is_partial = em.pfns[fname][0], True
            elif fname in em.fns and em.fns[fname] is not None:
                lname, is_partial = em.fns[fname][0], False
            else:
                raise Unsupported(f"call of {fname}, which was not translated")
            callt = f"{lname} TF.Model.Ntt.bOps {ln}"
            callok = f"({lname}_ok TF.Model.Ntt.bOps {ln})"
            env2 = dict(env)
            env2[var] = (ln, vty)
            bt, bok = self.seq(stmts, i + 1, env2, k, ctl)
            if is_partial:
                return self.match_option(callt, callok, ln, bt, bok)
            return self.let_(ln, callt, bt), self.let_ok(ln, callt, callok, bok)
        return X.XFnTranslator.seq(self, stmts, i, env, k, ctl)


# --------------------------------------------------------------------------------------------------------
# driver
# --------------------------------------------------------------------------------------------------------

def parse_params_lat(text, em, self_ty):
    """[(name, type)], name of the `&mut [T; n]` parameter (or None)"""
    out = []
    mut_param = None
    ps = LatParser(tokenize(text))
    while ps.peek()[0] != "eof":
        amp = ps.accept("&")
        mut = ps.accept("mut")
        k, n = ps.next()
        if k != "id":
            raise Unsupported(f"parameter {n!r}")
        if n == "self":
            if self_ty is None or amp or mut:
                raise Unsupported("self parameter")
            out.append(("self", self_ty))
        else:
            if amp:
                raise Unsupported("parameter pattern")
            ps.expect(":")
            is_ref = ps.peek()[1] == "&"
            is_mut_ref = is_ref and ps.peek(1) == ("id", "mut")
            ty = em.tyname(ps.parse_type())
            if em.field_mode:
                ok = is_mut_ref and ty == ("array", "bfe") and mut_param is None
                ty = ("array", "ff")        # the elements of the array are the `α` of the operation record
            else:
                ok = not is_ref and (ty == ("array", "cbfe") or (isinstance(ty, tuple) and ty[0] == "array" and ty[1] in INT_TYPES))
            if not ok:
                raise Unsupported(f"parameter type {ty}")
            if is_mut_ref:
                mut_param = n
            out.append((n, ty))
        if not ps.accept(","):
            break
    if ps.peek()[0] != "eof":
        raise Unsupported("parameter list")
    return out, mut_param


def struct_len(src):
    """array length of `CyclotomicRingElement::coefficients` (a literal or a `const NAME: usize = <literal>`)"""
    m = re.search(r"struct\s+" + STRUCT + r"\s*\{", src)
    if not m:
        return None
    body = src[m.end():balanced(src, m.end() - 1) - 1]
    m2 = re.search(FIELD + r"\s*:\s*\[\s*BFieldElement\s*;\s*([A-Za-z0-9_]+)\s*\]", body)
    if not m2:
        return None
    tok = m2.group(1)
    if re.fullmatch(r"[0-9_]+", tok):
        return int(tok.replace("_", ""))
    m3 = re.search(r"const\s+" + tok + r"\s*:\s*usize\s*=\s*([0-9_]+)\s*;", src)
    return int(m3.group(1).replace("_", "")) if m3 else None


def translate_fn_lat(src, rust_name, lname, rel, fns, pfns, mode, fuel=DEFAULT_FUEL, after=None, is_method=False):
    """returns (lean text, [(param name, type)], result type, partial?)"""
    params_text, ret_text, body = find_fn(src, rust_name, after)
    slen = struct_len(src)
    probe = LatEmitter({}, fns, pfns, rust_name, mode, slen)
    self_ty = ("array", "cbfe") if mode == "canon" else None
    probe.self_ty_override = self_ty
    params, mut_param = parse_params_lat(params_text, probe, self_ty)
    if mode == "field":
        params = [("ops", "opsrec")] + params
    ret_ast = None
    if ret_text.strip():
        ps = LatParser(tokenize(ret_text.strip()))
        ret_ast = ps.parse_type()
        if ret_ast == ("named", "Output") and ps.peek()[1] == "::":
            raise Unsupported("return type")
        if ps.peek()[0] != "eof":
            raise Unsupported("return type")
    tr = LatFnTranslator(lname, rust_name, params, ret_ast, body, {}, fns, pfns, fuel, rel, self_ty, False,
                         mut_param=mut_param, mode=mode, struct_len=slen)
    text = tr.translate()
    return text, params, tr.em.resolve(tr.rty), tr.partial


LATTICE_FUNCTIONS = [
    # (lean name, rust name, anchor, mode, fuel of `while` loops, method of the struct?)
    # `while m < N { .. m *= 2 }` with m = 1, N = 64: 7 evaluations of the loop head
    ("lat_coset_ntt_noswap_64", "coset_ntt_noswap_64", None, "field", 8, False),
    ("lat_coset_intt_noswap_64", "coset_intt_noswap_64", None, "field", DEFAULT_FUEL, False),
    ("lat_embed_msg", "embed_msg", None, "canon", DEFAULT_FUEL, False),
    ("lat_extract_msg", "extract_msg", None, "canon", DEFAULT_FUEL, False),
    ("lat_ring_zero", "zero", r"impl Zero for CyclotomicRingElement", "canon", DEFAULT_FUEL, False),
    ("lat_ring_hadamard", "hadamard", r"impl CyclotomicRingElement \{", "canon", DEFAULT_FUEL, False),
    ("lat_ring_add", "add", r"impl Add for CyclotomicRingElement", "canon", DEFAULT_FUEL, True),
    ("lat_ring_sub", "sub", r"impl Sub for CyclotomicRingElement", "canon", DEFAULT_FUEL, True),
    ("lat_ring_mul", "mul", r"impl Mul for CyclotomicRingElement", "canon", DEFAULT_FUEL, True),
]


def run(status, changed, read_src):
    """called at the end of rs2lean_ext.run"""
    rel = "twenty-first/src/math/lattice.rs"
    src = read_src(rel)
    if src is None:
        for ln, *_ in LATTICE_FUNCTIONS:
            status["failed"][f"fn {ln}"] = "lattice: source file not readable"
        return
    cut = src.find("#[cfg(test)]")
    if cut >= 0:
        src = src[:cut]
    tfns, pfns = {}, {}
    texts = []
    for ln, rn, anchor, mode, fuel, is_method in LATTICE_FUNCTIONS:
        try:
            text, params, rty, partial = translate_fn_lat(src, rn, ln, rel, tfns, pfns, mode, fuel, anchor, is_method)
        except Exception as ex:
            X.refuse(status, ln, ex)
            continue
        texts.append(text)
        if rn in COSET_FNS or rn == "zero":
            (pfns if partial else tfns)[rn] = (ln, [t for _, t in params], rty)
        X.record(status, ln, rel, text, fuel)
    X.emit_file(changed, "LatticeLoops", rel, ["TF.Model.Ntt"], ["variable {σ α : Type}\n"], texts)
