#!/usr/bin/env python3
"""smtsearch.py -- failing-input search for translated functions (support for DESIGN §5.3, never a proof).

For every translated function whose current SMT translation (lean/TF/Gen/smt/<f>.smt2) differs textually from the
pinned reference (tools/ref_smt/<f>.smt2, produced from the tree on which the Lean theorems were proved) z3 is asked
for an input, inside the function's documented domain, on which the two differ.  Each hit is turned into protocol op
lines which the caller replays on the real implementation (harness oracles) and on the model.

  smtsearch.py --update-ref       pin the current translations as reference (run only on a verified tree)
  smtsearch.py f1 f2 ...          print op lines for witnesses (one per line), functions equal to the reference are skipped
"""
import os
import re
import shutil
import subprocess
import sys

VERIF = os.path.normpath(os.path.join(os.path.dirname(os.path.abspath(__file__)), ".."))
CUR = os.path.join(VERIF, "lean", "TF", "Gen", "smt")
REF = os.path.join(VERIF, "tools", "ref_smt")
P = 18446744069414584321


def bv(v, w):
    return f"(_ bv{v} {w})"


# function -> (params [(name, width)], domain constraint, [op line templates using {name}], number of results)
SPECS = {
    "montyred": ([("x", 128)], f"(bvult x {bv(P << 64, 128)})", ["bfe montyred {x}"], 1),
    "bfe_new": ([("v", 64)], "true", ["bfe new {v}"], 1),
    "bfe_value": ([("r", 64)], f"(bvult r {bv(P, 64)})", ["bfe value {r}"], 1),
    "bfe_add": ([("a", 64), ("b", 64)], f"(and (bvult a {bv(P, 64)}) (bvult b {bv(P, 64)}))", ["bfe add {a} {b}"], 1),
    "bfe_sub": ([("a", 64), ("b", 64)], f"(and (bvult a {bv(P, 64)}) (bvult b {bv(P, 64)}))", ["bfe sub {a} {b}"], 1),
    "bfe_mul": ([("a", 64), ("b", 64)], f"(and (bvult a {bv(P, 64)}) (bvult b {bv(P, 64)}))", ["bfe mul {a} {b}"], 1),
    "mod_reduce": ([("x", 128)], "true", ["bfe from_u128 {x}"], 1),
    "offset_fermat_cube_map": ([("x", 16)], f"(bvult x {bv(256, 16)})", ["tip5 cubemap {x}"], 1),
    "mds_recombine": ([("lo", 64), ("hi", 64)], "true", ["tip5 mdsrec {lo} {hi}"], 1),
    "left_child": ([("n", 64), ("h", 32)], f"(and (bvult h {bv(64, 32)}) (bvuge n (bvshl {bv(1, 64)} ((_ zero_extend 32) h))))", ["mmri left_child {n} {h}"], 1),
    "right_child": ([("n", 64)], f"(bvuge n {bv(1, 64)})", ["mmri right_child {n}"], 1),
    "leaf_index_to_mt_index_and_peak_index": ([("i", 64), ("n", 64)], f"(and (bvult i n) (bvult n {bv(1 << 63, 64)}))",
                                              ["mmri leaf_index_to_mt_index_and_peak_index {i} {n}"], 2),
    "right_lineage_length_from_leaf_index": ([("i", 64)], f"(bvult i {bv(1 << 63, 64)})", ["mmri right_lineage_length_from_leaf_index {i}"], 1),
    "leftmost_ancestor": ([("n", 64)], f"(bvuge n {bv(1, 64)})", ["mmri leftmost_ancestor {n}"], 2),
    "leaf_index_to_node_index": ([("i", 64)], f"(bvult i {bv(1 << 63, 64)})", ["mmri leaf_index_to_node_index {i}"], 1),
    "left_sibling": ([("n", 64), ("h", 32)], f"(and (bvult h {bv(63, 32)}) (bvuge n (bvshl {bv(1, 64)} ((_ zero_extend 32) (bvadd h {bv(1, 32)})))))", ["mmri left_sibling {n} {h}"], 1),
    "right_sibling": ([("n", 64), ("h", 32)], f"(and (bvult h {bv(62, 32)}) (bvult n {bv(1 << 63, 64)}))", ["mmri right_sibling {n} {h}"], 1),
    "num_leafs_to_num_nodes": ([("n", 64)], f"(bvult n {bv(1 << 63, 64)})", ["mmri num_leafs_to_num_nodes {n}"], 1),
}


def read(p):
    with open(p) as f:
        return f.read()


def rename_ref(text):
    names = re.findall(r"\(define-fun (\S+) ", text)
    for n in sorted(set(names), key=len, reverse=True):
        text = re.sub(r"(?<=[( ])" + re.escape(n) + r"(?=[ )])", n + "_REF", text)
    return text


def search(fn, timeout=60):
    cur_p, ref_p = os.path.join(CUR, fn + ".smt2"), os.path.join(REF, fn + ".smt2")
    if fn not in SPECS or not os.path.exists(cur_p) or not os.path.exists(ref_p):
        return None, "no-spec-or-files"
    cur, ref = read(cur_p), read(ref_p)
    if cur == ref:
        return None, "equal"
    params, dom, templates, nres = SPECS[fn]
    # the emitted functions use the Rust parameter names; call them positionally
    q = rename_ref(ref) + cur
    for n, w in params:
        q += f"(declare-const {n} (_ BitVec {w}))\n"
    args = " ".join(n for n, _ in params)
    if nres == 1:
        diff = f"(not (= ({fn} {args}) ({fn}_REF {args})))"
    else:
        diff = "(or " + " ".join(f"(not (= ({fn}__{i} {args}) ({fn}_REF__{i} {args})))" for i in range(nres)) + ")"
    q += f"(assert {dom})\n(assert {diff})\n(check-sat)\n(get-model)\n"
    z3 = shutil.which("z3-new") or shutil.which("z3")
    try:
        p = subprocess.run([z3, "-in", f"-T:{timeout}"], input=q, stdout=subprocess.PIPE, stderr=subprocess.PIPE, text=True,
                           timeout=timeout + 20)
    except subprocess.TimeoutExpired:
        return None, "timeout"
    out = p.stdout
    if out.startswith("unsat"):
        return None, "equivalent"
    if not out.startswith("sat"):
        return None, "unknown: " + out[:200].replace("\n", " ")
    vals = {}
    for n, w in params:
        m = re.search(r"\(define-fun " + re.escape(n) + r" \(\) \(_ BitVec \d+\)\s+#([xb])([0-9a-fA-F]+)\)", out)
        if m:
            vals[n] = int(m.group(2), 16 if m.group(1) == "x" else 2)
        else:
            vals[n] = 0
    return [t.format(**vals) for t in templates], "sat"


def main():
    if "--update-ref" in sys.argv:
        os.makedirs(REF, exist_ok=True)
        for fn in os.listdir(CUR):
            shutil.copy(os.path.join(CUR, fn), os.path.join(REF, fn))
        print("reference updated:", len(os.listdir(REF)), "functions")
        return 0
    for fn in sys.argv[1:]:
        ops, why = search(fn)
        print(f"# {fn}: {why}", file=sys.stderr)
        for o in ops or []:
            print(o)
    return 0


if __name__ == "__main__":
    sys.exit(main())
