#!/usr/bin/env python3
"""rs2lean_ext.py -- second extension of the translator (on top of rs2lean_loops.py); everything here is additive.

Additional subset (anything else is still REFUSED and recorded in TF/Gen/status.json, never guessed):

  newtype-over-array structs (`U32s<N>`)
      * calls of methods translated earlier: `a.get_bit(i)` (expression), `a.mul_two();` / `a.set_bit(i, v);` (`&mut self`
        methods as statements: the receiver variable is re-bound), `Self::zero()`, `U32s::zero()`, `U32s::from(e)`
        (overload chosen by the argument type); the const generic `N` is passed along
      * operators on two struct *variables*: `a - b`, `a + b` (the translated `Sub`/`Add`), `a >= b`, `>`, `<=`, `<`
        (the provided methods of `PartialOrd`, i.e. through the translated `partial_cmp`)
  std
      * `x.values.iter()`, `.rev()`, `it.cmp(it2)` (`Iterator::cmp` = TF.RustStd.iter_cmp), `it.all(|x| e)` (closure with
        one untyped parameter and an expression body that cannot panic), `std::cmp::Ordering` as a result type
      * `Result<T, E>` as `Except String T` (`Err(Path::To::Variant)` keeps the variant's name), `Ok(e)`
      * `match n { <int literal> [if guard] => e, .., _ => e }` on an integer (if-chain; a guard is evaluated only when its
        pattern matches)
      * `BigUint` as an unbounded `Nat`: `BigUint::from(int)`, `BigUint::new(vec![<literal u32 digits>])`, `.clone()`, `%`, `/`
        (panic on zero), `+`, `*`, `e.try_into().unwrap()` to an integer type (`_ok` twin: the value fits)
      * slices `&mut [T]` (the function returns the final slice), `x.len()`, `x.swap(a, b)` (TF.RustStd.swap),
        `for _ in a..b`, `for e in x.iter_mut() { .. }` (desugared to an index loop over `x`)
  code generic over the field (`FF: FiniteField + MulAssign<BFieldElement>`, ntt.rs)
      * the field operations are PARAMETERS: every generated definition takes `(ops : TF.Model.Ntt.Ops σ α)`;
        `u + v` = `ops.add u v`, `u - v` = `ops.sub u v`, `v *= w` (w : BFieldElement) = `ops.scale w v`, `w *= w_m`
        (both BFieldElement) = `ops.smul w w_m`, `BFieldElement::ONE/ZERO`, `omega.mod_pow_u32(e)` = `ops.spow omega e`,
        `omega.inverse()` = `ops.sinv` (panic on `none`), `BFieldElement::primitive_root_of_unity(n).unwrap()` = the
        parameter `root` (panic on `none`)
"""
import hashlib
import os

import rs2lean_loops as L
from rs2lean import HEADER, INT_TYPES, OUT, NatEmitter, Unsupported, find_fn, p2, write_if_changed
from rs2lean_loops import (DEFAULT_FUEL, FnTranslator, LoopEmitter, LParser, is_ivar, paren, tokenize, walk_stmts,
                           stmts_names, assigned_outer)

# --------------------------------------------------------------------------------------------------------
# types: "ordering", "biguint", "bfe" (BFieldElement in field-generic code), "ff" (the generic element type),
#        "opsrec" / "rootfn" (the records of field operations passed as parameters), ("result", T), ("iter", T)
# --------------------------------------------------------------------------------------------------------

_orig_lean_ty = L.lean_ty


def lean_ty(ty):
    if ty == "ordering":
        return "Ordering"
    if ty == "biguint":
        return "Nat"
    if ty == "bfe":
        return "σ"
    if ty == "ff":
        return "α"
    if ty == "opsrec":
        return "TF.Model.Ntt.Ops σ α"
    if ty == "rootfn":
        return "Nat → Option σ"
    if isinstance(ty, tuple) and ty and ty[0] == "result":
        return "Except String " + L.lean_ty_atom(ty[1])
    if isinstance(ty, tuple) and ty and ty[0] == "iter":
        return "List " + L.lean_ty_atom(ty[1])
    return _orig_lean_ty(ty)


L.lean_ty = lean_ty     # superset of the original (the original cases are delegated)


def subst(e, name, repl):
    """replace the variable `name` (a single-segment path) by the expression `repl` everywhere in an AST"""
    if isinstance(e, tuple):
        if len(e) == 2 and e[0] == "path" and e[1] == [name]:
            return repl
        return tuple(subst(x, name, repl) for x in e)
    if isinstance(e, list):
        return [subst(x, name, repl) for x in e]
    return e


def binds_name(stmts, name):
    """does a `let`/`for` inside `stmts` bind `name` (then substitution would capture)?"""
    fl = {"b": False}

    def f(st, _):
        if st[0] == "let":
            pat = st[1]
            if name in ([pat[1]] if pat[0] == "pid" else pat[1]):
                fl["b"] = True
        if st[0] == "letelse" and st[1] == name:
            fl["b"] = True
        if st[0] == "for" and st[2] == name:
            fl["b"] = True
    walk_stmts(stmts, f)
    return fl["b"]


# --------------------------------------------------------------------------------------------------------
# parser
# --------------------------------------------------------------------------------------------------------

class XParser(LParser):
    def parse_type(self):
        if self.peek() == ("id", "Result") and self.peek(1)[1] == "<":
            self.next()
            self.expect("<")
            a = self.parse_type()
            self.expect(",")
            b = self.parse_type()
            if self.peek()[1] == ">>":
                self.t[self.i] = ("op", ">")
            else:
                self.expect(">")
            return ("generic2", "Result", a, b)
        return LParser.parse_type(self)

    def parse_primary(self):
        k, v = self.peek()
        if k == "op" and v == "|":
            self.next()
            names = []
            while not self.accept("|"):
                self.accept("&")
                self.accept("mut")
                kk, n = self.next()
                if kk != "id":
                    raise Unsupported("closure parameter pattern")
                if self.peek()[1] == ":":
                    raise Unsupported("typed closure parameter")
                names.append(n)
                self.accept(",")
            if self.peek()[1] == "{":
                raise Unsupported("closure with a block body")
            return ("closure", names, self.parse_expr())
        if k == "id" and v == "match":
            self.next()
            scrut = self.parse_expr()
            self.expect("{")
            arms = []
            while not self.accept("}"):
                kk, vv = self.peek()
                if kk == "num":
                    pat = self.parse_primary()
                elif kk == "id" and vv == "_":
                    self.next()
                    pat = ("pwild",)
                else:
                    raise Unsupported(f"match pattern {vv!r}")
                if self.peek()[1] == "|":
                    raise Unsupported("or-pattern")
                guard = None
                if self.accept("if"):
                    guard = self.parse_expr()
                self.expect("=>")
                body = self.parse_expr()
                if not self.accept(",") and self.peek()[1] != "}":
                    raise Unsupported("match arm")
                arms.append((pat, guard, body))
            return ("match", scrut, arms)
        return LParser.parse_primary(self)

    def parse_stmt_hook(self, k, v, label, site):
        """`for _ in ..` and `for e in x.iter_mut()`; returns a statement or None (= not handled here)"""
        if not (k == "id" and v == "for"):
            return None
        if self.peek(1) == ("id", "_"):
            self.t[self.i + 1] = ("id", "it_")       # an unused loop variable needs a name in Lean
            return None
        # for e in <path>.iter_mut() { .. }
        if self.peek(1)[0] == "id" and self.peek(2)[1] == "in" and self.peek(3)[0] == "id" \
                and self.peek(4)[1] == "." and self.peek(5) == ("id", "iter_mut"):
            save = self.i
            self.next()
            var = self.next()[1]
            self.next()
            arr = self.next()[1]
            self.next()
            self.next()
            if not (self.accept("(") and self.accept(")")):
                self.i = save
                return None
            body = self.parse_block()
            self.accept(";")
            idx = "ix_" + var
            if binds_name(body, var) or binds_name(body, idx) or binds_name(body, arr):
                raise Unsupported("iter_mut loop whose body re-binds the element or the slice")
            if arr in assigned_outer([s for s in body if s[0] != "assign"] , ()) :
                raise Unsupported("iter_mut loop whose body assigns the slice itself")
            for st in body:
                if st[0] == "assign" and st[1] == ("path", [arr]):
                    raise Unsupported("iter_mut loop whose body assigns the slice itself")
            body2 = subst(body, var, ("index", ("path", [arr]), ("path", [idx])))
            return ("for", label, idx, ("lit", 0, "usize"), ("mcall", ("path", [arr]), "len", []), False, False, body2, site)
        return None


# --------------------------------------------------------------------------------------------------------
# expression emitter
# --------------------------------------------------------------------------------------------------------

class XEmitter(LoopEmitter):
    def __init__(self, consts, fns, pfns, self_name, methods=None, field_mode=False):
        LoopEmitter.__init__(self, consts, fns, pfns, self_name)
        self.methods = methods or {}         # rust method name -> [entry]
        self.field_mode = field_mode
        for entries in self.methods.values():
            for en in entries:
                self.reserved.add(en["lname"])
        self.reserved |= {"σ", "α"}

    # ---- types
    def tyname(self, ty):
        if ty[0] == "named" and ty[1] == "Ordering":
            return "ordering"
        if ty[0] == "named" and ty[1] == "BigUint":
            return "biguint"
        if self.field_mode and ty[0] == "named" and ty[1] == "BFieldElement":
            return "bfe"
        if self.field_mode and ty[0] == "named" and ty[1] == "FF":
            return "ff"
        if ty[0] == "generic2":
            return ("result", self.tyname(ty[2]))      # the error is rendered as the name of its variant
        return LoopEmitter.tyname(self, ty)

    def resolve(self, t):
        t = LoopEmitter.resolve(self, t)
        if isinstance(t, tuple) and t and t[0] in ("result", "iter"):
            return (t[0], self.resolve(t[1]))
        return t

    def unify(self, a, b, what=""):
        a, b = self.resolve(a), self.resolve(b)
        if isinstance(a, tuple) and isinstance(b, tuple) and a and b and a[0] == b[0] and a[0] in ("result", "iter"):
            return (a[0], self.unify(a[1], b[1], what))
        return LoopEmitter.unify(self, a, b, what)

    def is_struct(self, ty):
        return self.self_ty_override is not None and self.resolve(ty) == self.self_ty_override

    def gen_args(self, env):
        """the const generic of the impl, passed to every translated method"""
        return [env["N"][0]] if "N" in env else []

    def find_method(self, name, has_self, argtys=None):
        cands = [en for en in self.methods.get(name, []) if en["has_self"] == has_self]
        if argtys is not None:
            cands = [en for en in cands if len(en["ptys"]) == len(argtys)
                     and all(self.resolve(a) == p or self.resolve(a) == "int?" or is_ivar(self.resolve(a))
                             for a, p in zip(argtys, en["ptys"]))]
        if len(cands) != 1:
            raise Unsupported(f"method {name}" + ("" if not cands else " (ambiguous)"))
        return cands[0]

    def call_method(self, en, recv, args, env):
        """(term, type, ok) of a call of a translated method; recv = (term, ok) or None"""
        if en["partial"]:
            raise Unsupported(f"call of {en['lname']} (may not terminate within its fuel) inside an expression")
        ptys = en["ptys"]
        if len(ptys) != len(args):
            raise Unsupported(f"arity of {en['lname']}")
        parts = []
        for x, t in zip(args, ptys):
            self.check_no_partial(x)
            tt, ty, ok = self.emit(x, env, t)
            self.unify(ty, t, f"argument of {en['lname']}")
            parts.append((tt, ok))
        head = self.gen_args(env) + ([paren(recv[0])] if recv else []) + [paren(p[0]) for p in parts]
        argstr = " ".join(head)
        oks = ([recv[1]] if recv else []) + [p[1] for p in parts]
        return f"({en['lname']} {argstr})".replace(" )", ")"), en["rty"], \
            self.conj(*oks, f"({en['lname']}_ok {argstr})".replace(" )", ")"))

    def dflt(self, ety):
        ety = self.resolve(ety)
        if ety == "ff":
            return "ops.zero"
        if ety == "bfe":
            return "ops.szero"
        return "0"

    # ---- expressions
    def emit(self, e, env, exp=None):
        k = e[0]
        exp = self.resolve(exp)
        if k == "closure":
            raise Unsupported("closure outside `.all(..)`")
        if k == "match":
            return self.emit_match(e, env, exp)
        if k == "path" and self.field_mode and e[1] in (["BFieldElement", "ONE"], ["BFieldElement", "ZERO"]):
            return ("ops.sone" if e[1][1] == "ONE" else "ops.szero"), "bfe", None
        if k == "index":
            t, ety, _ = self.array_base(e[1], env)
            if self.resolve(ety) in ("ff", "bfe"):
                self.check_no_partial(e[2])
                i, ity, iok = self.emit(e[2], env, "usize")
                self.unify(ity, "usize", "array index")
                return f"({t}.getD {paren(i)} {self.dflt(ety)})", ety, self.conj(iok, f"decide ({i} < {t}.length)")
        if k == "call":
            path = e[1]
            if path == ["Err"] and len(e[2]) == 1:
                a = e[2][0]
                if not (a[0] == "path" and len(a[1]) >= 2 and a[1][-1][:1].isupper()):
                    raise Unsupported("Err(..) of something that is not an enum variant path")
                inner = exp[1] if isinstance(exp, tuple) and exp[0] == "result" else None
                hint = getattr(self, "ret_hint", None)
                if inner is None and isinstance(hint, tuple) and hint[0] == "result":
                    inner = hint[1]      # as rustc infers it from the use as the function's value; Lean re-checks the type
                if inner is None:
                    raise Unsupported("Err(..) whose Ok type is undetermined")
                return f"(Except.error \"{a[1][-1]}\" : {lean_ty(('result', inner))})", ("result", inner), None
            if path == ["Ok"] and len(e[2]) == 1:
                inner = exp[1] if isinstance(exp, tuple) and exp[0] == "result" else None
                t, ty, ok = self.emit(e[2][0], env, inner)
                return f"(Except.ok {paren(t)})", ("result", ty), ok
            if path == ["BigUint", "from"] and len(e[2]) == 1:
                t, ty, ok = self.emit(e[2][0], env, None)
                if self.resolve(ty) not in INT_TYPES:
                    raise Unsupported("BigUint::from of a non-integer")
                return t, "biguint", ok
            if path == ["BigUint", "new"] and len(e[2]) == 1:
                a = e[2][0]
                if not (a[0] == "veclit" and all(x[0] == "lit" and not x[2] and x[1] < 2 ** 32 for x in a[1])):
                    raise Unsupported("BigUint::new of anything but vec![<u32 literals>]")
                return str(sum(x[1] * 2 ** (32 * i) for i, x in enumerate(a[1]))), "biguint", None
            if len(path) == 2 and self.self_ty_override is not None and path[1] != "new" \
                    and path[0] in ("Self",) + tuple(LParser.STRUCT_ARRAYS) and path[1] in self.methods:
                argtys = []
                for x in e[2]:
                    self.check_no_partial(x)
                    argtys.append(self.emit(x, env, None)[1])
                en = self.find_method(path[1], False, argtys)
                return self.call_method(en, None, e[2], env)
        if k == "mcall" and e[1][0] != "lit":
            r = self.emit_xmcall(e, env, exp)
            if r is not None:
                return r
        return LoopEmitter.emit(self, e, env, exp)

    def emit_match(self, e, env, exp):
        _, scrut, arms = e
        self.check_no_partial(scrut)
        s, sty, sok = self.emit(scrut, env, None)
        sty = self.resolve(sty)
        if not (sty in INT_TYPES):
            raise Unsupported("match on a non-integer")
        if not arms or arms[-1][0] != ("pwild",) or arms[-1][1] is not None:
            raise Unsupported("match whose last arm is not an unguarded `_`")
        rty = exp
        emitted = []
        for pat, guard, body in arms:
            if pat == ("pwild",):
                c = None
            else:
                if pat[2] not in (None, sty) or pat[1] >= 2 ** INT_TYPES[sty]:
                    raise Unsupported("match pattern literal")
                c = f"({s} == {pat[1]})"
            g = gok = None
            if guard is not None:
                self.check_no_partial(guard)
                g, gty, gok = self.emit(guard, env, "bool")
                if gty != "bool":
                    raise Unsupported("match guard")
            self.check_no_partial(body)
            t, ty, ok = self.emit(body, env, rty)
            rty = self.unify(rty, ty, "match arms")
            emitted.append((c, g, gok, t, ok))
        if any(c is None and i != len(emitted) - 1 for i, (c, _, _, _, _) in enumerate(emitted)):
            raise Unsupported("`_` arm that is not the last one")
        term = emitted[-1][3]
        okt = emitted[-1][4]
        for c, g, gok, t, ok in reversed(emitted[:-1]):
            cond = c if g is None else f"({c} && {g})"
            term = f"(if {cond} then {t} else {term})"
            if gok or ok or okt:
                # the guard is evaluated only when the pattern matches; the arm's value only when the guard holds too
                gpart = f"(if {c} then {paren(gok)} else true)" if gok else None
                okt = self.conj(gpart, f"(if {cond} then {paren(ok or 'true')} else {paren(okt or 'true')})")
        return term, rty, self.conj(sok, okt)

    def emit_xmcall(self, e, env, exp):
        """method calls of the extended subset; None = not ours"""
        _, recv, name, args = e
        # unwrap of a conversion / of an external partial function
        if name == "unwrap" and not args and recv[0] == "mcall" and recv[2] == "try_into" and not recv[3]:
            a, aty, aok = self.emit(recv[1], env, None)
            aty = self.resolve(aty)
            if exp not in INT_TYPES:
                cur = getattr(self, "cur_let", None)
                if exp is None and cur is not None and cur[0] is e:
                    # `let x = e.try_into().unwrap();`: the target type is the type variable of the let site; it must
                    # be determined by a later use (another pass is forced; refused if it never is)
                    self.dirty = True
                    return a, ("ivar", cur[1]), aok
                raise Unsupported("try_into().unwrap() with undetermined target type")
            if aty == "biguint" or aty in INT_TYPES:
                if aty in INT_TYPES and INT_TYPES[aty] <= INT_TYPES[exp] and not (aty == "usize" or exp == "usize"):
                    return a, exp, aok
                return a, exp, self.conj(aok, f"decide ({a} < {p2(INT_TYPES[exp])})")
            raise Unsupported(f"try_into of {aty}")
        if name == "unwrap" and not args and recv[0] == "call" and self.field_mode \
                and recv[1] == ["BFieldElement", "primitive_root_of_unity"] and len(recv[2]) == 1:
            if "root" not in env:
                raise Unsupported("primitive_root_of_unity without a `root` parameter")
            a, aty, aok = self.emit(recv[2][0], env, "u64")
            self.unify(aty, "u64", "argument of primitive_root_of_unity")
            return f"((root {paren(a)}).getD ops.szero)", "bfe", self.conj(aok, f"(root {paren(a)}).isSome")
        if name in ("unwrap", "try_into", "expect"):
            raise Unsupported(f"method {name}")
        try:
            a, aty, aok = self.emit(recv, env, None)
        except Unsupported:
            return None
        aty = self.resolve(aty)
        # translated methods of the struct (receiver must be a variable declared with the struct type: `x.values` is the
        # raw array, on which nothing is defined)
        if self.is_struct(aty) and name in self.methods and recv[0] == "path":
            en = self.find_method(name, True)
            if en["mut_self"]:
                raise Unsupported(f"`&mut self` method {name} inside an expression")
            return self.call_method(en, (a, aok), args, env)
        if isinstance(aty, tuple) and aty[0] == "array":
            if name == "iter" and not args:
                return a, ("iter", aty[1]), aok
            if name == "len" and not args:
                return f"{a}.length", "usize", aok
        if isinstance(aty, tuple) and aty[0] == "iter":
            if name == "rev" and not args:
                return f"{paren(a)}.reverse", aty, aok
            if name == "cmp" and len(args) == 1:
                if aty[1] not in INT_TYPES:
                    raise Unsupported("Iterator::cmp over non-integers")
                b, bty, bok = self.emit(args[0], env, aty)
                self.unify(aty, bty, "Iterator::cmp")
                return f"(TF.RustStd.iter_cmp {paren(a)} {paren(b)})", "ordering", self.conj(aok, bok)
            if name == "all" and len(args) == 1 and args[0][0] == "closure" and len(args[0][1]) == 1:
                pn = args[0][1][0]
                env2 = dict(env)
                env2.pop(pn, None)
                ln = self.fresh(pn, env2)
                env2[pn] = (ln, aty[1])
                self.check_no_partial(args[0][2])
                c, cty, cok = self.emit(args[0][2], env2, "bool")
                if cty != "bool":
                    raise Unsupported("closure of `all` is not a predicate")
                if cok:
                    raise Unsupported("closure of `all` that can panic")
                return f"({paren(a)}.all fun {ln} => {c})", "bool", aok
            raise Unsupported(f"iterator method {name}")
        if aty == "biguint" and name == "clone" and not args:
            return a, aty, aok
        if self.field_mode and aty == "bfe":
            if name == "mod_pow_u32" and len(args) == 1:
                b, bty, bok = self.emit(args[0], env, "u32")
                self.unify(bty, "u32", "argument of mod_pow_u32")
                return f"(ops.spow {paren(a)} {paren(b)})", "bfe", self.conj(aok, bok)
            if name == "inverse" and not args:
                return f"((ops.sinv {paren(a)}).getD ops.szero)", "bfe", self.conj(aok, f"(ops.sinv {paren(a)}).isSome")
            raise Unsupported(f"method {name} on a BFieldElement")
        return None

    STRUCT_OPS = {"-": "sub", "+": "add", "*": "mul"}
    ORD_OPS = {">=": "ord_ge", ">": "ord_gt", "<=": "ord_le", "<": "ord_lt"}

    def emit_bin(self, e, env, exp):
        _, op, l, r = e
        if op in ("<", ">", "<=", ">=", "==", "!=") and l[0] == "bin" and l[1] in ("<<", ">>") \
                and l[2][0] == "lit" and not l[2][2]:
            b, bty, bok = self.emit(r, env, None)
            bty = self.resolve(bty)
            if bty in INT_TYPES:
                a, aty, aok = self.emit(l, env, bty)
                self.unify(aty, bty, f"comparison {op}")
                sym = {"==": "==", "!=": "!="}.get(op)
                if sym:
                    return f"({a} {sym} {b})", "bool", self.conj(aok, bok)
                sym = {"<": "<", ">": ">", "<=": "≤", ">=": "≥"}[op]
                return f"(decide ({a} {sym} {b}))", "bool", self.conj(aok, bok)
        if op not in ("&&", "||", "<<", ">>") and l[0] in ("path", "mcall", "index", "call"):
            try:
                a, aty, aok = self.emit(l, env, None)
                aty = self.resolve(aty)
            except Unsupported:
                aty = None
            if self.is_struct(aty) and (op in self.STRUCT_OPS or op in self.ORD_OPS):
                if not (l[0] == "path" and r[0] == "path"):
                    raise Unsupported(f"operator {op} on struct values that are not variables")
                b, bty, bok = self.emit(r, env, aty)
                if not self.is_struct(bty):
                    raise Unsupported(f"operator {op}: struct vs {bty}")
                if op in self.STRUCT_OPS:
                    en = self.find_method(self.STRUCT_OPS[op], True)
                    return self.call_method(en, (a, aok), [r], env)
                en = self.find_method("partial_cmp", True)
                t, ty, ok = self.call_method(en, (a, aok), [r], env)
                if ty != ("option", "ordering"):
                    raise Unsupported("partial_cmp result type")
                return f"(TF.RustStd.{self.ORD_OPS[op]} {t})", "bool", ok
            if aty == "biguint":
                b, bty, bok = self.emit(r, env, "biguint")
                if self.resolve(bty) != "biguint":
                    raise Unsupported(f"operator {op}: BigUint vs {bty}")
                if op in ("/", "%"):
                    return f"({a} {op} {b})", "biguint", self.conj(aok, bok, f"({b} != 0)")
                if op in ("+", "*"):
                    return f"({a} {op} {b})", "biguint", self.conj(aok, bok)
                raise Unsupported(f"operator {op} on BigUint")
            if self.field_mode and aty in ("ff", "bfe"):
                b, bty, bok = self.emit(r, env, None)
                bty = self.resolve(bty)
                ok = self.conj(aok, bok)
                if aty == "ff" and bty == "ff" and op == "+":
                    return f"(ops.add {paren(a)} {paren(b)})", "ff", ok
                if aty == "ff" and bty == "ff" and op == "-":
                    return f"(ops.sub {paren(a)} {paren(b)})", "ff", ok
                if aty == "ff" and bty == "bfe" and op == "*":
                    return f"(ops.scale {paren(b)} {paren(a)})", "ff", ok
                if aty == "bfe" and bty == "bfe" and op == "*":
                    return f"(ops.smul {paren(a)} {paren(b)})", "bfe", ok
                raise Unsupported(f"operator {op} on field elements ({aty}, {bty})")
        return LoopEmitter.emit_bin(self, e, env, exp)


# --------------------------------------------------------------------------------------------------------
# statements
# --------------------------------------------------------------------------------------------------------

class XFnTranslator(FnTranslator):
    def __init__(self, *a, methods=None, field_mode=False, mut_param=None, **kw):
        FnTranslator.__init__(self, *a, **kw)
        em = XEmitter({}, self.em.fns, self.em.pfns, self.rust_name, methods, field_mode)
        em.consts = self.em.consts
        em.self_ty_override = self.self_ty
        self.em = em
        self.mut_param = mut_param

    def translate(self):
        """as FnTranslator.translate, with the extended parser and `&mut [T]` parameters"""
        ps = XParser(tokenize(self.src))
        stmts = ps.parse_stmts("")
        if ps.peek()[0] != "eof":
            raise Unsupported(f"trailing tokens {ps.peek()}")
        self.stmts = stmts
        flags = {"loop": False}

        def scan(st, _):
            if st[0] in ("while", "loop"):
                flags["loop"] = True
        walk_stmts(stmts, scan)
        names = stmts_names(stmts, set())
        self.recursive = ("call:" + self.rust_name) in names
        if self.recursive:
            raise Unsupported("recursion (extended subset)")
        calls_partial = any(("call:" + n) in names for n in self.em.pfns)
        self.partial = flags["loop"] or calls_partial
        self.rty = self.em.tyname(self.ret_ast) if self.ret_ast is not None else ("tuple", [])
        self.em.ret_hint = self.rty
        self.returns_self = False
        if self.ret_ast is None and self.mut_self:
            self.returns_self = True
            self.rty = dict(self.params)["self"]
        if self.mut_param is not None:
            if self.ret_ast is not None or self.mut_self:
                raise Unsupported("`&mut [T]` parameter in a function that also returns a value")
            self.rty = dict(self.params)[self.mut_param]
        for attempt in range(12):
            self.em.new_binding = False
            self.em.dirty = False
            self.defs = []
            self.loop_counter = 0
            text = self.run_pass()
            if not self.em.new_binding:
                if self.em.dirty:
                    raise Unsupported("an integer literal's type could not be determined (rustc would fall back to i32)")
                return text
        raise Unsupported("type inference did not converge")

    def fall_off_end(self, env):
        if self.mut_param is not None:
            return self.wrap(env[self.mut_param][0]), None
        return FnTranslator.fall_off_end(self, env)

    def ret_value(self, e, env):
        if self.mut_param is not None:
            raise Unsupported("value returned from a function with a `&mut [T]` parameter")
        return FnTranslator.ret_value(self, e, env)

    def free_in(self, parts, env):
        names = FnTranslator.free_in(self, parts, env)
        # implicit parameters: the const generic (passed to every translated method) and the field-operation records
        return names | {"N", "ops", "root"}

    def seq(self, stmts, i, env, k, ctl):
        em = self.em
        if i < len(stmts) and stmts[i][0] == "let" and stmts[i][1][0] == "pid" and stmts[i][2] is None \
                and stmts[i][3] is not None:
            em.cur_let = (stmts[i][3], stmts[i][4])
        if i < len(stmts) and stmts[i][0] == "mcallstmt":
            _, recv, mname, args = stmts[i][1]
            if recv[0] == "path" and len(recv[1]) == 1 and recv[1][0] in env and env[recv[1][0]][0] is not None:
                name = recv[1][0]
                ln, vty = env[name][0], em.resolve(env[name][1])
                if isinstance(vty, tuple) and vty[0] == "array":
                    v = ok = None
                    if mname == "swap" and len(args) == 2:
                        parts = []
                        for x in args:
                            em.check_no_partial(x)
                            t, ty, xok = em.emit(x, env, "usize")
                            em.unify(ty, "usize", "argument of swap")
                            parts.append((t, xok))
                        v = f"TF.RustStd.swap {ln} {paren(parts[0][0])} {paren(parts[1][0])}"
                        ok = self.conj(parts[0][1], parts[1][1], f"decide ({parts[0][0]} < {ln}.length)",
                                       f"decide ({parts[1][0]} < {ln}.length)")
                    elif em.is_struct(vty) and mname in em.methods:
                        en = em.find_method(mname, True)
                        if not en["mut_self"] or em.resolve(en["rty"]) != vty:
                            raise Unsupported(f"method {mname} used as a statement is not a `&mut self` method")
                        t, ty, ok = em.call_method(en, (ln, None), args, env)
                        v = t[1:-1] if t.startswith("(") and t.endswith(")") else t
                    if v is not None:
                        env2 = dict(env)
                        env2[name] = (ln, vty)
                        bt, bok = self.seq(stmts, i + 1, env2, k, ctl)
                        return self.let_(ln, v, bt), self.let_ok(ln, v, ok, bok)
        return FnTranslator.seq(self, stmts, i, env, k, ctl)


# --------------------------------------------------------------------------------------------------------
# driver
# --------------------------------------------------------------------------------------------------------

def parse_params_x(text, em, self_ty=None):
    """[(name, type)], mut_self?, name of the `&mut [T]` parameter (or None)"""
    out = []
    mut_self = False
    mut_param = None
    ps = XParser(tokenize(text))
    while ps.peek()[0] != "eof":
        amp = ps.accept("&")
        mut = ps.accept("mut")
        k, n = ps.next()
        if k != "id":
            raise Unsupported(f"parameter {n!r}")
        if n == "self":
            if self_ty is None:
                raise Unsupported("self parameter")
            mut_self = amp and mut
            out.append(("self", self_ty))
        else:
            if amp:
                raise Unsupported("parameter pattern")
            ps.expect(":")
            is_mut_ref = ps.peek()[1] == "&" and ps.peek(1) == ("id", "mut")
            ty = em.tyname(ps.parse_type())
            ok = ty in INT_TYPES or ty == "bool" or ty in ("biguint", "bfe") or (self_ty is not None and ty == self_ty) \
                or (isinstance(ty, tuple) and ty[0] == "array" and ty[1] in {"ff", "bfe"} | set(INT_TYPES))
            if not ok:
                raise Unsupported(f"parameter type {ty}")
            if is_mut_ref:
                if not (isinstance(ty, tuple) and ty[0] == "array") or mut_param is not None:
                    raise Unsupported("`&mut` parameter")
                mut_param = n
            out.append((n, ty))
        if not ps.accept(","):
            break
    if ps.peek()[0] != "eof":
        raise Unsupported("parameter list")
    return out, mut_self, mut_param


def translate_fn_x(src, rust_name, lname, rel, fns, pfns, methods, fuel=DEFAULT_FUEL, after=None, self_ty=None,
                   generic=None, field_mode=False, extra_params=()):
    """returns (lean text, [(param name, type)], result type, partial?, mut_self?)"""
    params_text, ret_text, body = find_fn(src, rust_name, after)
    probe = XEmitter({}, fns, pfns, rust_name, methods, field_mode)
    probe.self_ty_override = self_ty
    params, mut_self, mut_param = parse_params_x(params_text, probe, self_ty)
    pre = []
    if generic:
        pre.append((generic, "usize"))
    pre += list(extra_params)
    params = pre + params
    ret_ast = None
    if ret_text.strip():
        text = ret_text.strip()
        if field_mode and text.startswith("where"):
            text = ""
        elif field_mode and "where" in text:
            text = text[:text.index("where")].strip()
        if text:
            ps = XParser(tokenize(text))
            ret_ast = ps.parse_type()
            if ps.peek()[0] != "eof":
                raise Unsupported("return type")
    tr = XFnTranslator(lname, rust_name, params, ret_ast, body, {}, fns, pfns, fuel, rel, self_ty, mut_self,
                       methods=methods, field_mode=field_mode, mut_param=mut_param)
    text = tr.translate()
    return text, params, tr.em.resolve(tr.rty), tr.partial, mut_self


U32S_Z = r"impl<const N: usize> Zero for U32s<N>"
U32S2_FUNCTIONS = [
    # (lean name, rust name, anchor)
    ("u32s_zero", "zero", U32S_Z),
    ("u32s_is_zero", "is_zero", U32S_Z),
    ("u32s_one", "one", r"impl<const N: usize> One for U32s<N>"),
    ("u32s_cmp", "cmp", r"impl<const N: usize> Ord for U32s<N>"),
    ("u32s_partial_cmp", "partial_cmp", r"impl<const N: usize> PartialOrd for U32s<N>"),
    ("u32s_rem_div", "rem_div", L.U32S_IMPL),
    ("u32s_from_u32", "from", r"impl<const N: usize> From<u32> for U32s<N>"),
    ("u32s_from_biguint", "from", r"impl<const N: usize> From<BigUint> for U32s<N>"),
    ("u32s_try_from_u64", "try_from", r"impl<const N: usize> TryFrom<u64> for U32s<N>"),
    ("u32s_try_from_u128", "try_from", r"impl<const N: usize> TryFrom<u128> for U32s<N>"),
]


def register(methods, rname, lname, params, rty, partial, mut_self, generic):
    ps = [p for p in params if not (generic and p[0] == generic)]
    has_self = bool(ps) and ps[0][0] == "self"
    methods.setdefault(rname, []).append({"lname": lname, "ptys": [t for _, t in (ps[1:] if has_self else ps)],
                                          "rty": rty, "partial": partial, "mut_self": mut_self, "has_self": has_self})


def emit_file(changed, out_name, header_src, imports, preamble, texts):
    out = [HEADER.format(src=header_src).replace("rs2lean.py", "rs2lean.py (rs2lean_ext.py)")]
    out += [f"import {m}\n" for m in imports]
    out += ["set_option linter.unusedVariables false\n", "namespace TF.Gen.Loops\nopen TF.Gen\n"]
    out += preamble
    out += texts
    out.append("end TF.Gen.Loops\n")
    if write_if_changed(os.path.join(OUT, out_name + ".lean"), "\n".join(out)):
        changed.append(out_name)


def record(status, lname, rel, text, fuel):
    status["translated"][lname] = {"source": rel, "sha256": hashlib.sha256(text.encode()).hexdigest()[:16],
                                   "loops": True, "fuel": fuel, "ext": True}
    status.get("outside_subset", {}).pop(lname, None)


def refuse(status, lname, ex):
    if isinstance(ex, Unsupported):
        status["failed"][f"fn {lname}"] = "ext: " + str(ex)
    else:       # a translator crash is also a refusal, never a guess
        status["failed"][f"fn {lname}"] = f"ext: internal: {type(ex).__name__}: {ex}"


def run_u32s(status, changed, read_src):
    u_rel = "twenty-first/src/amount/u32s.rs"
    src = read_src(u_rel)
    arr = ("array", "u32")
    methods = {}
    if src is None:
        for ln, _, _ in U32S2_FUNCTIONS:
            status["failed"][f"fn {ln}"] = "ext: source file not readable"
        return
    # signatures of the functions already emitted into TF/Gen/U32sLoops.lean
    for ln, rn, anchor, fuel in L.U32S_FUNCTIONS:
        try:
            _, ptys, rty, partial = L.translate_fn(src, rn, ln, u_rel, {}, {}, {}, fuel, after=anchor, self_ty=arr, generic="N")
            ptext, _, _ = find_fn(src, rn, anchor)
            probe = LoopEmitter({}, {}, {}, rn)
            probe.self_ty_override = arr
            params, mut_self = L.parse_params(ptext, probe, arr)
            register(methods, rn, ln, params, rty, partial, mut_self, None)
        except Exception:
            pass        # already recorded as a refusal by rs2lean_loops; callers of it are refused below
    texts = []
    for ln, rn, anchor in U32S2_FUNCTIONS:
        try:
            text, params, rty, partial, mut_self = translate_fn_x(src, rn, ln, u_rel, {}, {}, methods, DEFAULT_FUEL,
                                                                  after=anchor, self_ty=arr, generic="N")
        except Exception as ex:
            refuse(status, ln, ex)
            continue
        texts.append(text)
        register(methods, rn, ln, params, rty, partial, mut_self, "N")
        record(status, ln, u_rel, text, DEFAULT_FUEL)
    emit_file(changed, "U32sLoops2", u_rel, ["TF.Gen.U32sLoops", "TF.Model.RustStd"], [], texts)


NTT_FUNCTIONS = [
    # (lean name, rust name, fuel of `while` loops, field-generic?, needs the root-of-unity parameter?)
    ("ntt_bitreverse", "bitreverse", DEFAULT_FUEL, False, False),
    ("ntt_bitreverse_usize", "bitreverse_usize", DEFAULT_FUEL, False, False),
    # `while (1 << logn) < len` runs at most 64 times; `while k < len { .. k += 2 * m }` at most len / 2 + 1 times
    ("ntt_bitreverse_order", "bitreverse_order", DEFAULT_FUEL, True, False),
    ("ntt_unchecked", "ntt_unchecked", "(x.length + 1)", True, False),
    ("intt_noswap", "intt_noswap", "(x.length + 65)", True, True),
]


def run_ntt(status, changed, read_src):
    rel = "twenty-first/src/math/ntt.rs"
    src = read_src(rel)
    if src is None:
        for ln, _, _, _, _ in NTT_FUNCTIONS:
            status["failed"][f"fn {ln}"] = "ext: source file not readable"
        return
    cut = src.find("#[cfg(test)]")
    if cut >= 0:
        src = src[:cut]
    tfns, pfns = {}, {}
    texts = []
    for ln, rn, fuel, generic, root in NTT_FUNCTIONS:
        extra = ([("ops", "opsrec")] if generic else []) + ([("root", "rootfn")] if root else [])
        try:
            text, params, rty, partial, _ = translate_fn_x(src, rn, ln, rel, tfns, pfns, {}, fuel, field_mode=True,
                                                           extra_params=extra)
        except Exception as ex:
            refuse(status, ln, ex)
            continue
        texts.append(text)
        if not generic:
            (pfns if partial else tfns)[rn] = (ln, [t for _, t in params], rty)
        record(status, ln, rel, text, fuel)
    emit_file(changed, "NttLoops", rel, ["TF.Model.Ntt", "TF.Model.RustStd"], ["variable {σ α : Type}\n"], texts)


# ========================================================================================================
# BEGIN P06 -- the remaining functions of ntt.rs: `ntt`, `intt` (wrappers), `ntt_noswap`, `unscale`
#
# Additional subset, field-generic code only (`field_mode`); everything else is still REFUSED:
#   * `f(x, a, ..);` as a statement, `f` a field-generic function translated earlier in the same file whose first..n-th
#     parameter is the `&mut [T]` slice: the slice variable is re-bound to the function's result (`Option.bind` when
#     `f` may run out of fuel); the records `ops` / `root` are passed along
#   * `u32::try_from(e).expect("..")` / `.unwrap()` (`_ok` twin: the value fits), `n.is_power_of_two()` (TF.isPow2),
#     `n.checked_ilog2().unwrap_or(<literal>)`
#   * `BFieldElement::new(e)` / `BFieldElement::from(e)` of an integer = `ops.sofNat e`, `b.inverse_or_zero()` = `ops.sinv0 b`
#   * `vec![<BFieldElement expr>; n]` = `List.replicate n e` (typed as a fixed-length array: `push` on it is refused)
#   * a unit-typed assignment as the last statement of a block without its `;`
#   * `for (i, z) in v.iter().enumerate().take(m) { .. }` on an array variable `v` that the body does not assign:
#     `for i in 0..min(m, v.len()) { let z = v[i]; .. }`
# ========================================================================================================

SLICE_FNS = {}      # rust name -> {"lname", "ptys" (source parameters only), "partial", "root", "mut_index"}

_XParser0, _XEmitter0, _XFnTranslator0 = XParser, XEmitter, XFnTranslator


class P06Parser(_XParser0):
    def expect(self, val):
        # `{ ..; *elem *= c }`: the last statement of a block may be a unit-typed assignment without `;` (it has the same
        # meaning with it); nothing else of a compiling Rust program reaches `expect(";")` in front of a `}`
        if val == ";" and self.peek() == ("op", "}"):
            return
        _XParser0.expect(self, val)

    def parse_primary(self):
        k, v = self.peek()
        if k == "str":
            self.next()
            return ("strlit", v)
        if k == "id" and v == "vec" and self.peek(1)[1] == "!" and self.peek(2)[1] == "[":
            save = self.i
            self.next(); self.next(); self.next()
            if self.peek()[1] != "]":
                item = self.parse_expr()
                if self.accept(";"):
                    cnt = self.parse_expr()
                    self.expect("]")
                    return ("vecrep", item, cnt)
            self.i = save
        return _XParser0.parse_primary(self)

    def parse_stmt_hook(self, k, v, label, site):
        if k == "id" and v in SLICE_FNS and self.peek(1)[1] == "(" and label is None:
            e = self.parse_expr()
            if not (e[0] == "call" and e[1] == [v]):
                raise Unsupported("expression statement")
            self.expect(";")
            info = SLICE_FNS[v]
            if len(e[2]) != len(info["ptys"]):
                raise Unsupported(f"arity of {v}")
            return ("callstmt", e, [e[2][info["mut_index"]]])
        # for (i, z) in v.iter().enumerate().take(m) { .. }
        if k == "id" and v == "for" and self.peek(1)[1] == "(":
            pat = [self.peek(j) for j in range(1, 15)]
            shape = [("op", "("), ("id", None), ("op", ","), ("id", None), ("op", ")"), ("id", "in"), ("id", None),
                     ("op", "."), ("id", "iter"), ("op", "("), ("op", ")"), ("op", "."), ("id", "enumerate"), ("op", "(")]
            if all(a[0] == b[0] and (b[1] is None or a[1] == b[1]) for a, b in zip(pat, shape)) \
                    and self.peek(15) == ("op", ")") and self.peek(16) == ("op", ".") and self.peek(17) == ("id", "take") \
                    and self.peek(18) == ("op", "("):
                ivar, zvar, arr = pat[1][1], pat[3][1], pat[6][1]
                for _ in range(19):
                    self.next()
                cnt = self.parse_expr()
                self.expect(")")
                if self.peek()[1] != "{":
                    raise Unsupported("iterator adaptor chain")
                body = self.parse_block()
                self.accept(";")
                if len({ivar, zvar, arr}) != 3 or "_" in (ivar, zvar):
                    raise Unsupported("enumerate pattern")
                if binds_name(body, ivar) or binds_name(body, zvar) or binds_name(body, arr):
                    raise Unsupported("enumerate loop whose body re-binds the pattern or the array")
                if arr in assigned_outer(body, ()) or zvar in assigned_outer(body, ()):
                    raise Unsupported("enumerate loop whose body assigns the array or the element")
                hi = ("p06min", cnt, ("mcall", ("path", [arr]), "len", []))
                let = ("let", ("pid", zvar), None, ("index", ("path", [arr]), ("path", [ivar])), (site, "z"))
                return ("for", label, ivar, ("lit", 0, "usize"), hi, False, False, [let] + body, site)
        return _XParser0.parse_stmt_hook(self, k, v, label, site)


class P06Emitter(_XEmitter0):
    def emit(self, e, env, exp=None):
        k = e[0]
        if k == "strlit":
            raise Unsupported("string literal")
        if not self.field_mode:
            return _XEmitter0.emit(self, e, env, exp)
        if k == "p06min":
            a, aty, aok = self.emit(e[1], env, "usize")
            b, bty, bok = self.emit(e[2], env, "usize")
            self.unify(aty, "usize", "take count")
            self.unify(bty, "usize", "take count")
            return f"(Nat.min {paren(a)} {paren(b)})", "usize", self.conj(aok, bok)
        if k == "vecrep":
            self.check_no_partial(e[1])
            self.check_no_partial(e[2])
            v, vty, vok = self.emit(e[1], env, "bfe")
            if self.resolve(vty) != "bfe":
                raise Unsupported("vec![x; n] of anything but BFieldElements")
            c, cty, cok = self.emit(e[2], env, "usize")
            self.unify(cty, "usize", "vec! length")
            return f"(List.replicate {paren(c)} {paren(v)})", ("array", "bfe"), self.conj(vok, cok)
        if k == "call" and e[1] in (["BFieldElement", "new"], ["BFieldElement", "from"]) and len(e[2]) == 1:
            self.check_no_partial(e[2][0])
            want = "u64" if e[1][1] == "new" else None
            a, aty, aok = self.emit(e[2][0], env, want)
            aty = self.resolve(aty)
            if e[1][1] == "new":
                self.unify(aty, "u64", "argument of BFieldElement::new")
            elif aty not in ("usize", "u64", "u32"):
                raise Unsupported(f"BFieldElement::from of {aty}")
            return f"(ops.sofNat {paren(a)})", "bfe", aok
        if k == "mcall":
            _, recv, name, args = e
            if name in ("expect", "unwrap") and recv[0] == "call" and recv[1] == ["u32", "try_from"] and len(recv[2]) == 1 \
                    and ((name == "unwrap" and not args) or (name == "expect" and len(args) == 1 and args[0][0] == "strlit")):
                self.check_no_partial(recv[2][0])
                a, aty, aok = self.emit(recv[2][0], env, None)
                aty = self.resolve(aty)
                if aty not in INT_TYPES or aty.startswith("i"):
                    raise Unsupported(f"u32::try_from of {aty}")
                return a, "u32", self.conj(aok, f"decide ({a} < {p2(32)})")
            if name == "is_power_of_two" and not args:
                self.check_no_partial(recv)
                a, aty, aok = self.emit(recv, env, None)
                aty = self.resolve(aty)
                if aty not in INT_TYPES or aty.startswith("i"):
                    raise Unsupported(f"is_power_of_two on {aty}")
                return f"(TF.isPow2 {paren(a)})", "bool", aok
            if name == "unwrap_or" and len(args) == 1 and args[0][0] == "lit" and recv[0] == "mcall" \
                    and recv[2] == "checked_ilog2" and not recv[3]:
                self.check_no_partial(recv[1])
                a, aty, aok = self.emit(recv[1], env, None)
                aty = self.resolve(aty)
                if aty not in INT_TYPES or aty.startswith("i"):
                    raise Unsupported(f"checked_ilog2 on {aty}")
                d, dty, _ = self.emit(args[0], env, "u32")
                self.unify(dty, "u32", "default of unwrap_or")
                return f"(if ({a} == 0) then {d} else Nat.log2 {paren(a)})", "u32", aok
            if name == "inverse_or_zero" and not args:
                try:
                    a, aty, aok = self.emit(recv, env, None)
                except Unsupported:
                    a = None
                if a is not None and self.resolve(aty) == "bfe":
                    return f"(ops.sinv0 {paren(a)})", "bfe", aok
        return _XEmitter0.emit(self, e, env, exp)


class P06FnTranslator(_XFnTranslator0):
    def seq(self, stmts, i, env, k, ctl):
        em = self.em
        if i < len(stmts) and stmts[i][0] == "callstmt":
            if not em.field_mode or ctl.loops:
                raise Unsupported("call statement (only at the top level of a field-generic function)")
            _, e, places = stmts[i]
            name = e[1][0]
            info = SLICE_FNS.get(name)
            if info is None or len(e[2]) != len(info["ptys"]):
                raise Unsupported(f"call statement {name}")
            if "ops" not in env or (info["root"] and "root" not in env):
                raise Unsupported(f"call of {name} without the operation records")
            target = places[0]
            if not (target[0] == "path" and len(target[1]) == 1 and target[1][0] in env and env[target[1][0]][0] is not None):
                raise Unsupported("`&mut` argument that is not a variable")
            tname = target[1][0]
            parts = []
            for j, (x, t) in enumerate(zip(e[2], info["ptys"])):
                em.check_no_partial(x)
                tt, ty, ok = em.emit(x, env, t)
                if em.resolve(em.unify(ty, t, f"argument of {name}")) != em.resolve(t):
                    raise Unsupported(f"argument type of {name}")
                parts.append((tt, ok))
            argstr = " ".join(["ops"] + (["root"] if info["root"] else []) + [paren(p[0]) for p in parts])
            call = f"{info['lname']} {argstr}"
            cok = self.conj(*[p[1] for p in parts], f"({info['lname']}_ok {argstr})")
            ln, vty = env[tname][0], env[tname][1]
            env2 = dict(env)
            env2[tname] = (ln, vty)
            bt, bok = self.seq(stmts, i + 1, env2, k, ctl)
            if info["partial"]:
                return self.match_option(call, cok, ln, bt, bok)
            return self.let_(ln, call, bt), self.let_ok(ln, call, cok, bok)
        return _XFnTranslator0.seq(self, stmts, i, env, k, ctl)


XParser, XEmitter, XFnTranslator = P06Parser, P06Emitter, P06FnTranslator

NTT_FUNCTIONS += [
    # `while (1 << logn) < len` and `while m < n { .. m *= 2 }` evaluate their heads at most 65 times
    ("ntt_noswap", "ntt_noswap", DEFAULT_FUEL, True, True),
    ("ntt_unscale", "unscale", DEFAULT_FUEL, True, False),
    ("ntt_ntt", "ntt", DEFAULT_FUEL, True, True),
    ("ntt_intt", "intt", DEFAULT_FUEL, True, True),
]

_run_ntt0 = run_ntt


def run_ntt(status, changed, read_src):
    """as the original `run_ntt`; in addition every field-generic function is registered in SLICE_FNS so that the
    wrappers translated later can call it as a statement"""
    rel = "twenty-first/src/math/ntt.rs"
    src = read_src(rel)
    if src is None:
        return _run_ntt0(status, changed, read_src)
    cut = src.find("#[cfg(test)]")
    if cut >= 0:
        src = src[:cut]
    SLICE_FNS.clear()
    tfns, pfns = {}, {}
    texts = []
    for ln, rn, fuel, generic, root in NTT_FUNCTIONS:
        extra = ([("ops", "opsrec")] if generic else []) + ([("root", "rootfn")] if root else [])
        try:
            text, params, rty, partial, _ = translate_fn_x(src, rn, ln, rel, tfns, pfns, {}, fuel, field_mode=True,
                                                           extra_params=extra)
        except Exception as ex:
            refuse(status, ln, ex)
            continue
        texts.append(text)
        if not generic:
            (pfns if partial else tfns)[rn] = (ln, [t for _, t in params], rty)
        else:
            register_slice_fn(src, rn, ln, params, partial, root, pfns)
        record(status, ln, rel, text, fuel)
    SLICE_FNS.clear()
    emit_file(changed, "NttLoops", rel, ["TF.Model.Ntt", "TF.Model.RustStd"], ["variable {σ α : Type}\n"], texts)


def register_slice_fn(src, rn, ln, params, partial, root, pfns):
    """make the field-generic function `rn` callable as a statement `rn(x, ..);` by the functions translated after it"""
    try:
        ptext, _, _ = find_fn(src, rn, None)
        probe = XEmitter({}, {}, {}, rn, {}, True)
        sparams, _, mut_param = parse_params_x(ptext, probe, None)
    except Exception:
        return
    if mut_param is None:
        return
    SLICE_FNS[rn] = {"lname": ln, "ptys": [t for _, t in sparams], "partial": partial, "root": root,
                     "mut_index": [n for n, _ in sparams].index(mut_param)}
    if partial:
        # seen by `FnTranslator.translate` (a caller may run out of fuel, too); the sentinel type makes every use *inside an
        # expression* an arity error, i.e. a refusal
        pfns[rn] = (ln, ["opsrec"] + [t for _, t in sparams], None)

# END P06
# ========================================================================================================


def run(status, changed, read_src):
    """called at the end of rs2lean_loops.run"""
    run_u32s(status, changed, read_src)
    run_ntt(status, changed, read_src)
    # BEGIN P06-C18: the loops of lattice.rs (tools/rs2lean_lattice.py -> TF/Gen/LatticeLoops.lean)
    try:
        import rs2lean_lattice
        rs2lean_lattice.run(status, changed, read_src)
    except Exception as ex:      # a crash is a refusal, never a guess
        refuse(status, "lattice loops", ex)
    # END P06-C18
