#!/usr/bin/env python3
"""self-test of tools/rs2lean_ext.py (the extended subset): accepted constructs translate, everything else is REFUSED
(Unsupported), never guessed.  Run: python3 tools/test_rs2lean_ext.py   (exit 0 = all expectations met)"""
import os
import sys
sys.path.insert(0, os.path.dirname(os.path.abspath(__file__)))
import rs2lean_ext as X
from rs2lean import Unsupported

ARR = ("array", "u32")
STRUCT = """
impl<const N: usize> U32s<N> {
    fn get_bit(&self, i: usize) -> bool { (self.values[i / 32] & (1u32 << (i % 32))) != 0 }
    fn halve(&mut self) { self.values[0] = self.values[0] >> 1; }
    fn zero() -> Self { Self::new([0; N]) }
    fn sub(self, rhs: Self) -> Self { let mut r = Self::new([0; N]); r.values[0] = self.values[0].wrapping_sub(rhs.values[0]); r }
    fn cmp(&self, other: &Self) -> std::cmp::Ordering { let a = self.values.iter().rev(); let b = other.values.iter().rev(); a.cmp(b) }
    fn partial_cmp(&self, other: &Self) -> Option<std::cmp::Ordering> { Some(self.cmp(other)) }
}
"""
PRE = ["get_bit", "halve", "zero", "sub", "cmp", "partial_cmp"]

# (expected, mode, source of fn f)
CASES = [
    # ---- struct methods, operators through the translated impls, statements re-binding the receiver
    ("ok", "struct", "fn f(&self, d: &Self) -> Self { let mut r = Self::zero(); for i in (0..N).rev() { r.halve(); if r >= *d { r = r - *d; } } r }"),
    ("ok", "struct", "fn f(&self, i: usize) -> bool { !self.get_bit(i) }"),
    ("ok", "struct", "fn f(&self) -> bool { self.values.iter().all(|x| *x == 0) }"),
    ("ok", "struct", "fn f(v: u64) -> Result<Self, Self::Error> { let err = Err(Self::Error::TooBig); match N { 0 if v != 0 => err, 1 if v > u64::from(u32::MAX) => err, _ => Ok(Self::zero()) } }"),
    ("ok", "struct", "fn f(b: BigUint) -> Self { let mut rem: BigUint = b; let mut r: Self = U32s::zero(); for i in 0..N { r.values[i] = (rem.clone() % BigUint::new(vec![0, 1])).try_into().unwrap(); rem /= BigUint::new(vec![0, 1]); } r }"),
    ("refuse", "struct", "fn f(&self, d: &Self) -> bool { self.values >= d.values }"),                        # raw arrays are not the struct
    ("refuse", "struct", "fn f(&self, d: &Self) -> Self { let mut r = Self::zero(); r.halve() ; r.unknown(); r }"),   # unknown method
    ("refuse", "struct", "fn f(&self, i: usize) -> bool { let mut r = Self::zero(); r.halve() == r.halve() }"),   # &mut self method in an expression
    ("refuse", "struct", "fn f(&self) -> bool { self.values.iter().any(|x| *x == 0) }"),                         # other iterator adaptor
    ("refuse", "struct", "fn f(&self) -> bool { self.values.iter().all(|x| 1 / *x == 0) }"),                     # closure that can panic
    ("refuse", "struct", "fn f(&self) -> bool { self.values.iter().all(|x| { *x == 0 }) }"),                     # block-bodied closure
    ("refuse", "struct", "fn f(v: u64) -> u64 { match v { 0 => 1, 1 => 2 } }"),                                   # no `_` arm
    ("refuse", "struct", "fn f(v: u64) -> u64 { match v { 0 | 1 => 1, _ => 2 } }"),                               # or-pattern
    ("refuse", "struct", "fn f(v: u64) -> u64 { match v { 0..=3 => 1, _ => 2 } }"),                               # range pattern
    ("refuse", "struct", "fn f(v: u64) -> Result<Self, Self::Error> { Err(make_error(v)) }"),                     # error that is not a variant path
    ("refuse", "struct", "fn f(b: BigUint) -> BigUint { b - BigUint::new(vec![1]) }"),                            # BigUint subtraction (can panic): not modelled
    ("refuse", "struct", "fn f(b: BigUint) -> u32 { let x = b.try_into().unwrap(); 0 }"),                         # target type of the conversion never determined
    ("refuse", "struct", "fn f(b: BigUint) -> BigUint { BigUint::new(vec![4294967296]) }"),                       # digit out of range
    # ---- field-generic code: the field operations are parameters
    ("ok", "field", "fn f<FF>(x: &mut [FF], w_m: BFieldElement) where FF: FiniteField { let mut w = BFieldElement::ONE; for j in 0..x.len() / 2 { let u = x[j]; let mut v = x[j + 1]; v *= w; x[j] = u + v; x[j + 1] = u - v; w *= w_m; } }"),
    ("ok", "field", "fn f<FF>(x: &mut [FF]) { for _ in 0..x.len() { x.swap(0, 1); } }"),
    ("ok", "field", "fn f(a: &mut [BFieldElement], c: BFieldElement) { for e in a.iter_mut() { *e *= c; } }"),
    ("ok", "field", "fn f<FF>(x: &mut [FF], omega: BFieldElement) { let n = x.len(); let e = n.try_into().unwrap(); let w = omega.mod_pow_u32(e); let mut k = 0; while k < n { let mut v = x[k]; v *= w; x[k] = v; k += 1; } }"),
    ("refuse", "field", "fn f<FF>(x: &mut [FF]) { for j in 0..x.len() { let u = x[j]; x[j] = u * u; } }"),       # FF * FF is not in the trait bound
    ("refuse", "field", "fn f<FF>(x: &mut [FF], w: BFieldElement) { for j in 0..x.len() { if j == 1 { continue; } let v = x[j]; x[j] = v + w; } }"),   # FF + BFieldElement
    ("refuse", "field", "fn f<FF>(x: &mut [FF]) -> usize { x.len() }"),                                          # &mut slice and a value
    ("refuse", "field", "fn f<FF>(x: &mut [FF]) { for e in x.iter_mut() { let x = 1u32; *e = *e + *e; } }"),     # body re-binds the slice
    ("refuse", "field", "fn f<FF>(x: &mut [FF]) { for (i, e) in x.iter_mut().enumerate() { *e = *e + *e; } }"),  # tuple pattern over an adaptor chain
    ("refuse", "field", "fn f<FF>(x: &mut [FF], o: BFieldElement) { let r = BFieldElement::primitive_root_of_unity(4).unwrap(); }"),  # no `root` parameter in this group
    ("refuse", "field", "fn f<FF>(x: &mut [FF], o: BFieldElement) { let r = o.square(); }"),                     # unknown field method
    # ---- BEGIN P06: wrappers of ntt.rs, `ntt_noswap`, `unscale`
    ("ok", "field", "fn f<FF>(x: &mut [FF], o: BFieldElement) { let r = o.inverse_or_zero(); for e in x.iter_mut() { *e *= r } }"),   # no `;` after the last assignment
    ("ok", "field", "fn f(a: &mut [BFieldElement]) { let ninv = BFieldElement::new(a.len() as u64).inverse(); for e in a.iter_mut() { *e *= ninv; } }"),
    ("ok", "field", "fn f<FF>(x: &mut [FF]) { let n = u32::try_from(x.len()).expect(\"short\"); assert!(n == 0 || n.is_power_of_two()); let l = n.checked_ilog2().unwrap_or(0); let c = BFieldElement::from(x.len()).inverse_or_zero(); for _ in 0..l { x.swap(0, 1); } for e in x.iter_mut() { *e *= c; } }"),
    ("ok", "field", "fn f<FF>(x: &mut [FF], n: usize) { let p = vec![BFieldElement::ZERO; n]; for (i, z) in p.iter().enumerate().take(2) { let mut v = x[i]; v *= *z; x[i] = v; } }"),
    ("ok", "field2", "fn f<FF>(x: &mut [FF], w: BFieldElement) { g(x, w); for e in x.iter_mut() { *e *= w; } }"),   # call of a translated slice function
    ("ok", "field2", "fn f<FF>(x: &mut [FF], w: BFieldElement) { let r = BFieldElement::primitive_root_of_unity(4).unwrap(); h(x, r); }"),   # .. that may run out of fuel
    ("refuse", "field", "fn f<FF>(x: &mut [FF], w: BFieldElement) { g(x, w); }"),                                # unknown function
    ("refuse", "field2", "fn f<FF>(x: &mut [FF], w: BFieldElement) { let y = g(x, w); }"),                       # slice function inside an expression
    ("refuse", "field2", "fn f<FF>(x: &mut [FF], w: BFieldElement) { let y = h(x, w); }"),                       # .. also the fuel-indexed one
    ("refuse", "field2", "fn f<FF>(x: &mut [FF], w: BFieldElement) { for _ in 0..2 { g(x, w); } }"),             # call statement inside a loop
    ("refuse", "field2", "fn f<FF>(x: &mut [FF], w: BFieldElement) { g(x); }"),                                  # arity
    ("refuse", "field2", "fn f<FF>(x: &mut [FF], w: BFieldElement) { g(x, 1); }"),                               # argument type
    ("refuse", "field", "fn f<FF>(x: &mut [FF], n: usize) { let p = vec![0u64; n]; }"),                          # vec![x; n] of integers
    ("refuse", "field", "fn f<FF>(x: &mut [FF], n: usize) { let mut p = vec![BFieldElement::ZERO; n]; p.push(BFieldElement::ONE); }"),   # the replicate is a fixed-length array
    ("refuse", "field", "fn f<FF>(x: &mut [FF], n: usize) { let p = vec![BFieldElement::ZERO; n]; for (i, z) in p.iter().enumerate().skip(1) { let mut v = x[i]; v *= *z; x[i] = v; } }"),   # other adaptor
    ("refuse", "field", "fn f<FF>(x: &mut [FF], n: usize) { let mut p = vec![BFieldElement::ZERO; n]; for (i, z) in p.iter().enumerate().take(2) { p[i] = *z; } }"),   # body assigns the iterated array
    ("refuse", "field", "fn f<FF>(x: &mut [FF]) { let n = u32::try_from(x.len()).expect(\"short\"); let l = n.checked_ilog2().unwrap(); }"),   # unwrap of checked_ilog2
    ("refuse", "field", "fn f<FF>(x: &mut [FF]) { let n = u16::try_from(x.len()).unwrap(); }"),                  # other conversion
    ("refuse", "field", "fn f<FF>(x: &mut [FF]) { let s = \"abc\"; }"),                                          # string literal as a value
    ("refuse", "field", "fn f<FF>(x: &mut [FF], o: BFieldElement) { let r = BFieldElement::new(o); }"),          # BFieldElement::new of a non-integer
    # ---- END P06
]

# P06: two field-generic slice functions the "field2" cases may call as statements (`h` contains a `while`)
SLICE_SRC = """
fn g<FF>(x: &mut [FF], w: BFieldElement) { for e in x.iter_mut() { *e *= w; } }
fn h<FF>(x: &mut [FF], w: BFieldElement) { let mut k = 0; while k < x.len() { let mut v = x[k]; v *= w; x[k] = v; k += 1; } }
"""


def register_slice_fns():
    pfns = {}
    X.SLICE_FNS.clear()
    for rn in ("g", "h"):
        text, params, rty, partial, _ = X.translate_fn_x(SLICE_SRC, rn, "t_" + rn, "<test>", {}, pfns, {}, "(x.length + 1)",
                                                         field_mode=True, extra_params=[("ops", "opsrec")])
        X.register_slice_fn(SLICE_SRC, rn, "t_" + rn, params, partial, False, pfns)
    return pfns


def methods_for_struct():
    methods = {}
    for rn in PRE:
        text, params, rty, partial, mut_self = X.translate_fn_x(STRUCT, rn, "t_" + rn, "<test>", {}, {}, methods,
                                                                after=r"impl<const N: usize> U32s<N> \{", self_ty=ARR, generic="N")
        X.register(methods, rn, "t_" + rn, params, rty, partial, mut_self, "N")
    return methods


def main():
    bad = 0
    methods = methods_for_struct()
    for exp, mode, src in CASES:
        try:
            X.SLICE_FNS.clear()
            if mode == "struct":
                text = X.translate_fn_x("impl X {" + src + "}", "f", "f", "<test>", {}, {}, methods, self_ty=ARR, generic="N")[0]
            elif mode == "field2":
                pfns = register_slice_fns()
                text = X.translate_fn_x(src, "f", "f", "<test>", {}, pfns, {}, field_mode=True,
                                        extra_params=[("ops", "opsrec"), ("root", "rootfn")])[0]
            else:
                text = X.translate_fn_x(src, "f", "f", "<test>", {}, {}, {}, field_mode=True, extra_params=[("ops", "opsrec")])[0]
            got = "ok"
        except Unsupported as ex:
            got, text = "refuse", str(ex)
        except Exception as ex:
            got, text = "refuse", f"internal {type(ex).__name__}: {ex}"      # a crash is recorded as a refusal by the driver, too
        if got != exp:
            bad += 1
        print(f"{'   ' if got == exp else '!!!'} expected {exp:6} got {got:6}  {src[:78]}...  {'' if got == 'ok' else '-> ' + text[:70]}")
    # determinism: two runs give the same text
    a = X.translate_fn_x(STRUCT, "cmp", "t", "<test>", {}, {}, {}, after=r"impl<const N: usize> U32s<N> \{", self_ty=ARR, generic="N")[0]
    b = X.translate_fn_x(STRUCT, "cmp", "t", "<test>", {}, {}, {}, after=r"impl<const N: usize> U32s<N> \{", self_ty=ARR, generic="N")[0]
    if a != b:
        bad += 1
        print("!!! translation is not deterministic")
    return 1 if bad else 0


if __name__ == "__main__":
    sys.exit(main())
