#!/bin/sh
# Builds the framework once, offline: translated model, all theorem modules, the model driver, the Rust harness.
set -e
cd "$(dirname "$0")"
export CARGO_NET_OFFLINE=true
mkdir -p work evidence
python3 tools/rs2lean.py
python3 tools/genreg.py
( cd lean && lake build TF tfm )
cp -f /repo/Cargo.lock harness/Cargo.lock 2>/dev/null || true
( cd harness && cargo build --release --offline )
# ops of the quick tier for the default seed, kept as a fallback for runs in which the op generator (part of the harness binary,
# it calls a few index functions of the crate) crashes or hangs against a changed implementation (tools/checklib.py)
for i in 01 02 03 04 05 06 07 08 09 10 11 12 13 14 15 16 17 18 19 20; do
  timeout 300 harness/target/release/tfh gen C$i --seed ${VERIF_SEED:-1} --tier quick > work/C$i.quick.seed${VERIF_SEED:-1}.ops.good.tmp 2>/dev/null \
    && mv work/C$i.quick.seed${VERIF_SEED:-1}.ops.good.tmp work/C$i.quick.seed${VERIF_SEED:-1}.ops.good || rm -f work/C$i.quick.seed${VERIF_SEED:-1}.ops.good.tmp
done
echo "setup done"
