#!/bin/sh
# Builds the framework once, offline: translated model, all theorem modules, the model driver, the Rust harness.
set -e
cd "$(dirname "$0")"
export CARGO_NET_OFFLINE=true
mkdir -p work evidence
python3 tools/rs2lean.py
python3 tools/genreg.py
( cd lean && lake build TF tfm )
cp -f /repo/Cargo.lock harness/Cargo.lock 2>/dev/null || true
( cd harness && cargo build --release --offline )
echo "setup done"
