//! Build script of the harness: generates the *random* part of the C14 derive-macro corpus.
//!
//! `src/c14.rs` contains a hand-written corpus of type definitions covering the shape grammar of
//! `#[derive(BFieldCodec)]`. To sample the quantifier over *programs* more widely, this script writes
//! `$OUT_DIR/c14_random.rs` with `VERIF_C14_SHAPES` (default 48) further struct / enum definitions drawn from
//! `VERIF_SEED` (default 1): unit / named / tuple structs with 0..6 fields, ignored fields, enums with 1..5 variants of
//! 0..3 fields, generic shapes with trivial bounds / where clauses, field types nested to depth 3 over the
//! hand-written codec types and earlier random shapes. The file uses the macros of `c14.rs` (`twin!`, `vc_named!`,
//! `vc_tuple!`, `vc_enum!`), so every random shape is again compiled twice (workspace macro / registry 0.7.1 macro)
//! and gets its `ValConv` descriptor next to its definition.
//!
//! List item types of static width 0 (finding F10) are avoided here on purpose: that class is exercised by the
//! hand-written corpus, where the known-finding matcher can recognise the descriptors.
use std::env;
use std::fmt::Write as _;
use std::fs;
use std::path::Path;

struct Rng(u64);
impl Rng {
    fn next(&mut self) -> u64 {
        self.0 = self.0.wrapping_add(0x9E37_79B9_7F4A_7C15);
        let mut z = self.0;
        z = (z ^ (z >> 30)).wrapping_mul(0xBF58_476D_1CE4_E5B9);
        z = (z ^ (z >> 27)).wrapping_mul(0x94D0_49BB_1331_11EB);
        z ^ (z >> 31)
    }
    fn below(&mut self, n: u64) -> u64 {
        if n == 0 {
            0
        } else {
            self.next() % n
        }
    }
    fn coin(&mut self, num: u64, den: u64) -> bool {
        self.below(den) < num
    }
}

/// a type expression with what the generator needs to know to avoid zero-width list items
#[derive(Clone)]
struct Ty {
    src: String,
    zw: bool,           // static width 0 for sure
    simple_stat: Option<bool>, // Some(is static) for the simple types allowed under `[_; 0]`
    has_param: bool,
}

struct ShapeInfo {
    name: String,
    zw: bool,
    generic: bool,
}

const LEAVES: [(&str, bool); 10] = [
    ("u8", false),
    ("u16", false),
    ("u32", false),
    ("u64", false),
    ("u128", false),
    ("bool", false),
    ("BFieldElement", false),
    ("XFieldElement", false),
    ("Digest", false),
    ("PhantomData<u8>", true),
];

fn leaf(rng: &mut Rng) -> Ty {
    let (s, zw) = LEAVES[rng.below(LEAVES.len() as u64) as usize];
    Ty { src: s.to_string(), zw, simple_stat: Some(true), has_param: false }
}

fn gen_ty(rng: &mut Rng, depth: u32, shapes: &[ShapeInfo], params: &[&str]) -> Ty {
    if !params.is_empty() && rng.coin(1, 3) {
        let p = params[rng.below(params.len() as u64) as usize];
        return Ty { src: p.to_string(), zw: false, simple_stat: None, has_param: true };
    }
    if depth == 0 || rng.coin(2, 5) {
        return leaf(rng);
    }
    match rng.below(10) {
        0 | 1 => {
            let it = gen_item(rng, depth - 1, shapes, params);
            let simple = it.simple_stat == Some(true) && !it.src.contains('<');
            Ty {
                src: format!("Vec<{}>", it.src),
                zw: false,
                simple_stat: if simple { Some(false) } else { None },
                has_param: it.has_param,
            }
        }
        2 => {
            let t = gen_ty(rng, depth - 1, shapes, params);
            Ty { src: format!("Option<{}>", t.src), zw: false, simple_stat: None, has_param: t.has_param }
        }
        3 => {
            let n = rng.below(4);
            if n == 0 {
                // `[T; 0]`: only over simple types whose static-ness is known
                let t = if rng.coin(1, 2) { leaf(rng) } else {
                    let l = leaf(rng);
                    Ty { src: format!("Vec<{}>", l.src), zw: false, simple_stat: Some(false), has_param: false }
                };
                let stat = t.simple_stat == Some(true);
                Ty { src: format!("[{}; 0]", t.src), zw: stat, simple_stat: None, has_param: false }
            } else {
                let it = gen_item(rng, depth - 1, shapes, params);
                Ty { src: format!("[{}; {}]", it.src, n), zw: false, simple_stat: None, has_param: it.has_param }
            }
        }
        4 => {
            let a = gen_ty(rng, depth - 1, shapes, params);
            let b = gen_ty(rng, depth - 1, shapes, params);
            Ty {
                src: format!("({}, {})", a.src, b.src),
                zw: a.zw && b.zw,
                simple_stat: None,
                has_param: a.has_param || b.has_param,
            }
        }
        5 => {
            let a = gen_ty(rng, depth - 1, shapes, params);
            let b = gen_ty(rng, depth - 1, shapes, params);
            let c = gen_ty(rng, depth - 1, shapes, params);
            Ty {
                src: format!("({}, {}, {})", a.src, b.src, c.src),
                zw: a.zw && b.zw && c.zw,
                simple_stat: None,
                has_param: a.has_param || b.has_param || c.has_param,
            }
        }
        6 => {
            let t = gen_ty(rng, depth - 1, shapes, params);
            Ty { src: format!("Box<{}>", t.src), zw: t.zw, simple_stat: None, has_param: t.has_param }
        }
        7 => Ty {
            src: "Polynomial<'static, BFieldElement>".to_string(),
            zw: false,
            simple_stat: None,
            has_param: false,
        },
        _ => {
            let cands: Vec<&ShapeInfo> = shapes.iter().filter(|s| !s.generic).collect();
            if cands.is_empty() {
                leaf(rng)
            } else {
                let s = cands[rng.below(cands.len() as u64) as usize];
                Ty { src: s.name.clone(), zw: s.zw, simple_stat: None, has_param: false }
            }
        }
    }
}

/// a list item type: never of static width 0
fn gen_item(rng: &mut Rng, depth: u32, shapes: &[ShapeInfo], params: &[&str]) -> Ty {
    for _ in 0..20 {
        let t = gen_ty(rng, depth, shapes, params);
        if !t.zw {
            return t;
        }
    }
    Ty { src: "u32".into(), zw: false, simple_stat: Some(true), has_param: false }
}

/// a concrete argument for a type parameter: never of static width 0, no reference to generic shapes
fn gen_arg(rng: &mut Rng, shapes: &[ShapeInfo]) -> Ty {
    gen_item(rng, 2, shapes, &[])
}

const IGNORED_TYPES: [&str; 5] = ["u32", "Vec<u8>", "bool", "String", "Option<u8>"];

fn main() {
    println!("cargo:rerun-if-changed=build.rs");
    println!("cargo:rerun-if-env-changed=VERIF_SEED");
    println!("cargo:rerun-if-env-changed=VERIF_C14_SHAPES");
    let seed: u64 = env::var("VERIF_SEED").ok().and_then(|s| s.parse().ok()).unwrap_or(1);
    let n_shapes: usize = env::var("VERIF_C14_SHAPES").ok().and_then(|s| s.parse().ok()).unwrap_or(48);
    let mut rng = Rng(seed ^ 0xC14C_14C1_4C14_C14C);

    let mut defs = String::new(); // item definitions (inside twin!)
    let mut vcs = String::new(); // ValConv impls (inside random_valconv!)
    let mut insts = String::new(); // instances (inside random_instances!)
    let mut shapes: Vec<ShapeInfo> = vec![];

    for i in 0..n_shapes {
        let name = format!("R{}", i);
        let n_params = match rng.below(5) {
            0 => 1,
            1 => 2,
            _ => 0,
        };
        let all_params = ["T", "U"];
        let params: Vec<&str> = all_params[..n_params].to_vec();
        // declaration of generics with trivial bounds / where clauses, to go through those paths of the macro
        let (gen_decl, where_decl) = match (n_params, rng.below(3)) {
            (0, _) => (String::new(), String::new()),
            (1, 0) => ("<T>".to_string(), String::new()),
            (1, 1) => ("<T: Sized>".to_string(), String::new()),
            (1, _) => ("<T>".to_string(), " where T: Sized".to_string()),
            (_, 0) => ("<T, U>".to_string(), String::new()),
            (_, 1) => ("<T: Sized, U>".to_string(), " where U: Sized".to_string()),
            (_, _) => ("<T, U: Sized>".to_string(), " where T: Sized, U: Sized".to_string()),
        };
        let gen_use = match n_params {
            0 => String::new(),
            1 => "<T>".to_string(),
            _ => "<T, U>".to_string(),
        };
        let vc_generics = match n_params {
            0 => String::new(),
            1 => "T: ValConv".to_string(),
            _ => "T: ValConv, U: ValConv".to_string(),
        };
        let kind = rng.below(10);
        let mut zw_shape;
        // every declared type parameter has to be used by a field
        let mut used = vec![false; n_params];
        let mut note_use = |t: &Ty, used: &mut Vec<bool>| {
            for (k, p) in all_params[..n_params].iter().enumerate() {
                if t.src.split(|c: char| !c.is_alphanumeric()).any(|w| w == *p) {
                    used[k] = true;
                }
            }
        };
        match kind {
            0 if n_params == 0 => {
                // unit struct
                writeln!(defs, "    pub struct {};", name).unwrap();
                writeln!(vcs, "            vc_tuple!([] {n}, {n}_());\n            #[allow(non_snake_case)] fn {n}_() -> {n} {{ {n} }}", n = name).unwrap();
                zw_shape = true;
            }
            0..=4 => {
                // named struct
                let n_fields = rng.below(7) as usize;
                let mut fields: Vec<(String, Ty, bool)> = vec![];
                for j in 0..n_fields {
                    if rng.coin(1, 5) {
                        let t = IGNORED_TYPES[rng.below(IGNORED_TYPES.len() as u64) as usize];
                        fields.push((format!("g{}", j), Ty { src: t.into(), zw: true, simple_stat: None, has_param: false }, true));
                    } else {
                        let t = gen_ty(&mut rng, 3, &shapes, &params);
                        note_use(&t, &mut used);
                        fields.push((format!("f{}", j), t, false));
                    }
                }
                for (k, u) in used.iter().enumerate() {
                    if !u {
                        let p = all_params[k];
                        fields.push((format!("p{}", k), Ty { src: p.into(), zw: false, simple_stat: None, has_param: true }, false));
                    }
                }
                zw_shape = fields.iter().all(|(_, t, ig)| *ig || t.zw);
                let decl: Vec<String> = fields
                    .iter()
                    .map(|(f, t, ig)| format!("{}pub {}: {}", if *ig { "#[bfield_codec(ignore)] " } else { "" }, f, t.src))
                    .collect();
                writeln!(defs, "    pub struct {}{}{} {{ {} }}", name, gen_decl, where_decl, decl.join(", ")).unwrap();
                let inc: Vec<String> = fields.iter().filter(|x| !x.2).map(|(f, t, _)| format!("{}: {}", f, t.src)).collect();
                let ign: Vec<String> = fields.iter().filter(|x| x.2).map(|(f, _, _)| f.clone()).collect();
                writeln!(
                    vcs,
                    "            vc_named!([{}] {}{}, {} {{ {} }} ignored {{ {} }});",
                    vc_generics, name, gen_use, name, inc.join(", "), ign.join(", ")
                )
                .unwrap();
            }
            5 | 6 => {
                // tuple struct
                let n_fields = rng.below(6) as usize;
                let mut fields: Vec<Ty> = vec![];
                for _ in 0..n_fields {
                    let t = gen_ty(&mut rng, 3, &shapes, &params);
                    note_use(&t, &mut used);
                    fields.push(t);
                }
                for (k, u) in used.iter().enumerate() {
                    if !u {
                        fields.push(Ty { src: all_params[k].into(), zw: false, simple_stat: None, has_param: true });
                    }
                }
                zw_shape = fields.iter().all(|t| t.zw);
                let decl: Vec<String> = fields.iter().map(|t| format!("pub {}", t.src)).collect();
                // a where clause of a tuple struct comes after the parenthesis
                writeln!(defs, "    pub struct {}{}({}){};", name, gen_decl, decl.join(", "), where_decl).unwrap();
                let idx: Vec<String> = fields.iter().enumerate().map(|(j, t)| format!("{}: {}", j, t.src)).collect();
                writeln!(vcs, "            vc_tuple!([{}] {}{}, {}({}));", vc_generics, name, gen_use, name, idx.join(", ")).unwrap();
            }
            _ => {
                // enum
                let n_vars = 1 + rng.below(5) as usize;
                let mut vars: Vec<Vec<Ty>> = vec![];
                for _ in 0..n_vars {
                    let n_fields = rng.below(4) as usize;
                    let mut fs_ = vec![];
                    for _ in 0..n_fields {
                        let t = gen_ty(&mut rng, 2, &shapes, &params);
                        note_use(&t, &mut used);
                        fs_.push(t);
                    }
                    vars.push(fs_);
                }
                for (k, u) in used.iter().enumerate() {
                    if !u {
                        vars.push(vec![Ty { src: all_params[k].into(), zw: false, simple_stat: None, has_param: true }]);
                    }
                }
                zw_shape = false;
                // every third random enum carries explicit discriminants that differ from the variant positions (descending,
                // under a primitive representation): the codec's variant index is the position, never the discriminant.
                // Decided from the name, not from the generator state, so the other shapes of a seed stay as they were.
                let explicit = name.bytes().map(|b| b as usize).sum::<usize>() % 3 == 0;
                let decl: Vec<String> = vars
                    .iter()
                    .enumerate()
                    .map(|(k, fs_)| {
                        let disc = if explicit { format!(" = {}", (vars.len() - k) * 5 + 2) } else { String::new() };
                        if fs_.is_empty() {
                            format!("V{}{}", k, disc)
                        } else {
                            format!("V{}({}){}", k, fs_.iter().map(|t| t.src.clone()).collect::<Vec<_>>().join(", "), disc)
                        }
                    })
                    .collect();
                writeln!(defs, "    {}pub enum {}{}{} {{ {} }}", if explicit { "#[repr(u32)] " } else { "" }, name, gen_decl, where_decl,
                    decl.join(", ")).unwrap();
                let arms: Vec<String> = vars
                    .iter()
                    .enumerate()
                    .map(|(k, fs_)| {
                        let xs: Vec<String> = fs_.iter().enumerate().map(|(j, t)| format!("x{}: {}", j, t.src)).collect();
                        format!("{} => V{}({})", k, k, xs.join(", "))
                    })
                    .collect();
                writeln!(vcs, "            vc_enum!([{}] {}{}, {}::{{ {} }});", vc_generics, name, gen_use, name, arms.join(", ")).unwrap();
            }
        }
        let _ = &mut zw_shape;
        // instances
        if n_params == 0 {
            writeln!(insts, "            (\"{n}\", entry::<{n}>()),", n = name).unwrap();
            if !zw_shape && rng.coin(1, 3) {
                writeln!(insts, "            (\"Vec.{n}\", entry::<Vec<{n}>>()),", n = name).unwrap();
            }
            if rng.coin(1, 5) {
                writeln!(insts, "            (\"Option.{n}\", entry::<Option<{n}>>()),", n = name).unwrap();
            }
            if rng.coin(1, 6) {
                writeln!(insts, "            (\"Tup.{n}.u8\", entry::<({n}, u8)>()),", n = name).unwrap();
            }
        } else {
            for v in 0..2 {
                let args: Vec<String> = (0..n_params).map(|_| gen_arg(&mut rng, &shapes).src).collect();
                writeln!(insts, "            (\"{n}.i{v}\", entry::<{n}<{a}>>()),", n = name, v = v, a = args.join(", ")).unwrap();
            }
        }
        shapes.push(ShapeInfo { name, zw: zw_shape, generic: n_params > 0 });
    }

    let mut out = String::new();
    writeln!(out, "// GENERATED by harness/build.rs from VERIF_SEED={} ({} shapes) -- do not edit", seed, n_shapes).unwrap();
    writeln!(out, "twin! {{ rws, rreg;\n{}}}", defs).unwrap();
    writeln!(
        out,
        "macro_rules! random_valconv {{\n    ($m:ident) => {{\n        mod $m {{\n            #![allow(non_snake_case, dead_code)]\n            use super::super::{{c03::{{TyDesc, Val, ValConv}}, PhantomData}};\n            use super::super::$m::*;\n            use twenty_first::prelude::*;\n{}        }}\n    }};\n}}",
        vcs
    )
    .unwrap();
    writeln!(out, "mod valconv_random {{\n    random_valconv!(rws);\n    random_valconv!(rreg);\n}}").unwrap();
    writeln!(
        out,
        "macro_rules! random_instances {{\n    ($m:ident) => {{{{\n        #[allow(unused_imports)]\n        use $m::*;\n        #[allow(unused_imports)]\n        use twenty_first::prelude::*;\n        let v: Vec<(&'static str, TypeEntry)> = vec![\n{}        ];\n        v\n    }}}};\n}}",
        insts
    )
    .unwrap();
    writeln!(out, "pub const RANDOM_CORPUS_SEED: u64 = {};\npub const RANDOM_CORPUS_SHAPES: usize = {};", seed, n_shapes).unwrap();

    let dir = env::var("OUT_DIR").unwrap();
    fs::write(Path::new(&dir).join("c14_random.rs"), out).unwrap();
}
