// PROP: C08  FAMILIES: polyi=run_polyi
//! C08 -- interpolation, bulk evaluation, zerofiers, coset extrapolation.  Family `polyi`:
//!   polyi <op> <b|x> args...      field elements as canonical values (`x`: triples `(c0;c1;c2)`)
//! A list argument may be given in compact form `R:<seed>:<len>` (SplitMix64 stream, uniform values).
//! Property oracles evaluated here use only field arithmetic (C01) and never a polynomial routine of the crate:
//! Horner, the naive product of (X - r), the interpolation certificate (deg < n and f(x_i) = y_i), and the
//! first barycentric form for "extrapolation = evaluate(interpolate on the coset)".
use crate::util::*;
use num_traits::{ConstOne, ConstZero};
use std::ops::{Mul, MulAssign};
use twenty_first::math::polynomial::{barycentric_evaluate, Polynomial};
use twenty_first::math::traits::*;
use twenty_first::math::zerofier_tree::ZerofierTree;
use twenty_first::prelude::*;

pub trait Fld: FiniteField + MulAssign<BFieldElement> + Mul<BFieldElement, Output = Self> + 'static {
    fn parse(a: &Arg) -> Option<Self>;
    fn show(&self) -> String;
    fn uniform(r: &mut Rng) -> Self;
    fn lift(b: BFieldElement) -> Self;
}
impl Fld for BFieldElement {
    fn parse(a: &Arg) -> Option<Self> {
        a.bfe()
    }
    fn show(&self) -> String {
        self.value().to_string()
    }
    fn uniform(r: &mut Rng) -> Self {
        BFieldElement::new(r.below(P))
    }
    fn lift(b: BFieldElement) -> Self {
        b
    }
}
impl Fld for XFieldElement {
    fn parse(a: &Arg) -> Option<Self> {
        match a {
            Arg::Nat(_) => a.bfe().map(XFieldElement::new_const),
            _ => a.xfe(),
        }
    }
    fn show(&self) -> String {
        fmt_xfe(self)
    }
    fn uniform(r: &mut Rng) -> Self {
        let a = r.below(P);
        let b = r.below(P);
        let c = r.below(P);
        XFieldElement::new([BFieldElement::new(a), BFieldElement::new(b), BFieldElement::new(c)])
    }
    fn lift(b: BFieldElement) -> Self {
        XFieldElement::new_const(b)
    }
}

fn show_list<FF: Fld>(xs: &[FF]) -> String {
    let v: Vec<String> = xs.iter().map(|x| x.show()).collect();
    format!("[{}]", v.join(","))
}
fn parse_list<FF: Fld>(a: &Arg) -> Option<Vec<FF>> {
    match a {
        Arg::List(v) => v.iter().map(FF::parse).collect(),
        Arg::Sym(s) => {
            let parts: Vec<&str> = s.split(':').collect();
            if parts.len() == 3 && parts[0] == "R" {
                let seed: u64 = parts[1].parse().ok()?;
                let len: usize = parts[2].parse().ok()?;
                let mut r = Rng::new(seed);
                Some((0..len).map(|_| FF::uniform(&mut r)).collect())
            } else {
                None
            }
        }
        _ => None,
    }
}
fn parse_matrix<FF: Fld>(a: &Arg) -> Option<Vec<Vec<FF>>> {
    a.list()?.iter().map(parse_list::<FF>).collect()
}
fn show_poly<FF: Fld>(p: &Polynomial<FF>) -> String {
    show_list(p.coefficients())
}

// ---- oracles: field arithmetic only ---------------------------------------------------------------
fn horner<FF: Fld>(cs: &[FF], x: FF) -> FF {
    let mut acc = FF::ZERO;
    for &c in cs.iter().rev() {
        acc = acc * x + c;
    }
    acc
}
fn normalized<FF: Fld>(cs: &[FF]) -> &[FF] {
    let mut n = cs.len();
    while n > 0 && cs[n - 1] == FF::ZERO {
        n -= 1;
    }
    &cs[..n]
}
/// prod (X - r_i), coefficient by coefficient
fn naive_prod<FF: Fld>(roots: &[FF]) -> Vec<FF> {
    let mut z = vec![FF::ONE];
    for &r in roots {
        let mut nz = vec![FF::ZERO; z.len() + 1];
        for (i, &c) in z.iter().enumerate() {
            nz[i + 1] = nz[i + 1] + c;
            nz[i] = nz[i] - r * c;
        }
        z = nz;
    }
    z
}
/// a fixed "random" probe point per input (derived from the data, so replays are exact)
fn probe<FF: Fld>(xs: &[FF], salt: u64) -> FF {
    let mut h = 0x1234_5678_9abc_def1u64 ^ salt;
    for x in xs.iter().take(64) {
        for c in x.show().bytes() {
            h = (h ^ c as u64).wrapping_mul(0x100_0000_01b3);
        }
    }
    let mut r = Rng::new(h ^ xs.len() as u64);
    FF::uniform(&mut r)
}
/// is `z` (normalised coefficients) the polynomial prod (X - r_i)?
fn zerofier_ok<FF: Fld>(z: &[FF], roots: &[FF]) -> bool {
    let z = normalized(z);
    if z.len() != roots.len() + 1 || z[roots.len()] != FF::ONE {
        return false;
    }
    if roots.len() <= 1500 {
        return z == &naive_prod(roots)[..];
    }
    // identity test at two probe points (degree n, error probability ~ n / |F|)
    (0..2).all(|s| {
        let rho = probe(roots, s);
        let mut prod = FF::ONE;
        for &r in roots {
            prod = prod * (rho - r);
        }
        horner(z, rho) == prod
    })
}
fn all_distinct<FF: Fld>(xs: &[FF]) -> bool {
    let mut s = std::collections::HashSet::new();
    xs.iter().all(|x| s.insert(*x))
}
/// interpolation certificate
fn certificate<FF: Fld>(f: &[FF], xs: &[FF], ys: &[FF]) -> bool {
    let f = normalized(f);
    f.len() <= xs.len() && xs.iter().zip(ys).all(|(&x, &y)| horner(f, x) == y)
}
fn coset<FF: Fld>(offset: BFieldElement, n: usize) -> Option<Vec<FF>> {
    let omega = BFieldElement::primitive_root_of_unity(n as u64)?;
    let mut d = Vec::with_capacity(n);
    let mut acc = offset;
    for _ in 0..n {
        d.push(FF::lift(acc));
        acc *= omega;
    }
    Some(d)
}
/// value at `x` of the polynomial of degree < n through (offset*omega^i, codeword[i]):
/// first barycentric form  (x^n - offset^n) / (n offset^n) * sum_i c_i d_i / (x - d_i)
fn coset_interpolant_at<FF: Fld>(codeword: &[FF], offset: BFieldElement, x: FF) -> Option<FF> {
    let n = codeword.len();
    if n == 0 || !n.is_power_of_two() || offset == BFieldElement::ZERO {
        return None;
    }
    let d: Vec<FF> = coset(offset, n)?;
    if let Some(i) = d.iter().position(|&di| di == x) {
        return Some(codeword[i]);
    }
    let inv = FF::batch_inversion(d.iter().map(|&di| x - di).collect());
    let mut s = FF::ZERO;
    for i in 0..n {
        s = s + codeword[i] * d[i] * inv[i];
    }
    let mut xn = FF::ONE;
    let mut on = BFieldElement::ONE;
    let mut k = n;
    let mut xb = x;
    let mut ob = offset;
    while k > 0 {
        if k & 1 == 1 {
            xn = xn * xb;
            on *= ob;
        }
        xb = xb * xb;
        ob *= ob;
        k >>= 1;
    }
    let denom = FF::lift(BFieldElement::new(n as u64) * on);
    Some((xn - FF::lift(on)) * s * denom.inverse())
}

// ---- thread count control: `available_parallelism` follows the affinity mask of the calling thread --------
extern "C" {
    fn sched_setaffinity(pid: i32, cpusetsize: usize, mask: *const u64) -> i32;
    fn sched_getaffinity(pid: i32, cpusetsize: usize, mask: *mut u64) -> i32;
}
struct AffinityGuard {
    old: [u64; 16],
    active: bool,
}
impl Drop for AffinityGuard {
    fn drop(&mut self) {
        if self.active {
            unsafe {
                sched_setaffinity(0, 128, self.old.as_ptr());
            }
        }
    }
}
fn with_threads<T>(t: usize, st: &mut Stats, f: impl FnOnce() -> T) -> T {
    let mut g = AffinityGuard { old: [0; 16], active: false };
    unsafe {
        if sched_getaffinity(0, 128, g.old.as_mut_ptr()) == 0 {
            let mut new = [0u64; 16];
            let mut left = t.max(1);
            for w in 0..16 {
                for b in 0..64 {
                    if left > 0 && (g.old[w] >> b) & 1 == 1 {
                        new[w] |= 1 << b;
                        left -= 1;
                    }
                }
            }
            if sched_setaffinity(0, 128, new.as_ptr()) == 0 {
                g.active = true;
            }
        }
    }
    let n = std::thread::available_parallelism().map(|x| x.get()).unwrap_or(1);
    st.hit(&format!("threads:{}", n));
    let r = f();
    drop(g);
    r
}

fn tree_shape<FF: Fld>(t: &ZerofierTree<FF>) -> String {
    let s = format!("{:?}", t);
    let b = s.as_bytes();
    let mut out = String::new();
    let mut i = 0;
    while i < b.len() {
        if s[i..].starts_with("Leaf(") {
            out.push('L');
            i += 5;
        } else if s[i..].starts_with("Branch(") {
            out.push('B');
            i += 7;
        } else if s[i..].starts_with("Padding") {
            out.push('P');
            i += 7;
        } else {
            i += 1;
        }
    }
    out
}

fn size_class(n: usize) -> String {
    for t in [16usize, 100, 256, 4096, 131072] {
        if n + 1 == t {
            return format!("{}-1", t);
        }
        if n == t {
            return format!("{}", t);
        }
        if n == t + 1 {
            return format!("{}+1", t);
        }
    }
    match n {
        0 => "0".into(),
        1 => "1".into(),
        2..=15 => "2..15".into(),
        18..=98 => "18..98".into(),
        102..=254 => "102..254".into(),
        258..=4094 => "258..4094".into(),
        _ => ">4097".into(),
    }
}

fn run<FF: Fld>(op: &str, a: &[Arg], st: &mut Stats) -> Option<Out> {
    let l = |i: usize| -> Option<Vec<FF>> { parse_list::<FF>(a.get(i)?) };
    match op {
        "evaluate" => {
            let p = l(0)?;
            let x = FF::parse(a.get(1)?)?;
            let r = Polynomial::new(p.clone()).evaluate_in_same_field(x);
            Some(Out::ok(format!("ok:{}", show_list(&[r]))).with_oracle(r == horner(&p, x), "evaluate != Horner"))
        }
        "zerofier" | "smart_zerofier" | "fast_zerofier" | "naive_zerofier" | "par_zerofier" => {
            let (roots, z) = match op {
                "zerofier" => {
                    let r = l(0)?;
                    let z = Polynomial::zerofier(&r);
                    (r, z)
                }
                "smart_zerofier" => {
                    let r = l(0)?;
                    let z = Polynomial::smart_zerofier(&r);
                    (r, z)
                }
                "fast_zerofier" => {
                    let r = l(0)?;
                    let z = Polynomial::fast_zerofier(&r);
                    (r, z)
                }
                "naive_zerofier" => {
                    let r = l(0)?;
                    let z = Polynomial::naive_zerofier(&r);
                    (r, z)
                }
                _ => {
                    let t = a.first()?.usize()?;
                    let r = l(1)?;
                    let z = with_threads(t, st, || Polynomial::par_zerofier(&r));
                    (r, z)
                }
            };
            st.hit(&format!("zerofier:n={}", size_class(roots.len())));
            if !all_distinct(&roots) {
                st.hit("zerofier:repeated-roots");
            }
            let ok = zerofier_ok(z.coefficients(), &roots);
            Some(Out::ok(format!("ok:{}", show_poly(&z))).with_oracle(ok, "zerofier != prod (X - r_i)"))
        }
        "tree" => {
            let d = l(0)?;
            let t = ZerofierTree::new_from_domain(&d);
            let z = t.zerofier();
            st.hit(&format!("tree:leaves={}", d.len().div_ceil(16)));
            let ok = zerofier_ok(z.coefficients(), &d);
            Some(Out::ok(format!("ok:{};{}", tree_shape(&t), show_poly(&z))).with_oracle(ok, "tree zerofier != prod (X - r_i)"))
        }
        "dc_eval" | "batch_evaluate" | "iterative_batch_evaluate" | "par_batch_evaluate" => {
            let off = if op == "par_batch_evaluate" { 1 } else { 0 };
            let p = l(off)?;
            let d = l(off + 1)?;
            let poly = Polynomial::new(p.clone());
            let r = match op {
                "dc_eval" => {
                    let t = ZerofierTree::new_from_domain(&d);
                    poly.divide_and_conquer_batch_evaluate(&t)
                }
                "batch_evaluate" => poly.batch_evaluate(&d),
                "iterative_batch_evaluate" => poly.iterative_batch_evaluate(&d),
                _ => {
                    let t = a.first()?.usize()?;
                    with_threads(t, st, || poly.par_batch_evaluate(&d))
                }
            };
            let deg = poly.degree();
            let arm = if deg < 0 {
                "zero"
            } else if deg >= 4 * d.len() as isize {
                "reduce-first"
            } else {
                "tree"
            };
            st.hit(&format!("batch_eval:arm={} ratio-boundary={}", arm, (deg - 4 * d.len() as isize).clamp(-2, 2)));
            let ok = r.len() == d.len() && d.iter().zip(&r).all(|(&x, &y)| horner(&p, x) == y);
            Some(Out::ok(format!("ok:{}", show_list(&r))).with_oracle(ok, "bulk evaluation != Horner in input order"))
        }
        "interpolate" | "lagrange_interpolate" | "lagrange_interpolate_zipped" | "fast_interpolate" | "par_interpolate"
        | "par_fast_interpolate" | "interpolate_dispatch" => {
            let off = if op.starts_with("par_") { 1 } else { 0 };
            let d = l(off)?;
            let v = l(off + 1)?;
            st.hit(&format!("{}:n={}", op, size_class(d.len())));
            let distinct = all_distinct(&d);
            if !distinct {
                st.hit("interpolate:repeated-abscissae");
            }
            if d.len() != v.len() {
                st.hit("interpolate:length-mismatch");
            }
            let f = match op {
                // `interpolate_dispatch`: the same function under a name the model does not answer (sizes above the
                // sequential cut-off cost the model half a minute); the certificate oracle below decides
                "interpolate" | "interpolate_dispatch" => Polynomial::interpolate(&d, &v),
                "lagrange_interpolate" => Polynomial::lagrange_interpolate(&d, &v),
                "lagrange_interpolate_zipped" => {
                    if d.len() != v.len() {
                        return None;
                    }
                    let pts: Vec<(FF, FF)> = d.iter().copied().zip(v.iter().copied()).collect();
                    Polynomial::lagrange_interpolate_zipped(&pts)
                }
                "fast_interpolate" => Polynomial::fast_interpolate(&d, &v),
                "par_interpolate" => {
                    let t = a.first()?.usize()?;
                    with_threads(t, st, || Polynomial::par_interpolate(&d, &v))
                }
                _ => {
                    let t = a.first()?.usize()?;
                    with_threads(t, st, || Polynomial::par_fast_interpolate(&d, &v))
                }
            };
            // returned without panic: for distinct abscissae and equal lengths the certificate must hold
            let ok = !(distinct && d.len() == v.len()) || certificate(f.coefficients(), &d, &v);
            Some(Out::ok(format!("ok:{}", show_poly(&f))).with_oracle(ok, "interpolant fails certificate deg < n and f(x_i) = y_i"))
        }
        "batch_fast_interpolate" => {
            let d = l(0)?;
            let m = parse_matrix::<FF>(a.get(1)?)?;
            st.hit(&format!("batch_fast_interpolate:n={} rows={}", size_class(d.len()), m.len().min(3)));
            let distinct = all_distinct(&d);
            if !distinct {
                st.hit("interpolate:repeated-abscissae");
            }
            let fs = Polynomial::batch_fast_interpolate(&d, &m, BFieldElement::ONE, 1);
            let ok = !distinct
                || (fs.len() == m.len()
                    && fs.iter().zip(&m).all(|(f, v)| v.len() != d.len() || certificate(f.coefficients(), &d, v)));
            let s: Vec<String> = fs.iter().map(show_poly).collect();
            Some(Out::ok(format!("ok:[{}]", s.join(","))).with_oracle(ok, "batch interpolant fails certificate"))
        }
        "fast_coset_evaluate" => {
            let p = l(0)?;
            let off = a.get(1)?.bfe()?;
            let order = a.get(2)?.usize()?;
            st.hit(&format!("fast_coset_evaluate:order={}", order));
            let r = Polynomial::new(p.clone()).fast_coset_evaluate(off, order);
            let ok = match coset::<FF>(off, order) {
                Some(dom) => r.len() == order && dom.iter().zip(&r).all(|(&x, &y)| horner(&p, x) == y),
                None => false,
            };
            Some(Out::ok(format!("ok:{}", show_list(&r))).with_oracle(ok, "coset evaluation != Horner on offset*omega^i"))
        }
        "fast_coset_interpolate" => {
            let off = a.first()?.bfe()?;
            let v = l(1)?;
            st.hit(&format!("fast_coset_interpolate:n={}", v.len()));
            let f = Polynomial::fast_coset_interpolate(off, &v);
            let ok = if v.is_empty() {
                f.degree() < 0
            } else if v.len() <= 4096 {
                match coset::<FF>(off, v.len()) {
                    Some(dom) => certificate(f.coefficients(), &dom, &v),
                    None => false,
                }
            } else {
                // identity test at probe points against the first barycentric form
                normalized(f.coefficients()).len() <= v.len()
                    && (0..2).all(|s| {
                        let rho = probe(&v, s);
                        coset_interpolant_at(&v, off, rho) == Some(horner(f.coefficients(), rho))
                    })
            };
            Some(Out::ok(format!("ok:{}", show_poly(&f))).with_oracle(ok, "coset interpolant fails certificate"))
        }
        "coset_extrapolate" => {
            let off = a.first()?.bfe()?;
            let cw = l(1)?;
            let pts = l(2)?;
            let arm = if pts.len() < 100 {
                if cw.len() < 256 {
                    "fast/lagrange"
                } else if cw.len() <= 1 << 17 {
                    "fast/intt"
                } else {
                    "fast/even-odd"
                }
            } else {
                "naive"
            };
            st.hit(&format!("coset_extrapolate:arm={} points={}", arm, size_class(pts.len())));
            let r = Polynomial::coset_extrapolate(off, &cw, &pts);
            // the property speaks about offsets != 0 and codeword lengths 2^k; an empty codeword extrapolates to 0
            let ok = r.len() == pts.len()
                && pts.iter().zip(&r).all(|(&x, &y)| match coset_interpolant_at(&cw, off, x) {
                    Some(e) => e == y,
                    None => off == BFieldElement::ZERO || (cw.is_empty() && y == FF::ZERO),
                });
            Some(Out::ok(format!("ok:{}", show_list(&r))).with_oracle(ok, "extrapolation != evaluate(interpolate on coset)"))
        }
        "batch_coset_extrapolate" | "par_batch_coset_extrapolate" => {
            let o = if op.starts_with("par_") { 1 } else { 0 };
            let off = a.get(o)?.bfe()?;
            let n = a.get(o + 1)?.usize()?;
            let cws = l(o + 2)?;
            let pts = l(o + 3)?;
            st.hit(&format!(
                "{}:arm={} n={} codewords={}",
                op,
                if pts.len() < 100 { "fast" } else { "naive" },
                n,
                if n == 0 { 0 } else { (cws.len() / n).min(3) }
            ));
            let r = if o == 1 {
                let t = a.first()?.usize()?;
                with_threads(t, st, || Polynomial::par_batch_coset_extrapolate(off, n, &cws, &pts))
            } else {
                Polynomial::batch_coset_extrapolate(off, n, &cws, &pts)
            };
            let k = if n == 0 { 0 } else { cws.len() / n };
            let mut ok = r.len() == k * pts.len();
            if ok {
                for i in 0..k {
                    let cw = &cws[i * n..(i + 1) * n];
                    for (j, &x) in pts.iter().enumerate() {
                        ok &= off == BFieldElement::ZERO || coset_interpolant_at(cw, off, x) == Some(r[i * pts.len() + j]);
                    }
                }
            }
            Some(Out::ok(format!("ok:{}", show_list(&r))).with_oracle(ok, "batch extrapolation != evaluate(interpolate on coset)"))
        }
        "fmci" => {
            // fast_modular_coset_interpolate on the modulus prod (X - p_j): preprocess + main routine
            let off = a.first()?.bfe()?;
            let v = l(1)?;
            let pts = l(2)?;
            let modulus = Polynomial::new(naive_prod(&pts));
            let arm = if v.len() < 256 {
                "lagrange"
            } else if v.len() <= 1 << 17 {
                "intt"
            } else {
                "even-odd"
            };
            st.hit(&format!("fmci:arm={} n={}", arm, v.len()));
            let pre = Polynomial::fast_modular_coset_interpolate_preprocess(v.len(), off, &modulus);
            let f = Polynomial::fast_modular_coset_interpolate_with_zerofiers_and_ntt_friendly_multiple(&v, off, &modulus, &pre);
            // f = interpolant mod modulus: degree < |pts| and, for distinct p_j, equal values at every p_j
            let ok = !all_distinct(&pts)
                || off == BFieldElement::ZERO
                || (normalized(f.coefficients()).len() <= pts.len()
                    && pts.iter().all(|&x| coset_interpolant_at(&v, off, x) == Some(horner(f.coefficients(), x))));
            Some(Out::ok(format!("ok:{}", show_poly(&f))).with_oracle(ok, "modular coset interpolant != interpolant mod modulus"))
        }
        _ => run_api::<FF>(op, a, st),
    }
}

// ---- G07: public functions without an op before the API audit (docs/POLY_API_COVERAGE.md) -------------------
fn point<FF: Fld>(a: &Arg) -> Option<(FF, FF)> {
    let l = a.list()?;
    if l.len() != 2 {
        return None;
    }
    Some((FF::parse(&l[0])?, FF::parse(&l[1])?))
}
/// a list is a leaf (`Leaf::new`), a pair `(l;r)` a branch (`Branch::new`), the symbol `P` is `Padding`
fn build_tree<FF: Fld>(a: &Arg, pts: &mut Vec<FF>, st: &mut Stats) -> Option<ZerofierTree<'static, FF>> {
    use twenty_first::math::zerofier_tree::{Branch, Leaf};
    match a {
        Arg::List(_) => {
            let p = parse_list::<FF>(a)?;
            pts.extend(p.iter().copied());
            st.hit(&format!("tree_custom:leaf-size={}", if p.len() > 16 { ">16".into() } else if p.len() > 1 { "2..16".into() } else { p.len().to_string() }));
            Some(ZerofierTree::Leaf(Leaf::new(p)))
        }
        Arg::Tup(v) if v.len() == 2 => {
            let l = build_tree(&v[0], pts, st)?;
            let r = build_tree(&v[1], pts, st)?;
            if l == ZerofierTree::Padding || r == ZerofierTree::Padding {
                st.hit("tree_custom:branch-over-padding");
            }
            Some(ZerofierTree::Branch(Box::new(Branch::new(l, r))))
        }
        Arg::Sym(s) if s == "P" => Some(ZerofierTree::Padding),
        _ => None,
    }
}
fn run_api<FF: Fld>(op: &str, a: &[Arg], st: &mut Stats) -> Option<Out> {
    let l = |i: usize| -> Option<Vec<FF>> { parse_list::<FF>(a.get(i)?) };
    match op {
        "are_colinear" => {
            let xs = l(0)?;
            let ys = l(1)?;
            if xs.len() != ys.len() {
                return None;
            }
            let pts: Vec<(FF, FF)> = xs.iter().copied().zip(ys.iter().copied()).collect();
            let r = Polynomial::<FF>::are_colinear(&pts);
            // independent: at least three points, pairwise distinct abscissae, all cross products vanish
            let distinct = all_distinct(&xs);
            let want = pts.len() >= 3
                && distinct
                && pts.iter().skip(2).all(|&(x, y)| (pts[1].0 - pts[0].0) * (y - pts[0].1) == (pts[1].1 - pts[0].1) * (x - pts[0].0));
            st.hit(&format!("are_colinear:n={} distinct={} result={}", pts.len().min(5), distinct, r));
            let mut o = Out::ok(format!("ok:{}", r)).with_oracle(r == want, "are_colinear != (n >= 3, distinct abscissae, all points on the line through the first two)");
            if pts.len() == 3 {
                let r3 = Polynomial::<FF>::are_colinear_3(pts[0], pts[1], pts[2]);
                o = o.with_oracle(r3 == r, "are_colinear_3 disagrees with are_colinear on three points");
            }
            Some(o)
        }
        "are_colinear_3" => {
            let (p0, p1, p2) = (point::<FF>(a.first()?)?, point::<FF>(a.get(1)?)?, point::<FF>(a.get(2)?)?);
            let r = Polynomial::<FF>::are_colinear_3(p0, p1, p2);
            let distinct = p0.0 != p1.0 && p1.0 != p2.0 && p2.0 != p0.0;
            let want = distinct && (p1.0 - p0.0) * (p2.1 - p0.1) == (p1.1 - p0.1) * (p2.0 - p0.0);
            st.hit(&format!("are_colinear_3:distinct={} result={}", distinct, r));
            // invariant under permutation of the points
            let perm = Polynomial::<FF>::are_colinear_3(p2, p0, p1) == r && Polynomial::<FF>::are_colinear_3(p1, p0, p2) == r;
            Some(Out::ok(format!("ok:{}", r)).with_oracle(r == want, "are_colinear_3 != cross-product test").with_oracle(perm, "are_colinear_3 depends on the order of the points"))
        }
        "get_colinear_y" => {
            let (p0, p1) = (point::<FF>(a.first()?)?, point::<FF>(a.get(1)?)?);
            let x = FF::parse(a.get(2)?)?;
            st.hit(if p0.0 == p1.0 { "get_colinear_y:vertical(panic)" } else { "get_colinear_y:ok" });
            let r = std::panic::catch_unwind(std::panic::AssertUnwindSafe(|| Polynomial::<FF>::get_colinear_y(p0, p1, x)));
            match r {
                Err(_) => Some(Out::ok("panic").with_oracle(p0.0 == p1.0, "get_colinear_y panicked although the abscissae differ")),
                Ok(y) => {
                    // (x, y) is on the line through p0 and p1; consistent with are_colinear_3 for a third abscissa
                    let on = (p1.0 - p0.0) * (y - p0.1) == (p1.1 - p0.1) * (x - p0.0);
                    let third = x == p0.0 || x == p1.0 || Polynomial::<FF>::are_colinear_3(p0, p1, (x, y));
                    let interp = p0.0 == p1.0 || Polynomial::lagrange_interpolate(&[p0.0, p1.0], &[p0.1, p1.1]).evaluate_in_same_field(x) == y;
                    Some(
                        Out::ok(format!("ok:{}", show_list(&[y])))
                            .with_oracle(p0.0 != p1.0, "get_colinear_y returned for a vertical line")
                            .with_oracle(on, "get_colinear_y: the point is not on the line")
                            .with_oracle(third, "get_colinear_y: are_colinear_3 rejects the returned point")
                            .with_oracle(interp, "get_colinear_y != evaluate(interpolate(2 points))"),
                    )
                }
            }
        }
        "tree_custom" => {
            let mut pts = vec![];
            let t = build_tree::<FF>(a.first()?, &mut pts, st)?;
            let p = l(1)?;
            let z = t.zerofier();
            let r = Polynomial::new(p.clone()).divide_and_conquer_batch_evaluate(&t);
            let ok_z = zerofier_ok(z.coefficients(), &pts);
            let ok_e = r.len() == pts.len() && pts.iter().zip(&r).all(|(&x, &y)| horner(&p, x) == y);
            Some(
                Out::ok(format!("ok:{};{}", show_list(&r), show_poly(&z)))
                    .with_oracle(ok_z, "hand-built tree: zerofier != prod (X - r_i)")
                    .with_oracle(ok_e, "hand-built tree: evaluation != Horner in left-to-right order"),
            )
        }
        _ => None,
    }
}
/// coset evaluation / interpolation over the extension field with an extension-field offset (`S = XFieldElement`)
fn run_xoff(op: &str, a: &[Arg], st: &mut Stats) -> Option<Out> {
    type X = XFieldElement;
    let dom = |off: X, n: usize| -> Option<Vec<X>> {
        let omega = BFieldElement::primitive_root_of_unity(n as u64)?;
        let mut acc = off;
        Some(
            (0..n)
                .map(|_| {
                    let d = acc;
                    acc = acc * omega;
                    d
                })
                .collect(),
        )
    };
    match op {
        "fast_coset_evaluate_xoff" => {
            let p = parse_list::<X>(a.first()?)?;
            let off = X::parse(a.get(1)?)?;
            let order = a.get(2)?.usize()?;
            st.hit(&format!("fast_coset_evaluate_xoff:order={}", order));
            let r = Polynomial::new(p.clone()).fast_coset_evaluate(off, order);
            let ok = dom(off, order).map(|d| r.len() == order && d.iter().zip(&r).all(|(&x, &y)| horner(&p, x) == y)).unwrap_or(false);
            Some(Out::ok(format!("ok:{}", show_list(&r))).with_oracle(ok, "coset evaluation (extension-field offset) != Horner on offset*omega^i"))
        }
        "fast_coset_interpolate_xoff" => {
            let off = X::parse(a.first()?)?;
            let v = parse_list::<X>(a.get(1)?)?;
            st.hit(&format!("fast_coset_interpolate_xoff:n={}", v.len()));
            let f = Polynomial::fast_coset_interpolate(off, &v);
            let ok = if v.is_empty() { f.degree() < 0 } else { dom(off, v.len()).map(|d| certificate(f.coefficients(), &d, &v)).unwrap_or(false) };
            Some(Out::ok(format!("ok:{}", show_poly(&f))).with_oracle(ok, "coset interpolant (extension-field offset) fails certificate"))
        }
        _ => None,
    }
}

fn run_bary(a: &[Arg], st: &mut Stats, tag: &str) -> Option<Out> {
    // own Lagrange interpolation on the subgroup (n <= 512), then Horner
    fn oracle<C: Fld>(cw: &[C]) -> Option<Vec<C>> {
        let n = cw.len();
        if n == 0 || n > 512 {
            return None;
        }
        let d: Vec<C> = coset(BFieldElement::ONE, n)?;
        let mut f = vec![C::ZERO; n];
        for i in 0..n {
            let others: Vec<C> = d.iter().enumerate().filter(|(j, _)| *j != i).map(|(_, &x)| x).collect();
            let num = naive_prod(&others);
            let den = horner(&num, d[i]);
            let c = cw[i] * den.inverse();
            for (k, &nk) in num.iter().enumerate() {
                f[k] = f[k] + c * nk;
            }
        }
        Some(f)
    }
    let cwa = a.first()?;
    let xa = a.get(1)?;
    match tag {
        "b" => {
            let cw = parse_list::<BFieldElement>(cwa)?;
            let x = BFieldElement::parse(xa)?;
            st.hit(&format!("barycentric:b n={}", cw.len()));
            let r: BFieldElement = barycentric_evaluate(&cw, x);
            let ok = oracle(&cw).map(|f| horner(&f, x) == r).unwrap_or(true);
            Some(Out::ok(format!("ok:{}", show_list(&[r]))).with_oracle(ok, "barycentric != evaluate(interpolate)"))
        }
        "x" => {
            let cw = parse_list::<XFieldElement>(cwa)?;
            let x = XFieldElement::parse(xa)?;
            st.hit(&format!("barycentric:x n={}", cw.len()));
            let r: XFieldElement = barycentric_evaluate(&cw, x);
            let ok = oracle(&cw).map(|f| horner(&f, x) == r).unwrap_or(true);
            Some(Out::ok(format!("ok:{}", show_list(&[r]))).with_oracle(ok, "barycentric != evaluate(interpolate)"))
        }
        _ => {
            let cwb = parse_list::<BFieldElement>(cwa)?;
            let x = XFieldElement::parse(xa)?;
            st.hit(&format!("barycentric:bx n={}", cwb.len()));
            let r: XFieldElement = barycentric_evaluate::<XFieldElement, BFieldElement, XFieldElement>(&cwb, x);
            let cw: Vec<XFieldElement> = cwb.iter().map(|&b| XFieldElement::new_const(b)).collect();
            let ok = oracle(&cw).map(|f| horner(&f, x) == r).unwrap_or(true);
            Some(Out::ok(format!("ok:{}", show_list(&[r]))).with_oracle(ok, "barycentric != evaluate(interpolate)"))
        }
    }
}

pub fn run_polyi(op: &str, args: &[Arg], st: &mut Stats) -> Option<Out> {
    let tag = args.first()?.sym()?.to_string();
    let rest = &args[1..];
    if op == "barycentric_evaluate" {
        return run_bary(rest, st, &tag);
    }
    if op == "evaluate" && tag == "bx" {
        // base-field polynomial at an extension-field point: evaluate::<XFieldElement, XFieldElement>
        let p = parse_list::<BFieldElement>(rest.first()?)?;
        let x = XFieldElement::parse(rest.get(1)?)?;
        st.hit("evaluate:mixed-fields");
        let r: XFieldElement = Polynomial::new(p.clone()).evaluate(x);
        let lifted: Vec<XFieldElement> = p.iter().map(|&c| XFieldElement::new_const(c)).collect();
        return Some(Out::ok(format!("ok:{}", show_list(&[r]))).with_oracle(r == horner(&lifted, x), "mixed-field evaluate != Horner"));
    }
    if tag == "x" && op.ends_with("_xoff") {
        return run_xoff(op, rest, st);
    }
    match tag.as_str() {
        "b" => run::<BFieldElement>(op, rest, st),
        "x" => run::<XFieldElement>(op, rest, st),
        _ => None,
    }
}

// ---- generator --------------------------------------------------------------------------------------
struct G<'a> {
    r: &'a mut Rng,
    out: &'a mut Vec<String>,
}
impl G<'_> {
    fn tag(&mut self) -> &'static str {
        if self.r.coin(1, 4) {
            "x"
        } else {
            "b"
        }
    }
    fn elem(&mut self, tag: &str) -> String {
        if tag == "x" {
            fmt_xfe(&self.r.xfe())
        } else {
            self.r.fval().to_string()
        }
    }
    fn vals(&mut self, tag: &str, n: usize) -> String {
        let v: Vec<String> = (0..n).map(|_| self.elem(tag)).collect();
        format!("[{}]", v.join(","))
    }
    /// n pairwise distinct points; structured (consecutive / coset / boundary) or random
    fn distinct_raw(&mut self, tag: &str, n: usize) -> Vec<String> {
        let mut seen = std::collections::HashSet::new();
        let mut v = Vec::with_capacity(n);
        let mode = self.r.below(4);
        let base = self.r.fval();
        let mut i = 0u64;
        while v.len() < n {
            let e = match mode {
                0 if tag == "b" => ((base as u128 + i as u128) % P as u128).to_string(),
                1 if tag == "b" => (P - 1 - i).to_string(),
                _ => self.elem(tag),
            };
            i += 1;
            let e = if i > 4 * n as u64 + 50 {
                // boundary pool exhausted: uniform
                if tag == "x" {
                    format!("({};{};{})", self.r.below(P), self.r.below(P), self.r.below(P))
                } else {
                    self.r.below(P).to_string()
                }
            } else {
                e
            };
            if seen.insert(e.clone()) {
                v.push(e);
            }
        }
        v
    }
    fn distinct(&mut self, tag: &str, n: usize) -> String {
        format!("[{}]", self.distinct_raw(tag, n).join(","))
    }
    /// mostly distinct, sometimes with a repeated element / a zero
    fn roots(&mut self, tag: &str, n: usize) -> String {
        let mut v = self.distinct_raw(tag, n);
        if n >= 2 && self.r.coin(1, 4) {
            let i = self.r.below(n as u64) as usize;
            let j = self.r.below(n as u64) as usize;
            v[i] = v[j].clone();
        }
        if n >= 1 && self.r.coin(1, 8) {
            let i = self.r.below(n as u64) as usize;
            v[i] = if tag == "x" { "(0;0;0)".into() } else { "0".into() };
        }
        format!("[{}]", v.join(","))
    }
    /// polynomial with `deg + 1` coefficients (leading one non-zero) and sometimes stored leading zeros
    fn poly(&mut self, tag: &str, ncoef: usize) -> String {
        let mut v: Vec<String> = (0..ncoef).map(|_| self.elem(tag)).collect();
        if ncoef > 0 {
            v[ncoef - 1] = if tag == "x" { format!("({};0;1)", 1 + self.r.below(P - 1)) } else { (1 + self.r.below(P - 1)).to_string() };
        }
        if self.r.coin(1, 5) {
            for _ in 0..self.r.range(1, 3) {
                v.push(if tag == "x" { "(0;0;0)".into() } else { "0".into() });
            }
        }
        format!("[{}]", v.join(","))
    }
    fn offset(&mut self) -> u64 {
        match self.r.below(8) {
            0 => 1,
            1 => 7,
            2 => P - 1,
            _ => 1 + self.r.fval() % (P - 1),
        }
    }
    fn threads(&mut self) -> u64 {
        *self.r.pick(&[1u64, 2, 3, 4, 7, 16, 64])
    }
    fn push(&mut self, s: String) {
        self.out.push(s);
    }
}

pub fn gen(rng: &mut Rng, thorough: bool, out: &mut Vec<String>) {
    let mut g = G { r: rng, out };
    let reps = if thorough { 6 } else { 2 };
    // sizes around every threshold that selects a strategy
    let small = [0usize, 1, 2, 3, 5, 8];
    let t16 = [15usize, 16, 17, 31, 32, 33, 48, 49];
    let t100 = [99usize, 100, 101];
    let t256 = [255usize, 256, 257];
    let t4096 = [4095usize, 4096, 4097];
    for _ in 0..reps {
        // ---- zerofiers
        for &n in small.iter().chain(&t16).chain(&t100).chain(&[199usize, 200, 201]).chain(&t256) {
            let tag = if n > 101 { "b" } else { g.tag() };
            for op in ["zerofier", "smart_zerofier", "fast_zerofier", "naive_zerofier"] {
                let r = g.roots(tag, n);
                g.push(format!("polyi {} {} {}", op, tag, r));
            }
            let th = g.threads();
            let r = g.roots(tag, n);
            g.push(format!("polyi par_zerofier {} {} {}", tag, th, r));
        }
        for &th in &[1u64, 2, 3, 16] {
            // par_zerofier: chunk = max(ceil(n / threads), 100)
            for &n in &[100usize * th as usize - 1, 100 * th as usize, 100 * th as usize + 1, 1000] {
                let r = g.roots("b", n);
                g.push(format!("polyi par_zerofier b {} {}", th, r));
            }
        }
        // ---- evaluate
        for &n in &[0usize, 1, 2, 3, 17, 64] {
            for _ in 0..3 {
                let tag = g.tag();
                let p = g.poly(tag, n);
                let x = g.elem(tag);
                g.push(format!("polyi evaluate {} {} {}", tag, p, x));
            }
        }
        // ---- zerofier tree: leaf chunks of 16, padding to a power of two, order
        for &n in &[0usize, 1, 15, 16, 17, 31, 32, 33, 47, 48, 49, 64, 65, 80, 81, 96, 97, 112, 113, 128, 129, 255, 256, 257] {
            let tag = if n > 64 { "b" } else { g.tag() };
            let d = g.roots(tag, n);
            g.push(format!("polyi tree {} {}", tag, d));
            // p = X reveals the order in which the leaves are visited
            let d = g.distinct(tag, n);
            let xpoly = if tag == "x" { "[(0;0;0),(1;0;0)]" } else { "[0,1]" };
            g.push(format!("polyi dc_eval {} {} {}", tag, xpoly, d));
            let nc = *g.r.pick(&[1usize, 2, 16, 17, 40, 130]);
            let p = g.poly(tag, nc);
            let d = g.roots(tag, n);
            g.push(format!("polyi dc_eval {} {} {}", tag, p, d));
        }
        // ---- bulk evaluation: degree / |domain| around the ratio 4
        for &d in &[0usize, 1, 2, 5, 16, 17, 33, 64, 100] {
            for dd in [-1i64, 0, 1] {
                let tag = if d > 33 { "b" } else { g.tag() };
                let deg = 4 * d as i64 + dd;
                if deg < 0 {
                    continue;
                }
                let p = g.poly(tag, deg as usize + 1);
                let dom = g.roots(tag, d);
                let op = *g.r.pick(&["batch_evaluate", "batch_evaluate", "iterative_batch_evaluate"]);
                g.push(format!("polyi {} {} {} {}", op, tag, p, dom));
                let th = g.threads();
                let p = g.poly(tag, deg as usize + 1);
                let dom = g.roots(tag, d);
                g.push(format!("polyi par_batch_evaluate {} {} {} {}", tag, th, p, dom));
            }
        }
        for _ in 0..12 {
            let tag = g.tag();
            let nc = *g.r.pick(&[0usize, 0, 1, 2, 7, 30, 100, 300]);
            let nd = *g.r.pick(&[0usize, 1, 3, 16, 17, 50, 120]);
            let p = if g.r.coin(1, 6) { g.vals(tag, 0) } else { g.poly(tag, nc) };
            let dom = g.roots(tag, nd);
            let th = g.threads();
            match g.r.below(3) {
                0 => g.push(format!("polyi batch_evaluate {} {} {}", tag, p, dom)),
                1 => g.push(format!("polyi par_batch_evaluate {} {} {} {}", tag, th, p, dom)),
                _ => g.push(format!("polyi iterative_batch_evaluate {} {} {}", tag, p, dom)),
            }
        }
        // all-zero storage
        g.push("polyi batch_evaluate b [0,0,0] [1,2,3]".into());
        g.push("polyi par_batch_evaluate b 4 [0,0] [1,2,3,4,5]".into());
        // ---- interpolation
        for &n in small.iter().chain(&t16).chain(&t100).chain(&t256) {
            let tag = if n > 33 { "b" } else { g.tag() };
            for op in ["interpolate", "lagrange_interpolate", "lagrange_interpolate_zipped", "fast_interpolate"] {
                if (n > 101 && op == "lagrange_interpolate_zipped") || (n == 0 && op == "lagrange_interpolate") {
                    continue; // (empty input to the hidden `lagrange_interpolate` is caught by a debug_assert only)
                }
                let d = g.distinct(tag, n);
                let v = g.vals(tag, n);
                g.push(format!("polyi {} {} {} {}", op, tag, d, v));
            }
            for op in ["par_interpolate", "par_fast_interpolate"] {
                let th = g.threads();
                let d = g.distinct(tag, n);
                let v = g.vals(tag, n);
                g.push(format!("polyi {} {} {} {} {}", op, tag, th, d, v));
            }
        }
        // repeated abscissae (same half / across halves), length mismatch
        for &n in &[2usize, 3, 4, 8, 17, 32] {
            for op in ["interpolate", "lagrange_interpolate", "lagrange_interpolate_zipped", "fast_interpolate"] {
                let tag = g.tag();
                let mut d = g.distinct_raw(tag, n);
                let i = g.r.below(n as u64) as usize;
                let mut j = g.r.below(n as u64) as usize;
                if i == j {
                    j = (j + 1) % n;
                }
                d[i] = d[j].clone();
                let v = g.vals(tag, n);
                g.push(format!("polyi {} {} [{}] {}", op, tag, d.join(","), v));
            }
            let tag = g.tag();
            let d = g.distinct(tag, n);
            let v = g.vals(tag, n - 1);
            g.push(format!("polyi interpolate {} {} {}", tag, d, v));
            let d = g.distinct(tag, n);
            let v = g.vals(tag, n + 1);
            let th = g.threads();
            g.push(format!("polyi par_interpolate {} {} {} {}", tag, th, d, v));
        }
        // ---- batched interpolation (memoised by first/last point of a half)
        for &n in &[1usize, 2, 15, 16, 17, 31, 32, 33, 64, 100] {
            for rows in [0usize, 1, 3] {
                let tag = if n > 33 { "b" } else { g.tag() };
                let d = g.distinct(tag, n);
                let m: Vec<String> = (0..rows).map(|_| g.vals(tag, n)).collect();
                g.push(format!("polyi batch_fast_interpolate {} {} [{}]", tag, d, m.join(",")));
            }
        }
        {
            // key collision: both halves start and end with the same points (repeated abscissae, outside the property)
            let mut l = g.distinct_raw("b", 32);
            let r: Vec<String> = l[16..].to_vec();
            let mut rr = r.clone();
            rr[0] = l[0].clone();
            rr[15] = l[15].clone();
            l.truncate(16);
            l.extend(rr);
            let v = g.vals("b", 32);
            g.push(format!("polyi batch_fast_interpolate b [{}] [{}]", l.join(","), v));
        }
        // ---- NTT-based coset evaluation / interpolation
        for k in 0..=9u32 {
            let n = 1usize << k;
            let tag = if k > 6 { "b" } else { g.tag() };
            for nc in [n / 2, n.saturating_sub(1), n, n + 1] {
                let p = g.poly(tag, nc);
                let off = g.offset();
                g.push(format!("polyi fast_coset_evaluate {} {} {} {}", tag, p, off, n));
            }
            let off = g.offset();
            let v = g.vals(tag, n);
            g.push(format!("polyi fast_coset_interpolate {} {} {}", tag, off, v));
        }
        g.push("polyi fast_coset_evaluate b [] 3 0".into());
        g.push("polyi fast_coset_evaluate b [1,2] 3 3".into());
        g.push("polyi fast_coset_evaluate b [1,2] 0 4".into());
        g.push("polyi fast_coset_interpolate b 3 []".into());
        g.push("polyi fast_coset_interpolate b 3 [1,2,3]".into());
        g.push("polyi fast_coset_interpolate b 0 [1,2,3,4]".into());
        g.push("polyi fast_coset_interpolate x 5 [(1;2;3),(4;5;6)]".into());
        // ---- barycentric evaluation
        for k in 0..=8u32 {
            let n = 1usize << k;
            for tag in ["b", "x", "bx"] {
                let cw = g.vals(if tag == "bx" { "b" } else { tag }, n);
                let x = g.elem(if tag == "bx" { "x" } else { tag });
                g.push(format!("polyi barycentric_evaluate {} {} {}", tag, cw, x));
            }
        }
        g.push("polyi barycentric_evaluate b [] 5".into());
        g.push("polyi barycentric_evaluate b [1,2,3] 5".into());
        g.push("polyi barycentric_evaluate b [1,2,3,4] 1".into()); // inside the domain
        g.push("polyi barycentric_evaluate b [1,2,3,4] 18446744069414584320".into());
        g.push("polyi barycentric_evaluate b [1,2,3,4] 281474976710656".into());
        g.push("polyi barycentric_evaluate b [9] 1".into());
        g.push("polyi barycentric_evaluate b [1,2,3,4] 0".into());
        // ---- coset extrapolation: codeword lengths around 2^8, point counts around 100
        for &n in &[1usize, 2, 4, 16, 64, 128, 256, 512] {
            for &np in &[0usize, 1, 2, 16, 17, 50, 99, 100, 101] {
                if n >= 128 && !(np == 1 || np == 17 || np >= 99) {
                    continue;
                }
                let tag = if n >= 64 || np > 50 { "b" } else { g.tag() };
                let off = g.offset();
                let cw = g.vals(tag, n);
                let pts = g.roots(tag, np);
                g.push(format!("polyi coset_extrapolate {} {} {} {}", tag, off, cw, pts));
            }
        }
        for &n in &[1usize, 2, 8, 128, 256] {
            for &k in &[0usize, 1, 3] {
                for &np in &[0usize, 5, 99, 100] {
                    if n >= 128 && (k == 3 && np == 5) {
                        continue;
                    }
                    let tag = if n >= 128 || np > 5 { "b" } else { g.tag() };
                    let off = g.offset();
                    let extra = if g.r.coin(1, 3) { g.r.below(n as u64) as usize } else { 0 };
                    let cws = g.vals(tag, n * k + extra);
                    let pts = g.roots(tag, np);
                    if g.r.coin(1, 2) {
                        g.push(format!("polyi batch_coset_extrapolate {} {} {} {} {}", tag, off, n, cws, pts));
                    } else {
                        let th = g.threads();
                        g.push(format!("polyi par_batch_coset_extrapolate {} {} {} {} {} {}", tag, th, off, n, cws, pts));
                    }
                }
            }
        }
        // malformed: offset 0, length not a power of two, empty codeword, codeword_length 0
        g.push("polyi coset_extrapolate b 0 [5] [1,2]".into());
        g.push("polyi coset_extrapolate b 0 [5,6] [1,2]".into());
        g.push("polyi coset_extrapolate b 3 [5,6,7] [1,2]".into());
        g.push("polyi coset_extrapolate b 3 [] [1,2]".into());
        {
            let pts = g.distinct("b", 100);
            g.push(format!("polyi coset_extrapolate b 3 [] {}", pts));
            let pts = g.distinct("b", 100);
            g.push(format!("polyi coset_extrapolate b 0 [1,2] {}", pts));
            let pts = g.distinct("b", 100);
            g.push(format!("polyi coset_extrapolate b 3 [1,2,3] {}", pts));
            let pts = g.distinct("b", 100);
            g.push(format!("polyi batch_coset_extrapolate b 3 3 [] {}", pts));
            let pts = g.distinct("b", 100);
            g.push(format!("polyi batch_coset_extrapolate b 3 3 [1,2,3] {}", pts));
            let pts = g.distinct("b", 100);
            g.push(format!("polyi batch_coset_extrapolate b 3 0 [1,2,3] {}", pts));
            let pts = g.distinct("b", 100);
            g.push(format!("polyi batch_coset_extrapolate b 0 2 [] {}", pts));
        }
        g.push("polyi batch_coset_extrapolate b 3 0 [1,2,3] [4]".into());
        g.push("polyi batch_coset_extrapolate b 3 3 [] [4]".into());
        g.push("polyi batch_coset_extrapolate b 0 1 [7,8] [4]".into());
        g.push("polyi batch_coset_extrapolate b 0 2 [] [4]".into());
        // ---- modular coset interpolation, all reachable arms
        for &n in &[1usize, 2, 64, 128, 256, 512] {
            for &np in &[1usize, 2, 20, 64] {
                let tag = if n >= 128 { "b" } else { g.tag() };
                let off = g.offset();
                let v = g.vals(tag, n);
                let pts = g.distinct(tag, np);
                g.push(format!("polyi fmci {} {} {} {}", tag, off, v, pts));
            }
        }
    }
    gen_api(&mut g, thorough);
    {
        // the even/odd recursion of fast_modular_coset_interpolate at one (2^18) and two (2^19) levels, in every
        // tier: few points, base field, a fixed and a seeded offset (Rust side < 1 s in total; the model takes part)
        let mut seed = 77_000 + g.r.below(1 << 40);
        let off = 2 + g.r.below(P - 2);
        g.push(format!("polyi coset_extrapolate b 7 R:{}:262144 R:{}:2", seed, seed + 1));
        seed += 2;
        g.push(format!("polyi par_batch_coset_extrapolate b 16 {} 262144 R:{}:262144 R:{}:3", off, seed, seed + 1));
        seed += 2;
        let off = 2 + g.r.below(P - 2);
        g.push(format!("polyi coset_extrapolate b {} R:{}:524288 R:{}:1", off, seed, seed + 1));
        seed += 2;
        g.push(format!("polyi batch_coset_extrapolate b 7 524288 R:{}:524288 R:{}:2", seed, seed + 1));
    }
    if thorough {
        // sizes the repository's own suite never reaches
        for &n in &t4096 {
            let d = g.distinct("b", n);
            let v = g.vals("b", n);
            g.push(format!("polyi interpolate b {} {}", d, v));
            let d = g.distinct("b", n);
            let v = g.vals("b", n);
            g.push(format!("polyi par_interpolate b 16 {} {}", d, v));
            let r = g.roots("b", n);
            g.push(format!("polyi zerofier b {}", r));
            let r = g.distinct("b", n);
            g.push(format!("polyi tree b {}", r));
        }
        for &n in &[1023usize, 1024, 1025, 2048] {
            let d = g.distinct("b", n);
            let v = g.vals("b", n);
            g.push(format!("polyi fast_interpolate b {} {}", d, v));
            let d = g.distinct("x", n / 4);
            let v = g.vals("x", n / 4);
            g.push(format!("polyi par_fast_interpolate x 3 {} {}", d, v));
            let p = g.poly("b", 4 * n);
            let d = g.distinct("b", n);
            g.push(format!("polyi batch_evaluate b {} {}", p, d));
        }
        for &n in &[1usize << 10, 1 << 12] {
            for &np in &[17usize, 99, 100, 101] {
                let off = g.offset();
                let cw = g.vals("b", n);
                let pts = g.distinct("b", np);
                g.push(format!("polyi coset_extrapolate b {} {} {}", off, cw, pts));
            }
        }
        // 2^17 and 2^18: the INTT arm at its upper end and the even/odd recursion (compact pseudo-random form)
        let mut seed = 1000 + g.r.below(1 << 40);
        for &k in &[16u32, 17, 18, 19, 20] {
            // 2^19, 2^20: two and three levels of the even/odd recursion; the model takes part up to 2^19 with
            // at most 8 points, everything else there is decided by the implementation-side oracle alone
            for &np in &[1usize, 64, 99, 100] {
                seed += 2;
                let off = g.offset();
                g.push(format!("polyi coset_extrapolate b {} R:{}:{} R:{}:{}", off, seed, 1usize << k, seed + 1, np));
            }
            if k >= 17 {
                // extension field (few points: the model's long division over triples is slow)
                seed += 2;
                let off = g.offset();
                g.push(format!("polyi coset_extrapolate x {} R:{}:{} R:{}:{}", off, seed, 1usize << k, seed + 1, 6));
            }
            seed += 2;
            let off = g.offset();
            g.push(format!("polyi fmci b {} R:{}:{} R:{}:{}", off, seed, 1usize << k, seed + 1, 40));
            seed += 2;
            let off = g.offset();
            g.push(format!("polyi batch_coset_extrapolate b {} {} R:{}:{} R:{}:{}", off, 1usize << k, seed, 2usize << k, seed + 1, 33));
            seed += 2;
            let off = g.offset();
            g.push(format!("polyi par_batch_coset_extrapolate b 16 {} {} R:{}:{} R:{}:{}", off, 1usize << k, seed, 2usize << k, seed + 1, 33));
            if k <= 18 {
                seed += 2;
                g.push(format!("polyi fast_coset_interpolate b {} R:{}:{}", off, seed, 1usize << k));
            }
        }
    }
}

/// G07: ops for the public functions that had none (colinearity, hand-built trees, mixed fields, extension-field
/// offsets) and the one dispatch arm the quick tier never reached (`interpolate` above 4096 points)
fn gen_api(g: &mut G, thorough: bool) {
    let reps = if thorough { 40 } else { 8 };
    for _ in 0..reps {
        for &n in &[0usize, 1, 2, 3, 4, 7] {
            let tag = g.tag();
            let xs = g.distinct_raw(tag, n);
            let a = g.elem(tag);
            let b = g.elem(tag);
            let mode = g.r.below(4);
            let mut ys: Vec<String> = vec![];
            for i in 0..n {
                ys.push(match mode {
                    0 => b.clone(),                   // horizontal line: colinear
                    1 if tag == "b" => xs[i].clone(), // y = x: colinear
                    2 if i + 1 == n => a.clone(),     // horizontal except the last point
                    2 => b.clone(),
                    _ => g.elem(tag),
                });
            }
            let mut xs2 = xs.clone();
            if n >= 2 && g.r.coin(1, 5) {
                xs2[n - 1] = xs2[0].clone();
            }
            g.push(format!("polyi are_colinear {} [{}] [{}]", tag, xs2.join(","), ys.join(",")));
            if n == 3 {
                g.push(format!("polyi are_colinear_3 {} [{},{}] [{},{}] [{},{}]", tag, xs2[0], ys[0], xs2[1], ys[1], xs2[2], ys[2]));
            }
            if n >= 2 {
                let x = if g.r.coin(1, 4) { xs2[0].clone() } else { g.elem(tag) };
                g.push(format!("polyi get_colinear_y {} [{},{}] [{},{}] {}", tag, xs2[0], ys[0], xs2[n - 1], ys[n - 1], x));
            }
        }
        // y = 3x + 5 over the base field: genuinely sloped colinear points
        let x0 = g.r.below(1 << 40);
        let pts: Vec<(u64, u64)> = (0..4).map(|i| (x0 + i * 7, 3 * (x0 + i * 7) + 5)).collect();
        g.push(format!("polyi are_colinear b [{},{},{},{}] [{},{},{},{}]", pts[0].0, pts[1].0, pts[2].0, pts[3].0, pts[0].1, pts[1].1, pts[2].1, pts[3].1));
        g.push(format!("polyi are_colinear_3 b [{},{}] [{},{}] [{},{}]", pts[0].0, pts[0].1, pts[2].0, pts[2].1, pts[3].0, pts[3].1));
        g.push(format!("polyi are_colinear_3 b [{},{}] [{},{}] [{},{}]", pts[0].0, pts[0].1, pts[2].0, pts[2].1, pts[3].0, pts[3].1 + 1));
        g.push(format!("polyi get_colinear_y b [{},{}] [{},{}] {}", pts[0].0, pts[0].1, pts[1].0, pts[1].1, pts[3].0));
    }
    // hand-built zerofier trees: unbalanced, padding in any position, empty and oversized leaves
    let shapes: [&str; 9] = ["L", "P", "(L;L)", "(L;P)", "(P;L)", "(P;P)", "((L;L);L)", "(L;((L;P);(L;L)))", "((P;L);(L;(L;L)))"];
    for _ in 0..(if thorough { 10 } else { 2 }) {
        for shape in shapes {
            let tag = g.tag();
            let mut out = String::new();
            for ch in shape.chars() {
                if ch == 'L' {
                    let n = *g.r.pick(&[0usize, 1, 2, 5, 16, 17, 33]);
                    let r = g.roots(tag, n);
                    out.push_str(&r);
                } else {
                    out.push(ch);
                }
            }
            let nc = *g.r.pick(&[0usize, 1, 2, 9, 40, 130]);
            let p = g.poly(tag, nc);
            g.push(format!("polyi tree_custom {} {} {}", tag, out, p));
        }
    }
    {
        // a leaf above the zerofier cut-off (Leaf::new -> fast_zerofier)
        let r = g.roots("b", 101);
        let p = g.poly("b", 300);
        g.push(format!("polyi tree_custom b ({};P) {}", r, p));
    }
    // mixed fields; extension-field offsets
    for &n in &[0usize, 1, 2, 3, 17, 64] {
        let p = g.poly("b", n);
        let x = g.elem("x");
        g.push(format!("polyi evaluate bx {} {}", p, x));
    }
    for k in 0..=6u32 {
        let n = 1usize << k;
        for nc in [n / 2, n, n + 1] {
            let p = g.poly("x", nc);
            let off = g.elem("x");
            g.push(format!("polyi fast_coset_evaluate_xoff x {} {} {}", p, off, n));
        }
        let off = g.elem("x");
        let v = g.vals("x", n);
        g.push(format!("polyi fast_coset_interpolate_xoff x {} {}", off, v));
    }
    g.push("polyi fast_coset_interpolate_xoff x (0;0;0) [(1;2;3),(4;5;6)]".into());
    g.push("polyi fast_coset_evaluate_xoff x [(1;2;3)] (0;0;0) 2".into());
    // `interpolate` above FAST_INTERPOLATE_CUTOFF_THRESHOLD_SEQUENTIAL: the divide-and-conquer arm of the dispatcher
    let d = g.distinct("b", 4097);
    let v = g.vals("b", 4097);
    g.push(format!("polyi interpolate_dispatch b {} {}", d, v));
}
