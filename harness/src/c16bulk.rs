// PROP: C16  FAMILIES:
//! C16 growth -- HISTORY: op lines of the EXISTING op `mmri auth <start> <peak> <node count>` (the model takes part) in
//! the orders the main stream does not force: a query that returns `None` (the walk leaves the MMR without meeting the
//! peak) immediately followed by one that returns `Some`, and the other way round; a long path followed by a short one;
//! the same start node with different peaks; repeated identical queries.  A result must not depend on earlier calls.
use crate::util::*;

/// node index (1-based, post-order) of the root of a perfect tree of height h whose leftmost node is `first`
fn root_of(first: u64, h: u32) -> u64 {
    first + (1u64 << (h + 1)) - 2
}

pub fn gen(rng: &mut Rng, thorough: bool, out: &mut Vec<String>) {
    let a = |s: u64, p: u64, c: u64| format!("mmri auth {} {} {}", s, p, c);
    // the documented example first: (1,32,32) is None, (1,31,32) is [2,6,14,30]
    for (s, p, c) in [(1u64, 32u64, 32u64), (1, 31, 32), (1, 32, 32), (1, 31, 32), (1, 31, 32), (32, 32, 32), (1, 63, 63), (1, 7, 63), (1, 64, 63), (4, 7, 7)] {
        out.push(a(s, p, c));
    }
    // forests given by their leaf count: peaks left to right; start nodes inside one tree, asked for another tree's peak
    let rounds = if thorough { 400 } else { 40 };
    for _ in 0..rounds {
        let leafs = match rng.below(4) { 0 => (1u64 << rng.range(1, 40)) - 1, 1 => rng.range(2, 1 << 12), 2 => rng.next() >> rng.range(2, 40), _ => (1u64 << rng.range(1, 40)) + rng.below(5) }.max(2);
        let count = 2 * leafs - leafs.count_ones() as u64;
        // (first node, height) of every tree
        let mut trees = vec![];
        let mut first = 1u64;
        for h in (0..63u32).rev() {
            if leafs >> h & 1 == 1 {
                trees.push((first, h));
                first += (1u64 << (h + 1)) - 1;
            }
        }
        let t = rng.below(trees.len() as u64) as usize;
        let (f, h) = trees[t];
        let peak = root_of(f, h);
        let start = f + rng.below((1u64 << (h + 1)) - 1); // any node of that tree
        let leaf_start = f; // leftmost leaf: the longest path
        let other_peak = if trees.len() > 1 { let (f2, h2) = trees[(t + 1) % trees.len()]; root_of(f2, h2) } else { count + 1 };
        // None then Some, Some then None then Some, long then short, same start / other peak
        out.push(a(start, other_peak, count));
        out.push(a(start, peak, count));
        out.push(a(leaf_start, peak, count));
        out.push(a(peak, peak, count));
        out.push(a(leaf_start, count + 1, count));
        out.push(a(start, peak, count));
        out.push(a(start, peak.saturating_sub(1).max(1), count));
        out.push(a(leaf_start, peak, count));
        // a truncated MMR: the node count ends inside the tree, the walk falls off -> None, then the full count
        out.push(a(leaf_start, peak, peak - 1));
        out.push(a(leaf_start, peak, peak));
    }
}
