// PROP: C06  FAMILIES: ntt=run_ntt
//! C06 -- NTT = DFT over the base and the extension field, INTT its inverse, bit-reversed variants, root table.
//! Family `ntt`; field elements travel as canonical values, extension elements as `(c0;c1;c2)`.
//!
//!   ntt <fn> b [v..]          fn in ntt|intt|ntt_noswap|intt_noswap|bitrev|unscale   (explicit vector)
//!   ntt <fn> x [(a;b;c)..]
//!   ntt gen <fn> b|x <kind> <seed> <n>   seed-derived vector of length n (kinds: 0 uniform, 1 boundary values,
//!                                        2 scaled unit vector, 3 constant P-1); reply is a checksum of the output
//!   ntt root b|x <n>          primitive_root_of_unity
//!   ntt bitreverse <n> <l>    bitreverse_usize
//!
//! Oracles evaluated here on the implementation, independent of the model: naive sum x[j]*w^(ij) with own u128
//! arithmetic (n <= 1024), exact order of the root, unit vectors / linearity / round trip for the large sizes,
//! noswap variants against the plain ones, unscale and bitreverse_order against their definitions.
use crate::util::*;
use twenty_first::math::ntt::*;
use twenty_first::math::traits::PrimitiveRootOfUnity;
use twenty_first::prelude::*;

fn mulp(a: u64, b: u64) -> u64 {
    ((a as u128 * b as u128) % P as u128) as u64
}
fn addp(a: u64, b: u64) -> u64 {
    ((a as u128 + b as u128) % P as u128) as u64
}
fn subp(a: u64, b: u64) -> u64 {
    ((a as u128 + P as u128 - b as u128) % P as u128) as u64
}
fn powp(a: u64, mut e: u128) -> u64 {
    let mut base = a % P;
    let mut acc = 1u64;
    while e > 0 {
        if e & 1 == 1 {
            acc = mulp(acc, base);
        }
        base = mulp(base, base);
        e >>= 1;
    }
    acc
}
fn invp(a: u64) -> u64 {
    powp(a, P as u128 - 2)
}
fn is_pow2(n: usize) -> bool {
    n != 0 && n & (n - 1) == 0
}
fn rev_bits(i: usize, l: u32) -> usize {
    let mut r = 0usize;
    for b in 0..l {
        if i >> b & 1 == 1 {
            r |= 1 << (l - 1 - b);
        }
    }
    r
}

// ---- seed-derived vectors (the same generator is implemented in lean/TF/Drv/Ntt.lean) ------------------------
fn mix(mut z: u64) -> u64 {
    z = (z ^ (z >> 30)).wrapping_mul(0xBF58_476D_1CE4_E5B9);
    z = (z ^ (z >> 27)).wrapping_mul(0x94D0_49BB_1331_11EB);
    z ^ (z >> 31)
}
fn hash_at(seed: u64, i: u64) -> u64 {
    mix(seed.wrapping_add((i.wrapping_add(1)).wrapping_mul(0x9E37_79B9_7F4A_7C15)))
}
const BOUNDARY: [u64; 11] =
    [0, 1, 2, 4294967295, 4294967296, 4294967297, 1 << 63, P - 4294967296, P - 4294967295, P - 2, P - 1];
fn gen_b(kind: u64, seed: u64, n: u64, i: u64) -> u64 {
    match kind {
        0 => hash_at(seed, i) % P,
        1 => BOUNDARY[(hash_at(seed, i) % BOUNDARY.len() as u64) as usize],
        2 => {
            if i == seed % n {
                hash_at(seed, i) % P
            } else {
                0
            }
        }
        _ => P - 1,
    }
}
fn gen_x(kind: u64, seed: u64, n: u64, i: u64) -> [u64; 3] {
    if kind == 2 {
        if i == seed % n {
            [gen_b(0, seed, n, 3 * i), gen_b(0, seed, n, 3 * i + 1), gen_b(0, seed, n, 3 * i + 2)]
        } else {
            [0, 0, 0]
        }
    } else {
        [gen_b(kind, seed, n, 3 * i), gen_b(kind, seed, n, 3 * i + 1), gen_b(kind, seed, n, 3 * i + 2)]
    }
}
fn checksum(seed: u64, a: &[u64]) -> [u64; 2] {
    let r = hash_at(seed.wrapping_add(77), 0) % P;
    let mut h = 0u64;
    for &v in a.iter().rev() {
        h = addp(mulp(h, r), v);
    }
    let mut s = 0u64;
    for &v in a {
        s = addp(s, v);
    }
    [h, s]
}

// ---- the functions under test, on component vectors --------------------------------------------------------------
/// a vector of base-field elements (1 component) or of extension-field elements (3 components), by canonical values
#[derive(Clone, PartialEq, Debug)]
struct V {
    comps: Vec<Vec<u64>>, // comps[c][i]
}
impl V {
    fn len(&self) -> usize {
        self.comps[0].len()
    }
    fn is_x(&self) -> bool {
        self.comps.len() == 3
    }
    fn from_b(v: &[BFieldElement]) -> V {
        V { comps: vec![v.iter().map(|e| e.value()).collect()] }
    }
    fn from_x(v: &[XFieldElement]) -> V {
        V { comps: (0..3).map(|c| v.iter().map(|e| e.coefficients[c].value()).collect()).collect() }
    }
    fn to_b(&self) -> Vec<BFieldElement> {
        self.comps[0].iter().map(|&v| BFieldElement::new(v)).collect()
    }
    fn to_x(&self) -> Vec<XFieldElement> {
        (0..self.len())
            .map(|i| XFieldElement::new([0, 1, 2].map(|c| BFieldElement::new(self.comps[c][i]))))
            .collect()
    }
    fn fmt(&self) -> String {
        if self.is_x() {
            fmt_xfes(&self.to_x())
        } else {
            fmt_list_u64(&self.comps[0])
        }
    }
}

/// run the named library function; a panic propagates to the caller's catch_unwind
fn call(f: &str, v: &V) -> Option<V> {
    if v.is_x() {
        let mut a = v.to_x();
        match f {
            "ntt" => ntt(&mut a),
            "intt" => intt(&mut a),
            "ntt_noswap" => ntt_noswap(&mut a),
            "intt_noswap" => intt_noswap(&mut a),
            "bitrev" => bitreverse_order(&mut a),
            _ => return None,
        }
        Some(V::from_x(&a))
    } else {
        let mut a = v.to_b();
        match f {
            "ntt" => ntt(&mut a),
            "intt" => intt(&mut a),
            "ntt_noswap" => ntt_noswap(&mut a),
            "intt_noswap" => intt_noswap(&mut a),
            "bitrev" => bitreverse_order(&mut a),
            "unscale" => unscale(&mut a),
            _ => return None,
        }
        Some(V::from_b(&a))
    }
}

/// the library's root for length n (None if there is none), with the check that its order is exactly n
fn lib_root(n: usize) -> Option<(u64, bool)> {
    let r = BFieldElement::primitive_root_of_unity(n as u64)?.value();
    let exact = if n <= 1 { r == 1 } else { is_pow2(n) && powp(r, (n / 2) as u128) == P - 1 };
    Some((r, exact))
}

/// naive DFT of one component with root w: out[i] = sum_j x[j] w^(ij)
fn naive_dft(x: &[u64], w: u64) -> Vec<u64> {
    let n = x.len();
    let mut out = Vec::with_capacity(n);
    let mut wi = 1u64; // w^i
    for _ in 0..n {
        let mut acc = 0u64;
        let mut p = 1u64; // w^(i j)
        for &xj in x {
            acc = addp(acc, mulp(xj, p));
            p = mulp(p, wi);
        }
        out.push(acc);
        wi = mulp(wi, w);
    }
    out
}

fn oracle(f: &str, x: &V, y: &V, st: &mut Stats) -> Result<(), String> {
    let n = x.len();
    if y.len() != n || y.comps.len() != x.comps.len() {
        return Err(format!("{f}: output shape differs from input shape"));
    }
    let l = if n == 0 { 0 } else { n.trailing_zeros() };
    match f {
        "unscale" => {
            for c in 0..x.comps.len() {
                for i in 0..n {
                    if mulp(y.comps[c][i], (n as u64) % P) != x.comps[c][i] {
                        return Err(format!("unscale: out[{i}]*n != in[{i}]"));
                    }
                }
            }
            return Ok(());
        }
        "bitrev" => {
            if is_pow2(n) {
                for c in 0..x.comps.len() {
                    for i in 0..n {
                        if y.comps[c][rev_bits(i, l)] != x.comps[c][i] {
                            return Err(format!("bitreverse_order: out[rev({i})] != in[{i}]"));
                        }
                    }
                }
            } else {
                // a permutation of the input in any case
                for c in 0..x.comps.len() {
                    let mut a = x.comps[c].clone();
                    let mut b = y.comps[c].clone();
                    a.sort();
                    b.sort();
                    if a != b {
                        return Err("bitreverse_order: not a permutation".into());
                    }
                }
            }
            return Ok(());
        }
        _ => {}
    }
    if n == 0 {
        return Ok(());
    }
    let Some((w, exact)) = lib_root(n) else { return Err(format!("{f}: accepted a length without root")) };
    if !exact {
        return Err(format!("root for n={n} does not have order exactly n"));
    }
    let wi = invp(w);
    if n <= 1024 {
        st.hit("oracle:naive-dft");
        for c in 0..x.comps.len() {
            let xc = &x.comps[c];
            let yc = &y.comps[c];
            match f {
                "ntt" => {
                    if &naive_dft(xc, w) != yc {
                        return Err("ntt: differs from naive sum x[j]*w^(ij)".into());
                    }
                }
                "intt" => {
                    let d = naive_dft(xc, wi);
                    for i in 0..n {
                        if mulp(yc[i], n as u64) != d[i] {
                            return Err("intt: n*out differs from naive sum x[j]*w^(-ij)".into());
                        }
                    }
                }
                "ntt_noswap" => {
                    let d = naive_dft(xc, w);
                    for i in 0..n {
                        if yc[i] != d[rev_bits(i, l)] {
                            return Err("ntt_noswap: out[i] != DFT[rev(i)]".into());
                        }
                    }
                }
                "intt_noswap" => {
                    // input in bit-reversed order, output unscaled: out[i] = sum_j x[rev(j)] w^(-ij)
                    let xr: Vec<u64> = (0..n).map(|j| xc[rev_bits(j, l)]).collect();
                    if &naive_dft(&xr, wi) != yc {
                        return Err("intt_noswap: out differs from unscaled inverse DFT of the bit-reversed input".into());
                    }
                }
                _ => {}
            }
        }
    }
    // relations between the library functions (every size)
    st.hit("oracle:relations");
    match f {
        "ntt" => {
            let back = call("intt", y).unwrap();
            if &back != x {
                return Err("intt(ntt(x)) != x".into());
            }
        }
        "intt" => {
            let back = call("ntt", y).unwrap();
            if &back != x {
                return Err("ntt(intt(x)) != x".into());
            }
        }
        "ntt_noswap" => {
            let a = call("bitrev", y).unwrap();
            let b = call("ntt", x).unwrap();
            if a != b {
                return Err("bitreverse_order(ntt_noswap(x)) != ntt(x)".into());
            }
        }
        "intt_noswap" => {
            // intt(bitreverse_order(x)) * n == intt_noswap(x)
            let a = call("intt", &call("bitrev", x).unwrap()).unwrap();
            for c in 0..x.comps.len() {
                for i in 0..n {
                    if mulp(a.comps[c][i], n as u64) != y.comps[c][i] {
                        return Err("intt_noswap(x) != n * intt(bitreverse_order(x))".into());
                    }
                }
            }
        }
        _ => {}
    }
    Ok(())
}

fn size_class(n: usize) -> String {
    if n == 0 {
        "len:0".into()
    } else if is_pow2(n) {
        format!("len:2^{}", n.trailing_zeros())
    } else {
        "len:not-a-power-of-two".into()
    }
}

pub fn run_ntt(op: &str, a: &[Arg], st: &mut Stats) -> Option<Out> {
    Some(match (op, a) {
        ("root", [f, n]) => {
            let n = n.u64()?;
            match f.sym()? {
                "b" => match BFieldElement::primitive_root_of_unity(n) {
                    Some(r) => {
                        st.hit("root:some");
                        let r = r.value();
                        let exact = if n <= 1 {
                            r == 1
                        } else {
                            n.is_power_of_two() && powp(r, (n / 2) as u128) == P - 1
                        };
                        Out::ok(format!("ok:some:{r}")).with_oracle(exact, "root does not have order exactly n")
                    }
                    None => {
                        st.hit("root:none");
                        let should = n <= 1 || (n.is_power_of_two() && n <= 1 << 32);
                        Out::ok("ok:none").with_oracle(!should, "no root for a power of two <= 2^32")
                    }
                },
                "x" => match XFieldElement::primitive_root_of_unity(n) {
                    Some(r) => Out::ok(format!("ok:some:{}", fmt_xfe(&r))),
                    None => Out::ok("ok:none"),
                },
                _ => return None,
            }
        }
        ("bitreverse", [n, l]) => {
            let (n, l) = (n.usize()?, l.usize()?);
            let r = bitreverse_usize(n, l);
            let want = if l == 0 { 0 } else { rev_bits(n & (usize::MAX >> (64 - l)), l as u32) };
            Out::ok(format!("ok:{r}")).with_oracle(r == want, "bitreverse_usize differs from bit reversal")
        }
        // `big`: same as `gen`, but the model driver has no handler for it (answers `skip`): implementation-only
        // oracle ops that bring the sizes 2^17 .. 2^20 into the quick tier
        ("gen", [f, fld, kind, seed, n]) | ("big", [f, fld, kind, seed, n]) => {
            let (f, kind, seed, n) = (f.sym()?, kind.u64()?, seed.u64()?, n.u64()?);
            let is_x = match fld.sym()? {
                "b" => false,
                "x" => true,
                _ => return None,
            };
            st.hit(&format!("gen:{f}:{}:{}", if is_x { "x" } else { "b" }, size_class(n as usize)));
            st.hit(&format!("gen-kind:{kind}"));
            let mk = |seed: u64| -> V {
                if is_x {
                    let mut comps = vec![Vec::with_capacity(n as usize); 3];
                    for i in 0..n {
                        let e = gen_x(kind, seed, n, i);
                        for c in 0..3 {
                            comps[c].push(e[c]);
                        }
                    }
                    V { comps }
                } else {
                    V { comps: vec![(0..n).map(|i| gen_b(kind, seed, n, i)).collect()] }
                }
            };
            let x = mk(seed);
            let y = call(f, &x)?;
            let mut sums = vec![];
            for c in 0..y.comps.len() {
                sums.extend_from_slice(&checksum(seed, &y.comps[c]));
            }
            let mut out = Out::ok(format!("ok:{}", fmt_list_u64(&sums)));
            if let Err(e) = oracle(f, &x, &y, st) {
                out = out.with_oracle(false, e);
            }
            // spot check of a few output indices against the naive sum (every function, every size > 1024)
            if n > 1024 && is_pow2(n as usize) && matches!(f, "ntt" | "intt" | "ntt_noswap" | "intt_noswap") {
                st.hit("oracle:spot-check-naive-sum");
                let (w, _) = lib_root(n as usize)?;
                let l = n.trailing_zeros();
                let nn = n as usize;
                let root = if f == "ntt" || f == "ntt_noswap" { w } else { invp(w) };
                for &i in &[1usize, nn / 2 + 1, nn - 1, (seed % n) as usize] {
                    // position in the output where DFT index i sits / which input order is summed
                    let out_pos = if f == "ntt_noswap" { rev_bits(i, l) } else { i };
                    let step = powp(root, i as u128);
                    for c in 0..x.comps.len() {
                        let mut acc = 0u64;
                        let mut p = 1u64;
                        for j in 0..nn {
                            let xj = if f == "intt_noswap" { x.comps[c][rev_bits(j, l)] } else { x.comps[c][j] };
                            acc = addp(acc, mulp(xj, p));
                            p = mulp(p, step);
                        }
                        let got = if f == "intt" { mulp(y.comps[c][out_pos], n % P) } else { y.comps[c][out_pos] };
                        if got != acc {
                            out = out.with_oracle(false, format!("{f}: output index {out_pos} differs from the naive sum (n={n})"));
                        }
                    }
                }
            }
            // large-size oracles on the forward transform: unit vectors and linearity
            if f == "ntt" && n >= 2 {
                let (w, _) = lib_root(n as usize)?;
                if kind == 2 {
                    st.hit("oracle:unit-vector");
                    let j = seed % n;
                    let wj = powp(w, j as u128);
                    for c in 0..x.comps.len() {
                        let cval = x.comps[c][j as usize];
                        let mut p = cval; // c * w^(i j)
                        for i in 0..n as usize {
                            if y.comps[c][i] != p {
                                out = out.with_oracle(false, format!("ntt(c*e_{j})[{i}] != c*w^({i}*{j})"));
                                break;
                            }
                            p = mulp(p, wj);
                        }
                    }
                } else {
                    st.hit("oracle:linearity");
                    let z = mk(seed.wrapping_add(1));
                    let s = hash_at(seed, 1 << 40) % P;
                    let mut comb = x.clone();
                    for c in 0..x.comps.len() {
                        for i in 0..n as usize {
                            comb.comps[c][i] = addp(mulp(s, x.comps[c][i]), z.comps[c][i]);
                        }
                    }
                    let fz = call(f, &z)?;
                    let fc = call(f, &comb)?;
                    'outer: for c in 0..x.comps.len() {
                        for i in 0..n as usize {
                            if fc.comps[c][i] != addp(mulp(s, y.comps[c][i]), fz.comps[c][i]) {
                                out = out.with_oracle(false, "ntt(s*x+z) != s*ntt(x)+ntt(z)");
                                break 'outer;
                            }
                        }
                    }
                }
            }
            out
        }
        (f, [fld, xs]) => {
            let x = match fld.sym()? {
                "b" => V::from_b(&xs.bfes()?),
                "x" => V::from_x(&xs.xfes()?),
                _ => return None,
            };
            st.hit(&format!("{f}:{}:{}", if x.is_x() { "x" } else { "b" }, size_class(x.len())));
            let y = call(f, &x)?;
            let mut out = Out::ok(format!("ok:{}", y.fmt()));
            if let Err(e) = oracle(f, &x, &y, st) {
                out = out.with_oracle(false, e);
            }
            out
        }
        _ => return None,
    })
}

// ---- generator -----------------------------------------------------------------------------------------------------
fn vec_b(rng: &mut Rng, n: usize) -> Vec<u64> {
    match rng.below(8) {
        0 => {
            // scaled unit vector
            let mut v = vec![0u64; n];
            if n > 0 {
                let j = rng.below(n as u64) as usize;
                v[j] = rng.fval();
            }
            v
        }
        1 => vec![*rng.pick(&[0u64, 1, P - 1]); n],
        2 => (0..n).map(|_| *rng.pick(&[0u64, 1, P - 1, P - 2, 1 << 32, (1 << 32) - 1])).collect(),
        _ => (0..n).map(|_| rng.fval()).collect(),
    }
}
fn fmt_x(v: &[[u64; 3]]) -> String {
    let s: Vec<String> = v.iter().map(|e| format!("({};{};{})", e[0], e[1], e[2])).collect();
    format!("[{}]", s.join(","))
}
fn vec_x(rng: &mut Rng, n: usize) -> Vec<[u64; 3]> {
    let a = vec_b(rng, n);
    let b = vec_b(rng, n);
    let c = vec_b(rng, n);
    (0..n).map(|i| [a[i], b[i], c[i]]).collect()
}

pub fn gen(rng: &mut Rng, thorough: bool, out: &mut Vec<String>) {
    const FNS: [&str; 5] = ["ntt", "intt", "ntt_noswap", "intt_noswap", "bitrev"];
    // roots: every table entry, neighbours, non-entries
    for k in 0..=33u32 {
        let n = 1u128 << k;
        for d in [-1i128, 0, 1] {
            let v = n as i128 + d;
            if v >= 0 && v <= u64::MAX as i128 {
                out.push(format!("ntt root b {v}"));
                out.push(format!("ntt root x {v}"));
            }
        }
    }
    for v in [0u64, 3, 6, 12, 1 << 40, 1 << 63, u64::MAX, P, P - 1] {
        out.push(format!("ntt root b {v}"));
    }
    // every function on every small length (powers of two and not), both fields, spanning set + boundary values
    for n in 0..=20usize {
        for f in FNS {
            out.push(format!("ntt {f} b {}", fmt_list_u64(&vec_b(rng, n))));
            out.push(format!("ntt {f} x {}", fmt_x(&vec_x(rng, n))));
        }
        out.push(format!("ntt unscale b {}", fmt_list_u64(&vec_b(rng, n))));
    }
    for n in [24usize, 31, 33, 48, 63, 65, 96, 100, 127, 129, 255, 257, 1000, 1023, 1025, 4095, 4097] {
        let f = *rng.pick(&FNS);
        out.push(format!("ntt {f} b {}", fmt_list_u64(&vec_b(rng, n))));
        out.push(format!("ntt bitrev b {}", fmt_list_u64(&vec_b(rng, n))));
        out.push(format!("ntt unscale b {}", fmt_list_u64(&vec_b(rng, n))));
        let f = *rng.pick(&FNS);
        out.push(format!("ntt {f} x {}", fmt_x(&vec_x(rng, n.min(300)))));
    }
    // all unit vectors of the small sizes: the transform on a spanning set
    for k in 1..=5u32 {
        let n = 1usize << k;
        for j in 0..n {
            let mut v = vec![0u64; n];
            v[j] = 1;
            out.push(format!("ntt ntt b {}", fmt_list_u64(&v)));
            out.push(format!("ntt ntt_noswap b {}", fmt_list_u64(&v)));
            let xv: Vec<[u64; 3]> = (0..n).map(|i| if i == j { [0, 1, 0] } else { [0, 0, 0] }).collect();
            out.push(format!("ntt ntt x {}", fmt_x(&xv)));
        }
    }
    // random explicit vectors, lengths 2^0 .. 2^12
    let reps = if thorough { 40 } else { 6 };
    for k in 0..=12u32 {
        let n = 1usize << k;
        let r = if k <= 6 { reps * 4 } else if k <= 10 { reps } else { 2 };
        for _ in 0..r {
            let f = *rng.pick(&FNS);
            if rng.coin(3, 5) {
                out.push(format!("ntt {f} b {}", fmt_list_u64(&vec_b(rng, n))));
            } else {
                out.push(format!("ntt {f} x {}", fmt_x(&vec_x(rng, n))));
            }
        }
        out.push(format!("ntt unscale b {}", fmt_list_u64(&vec_b(rng, n))));
    }
    // bitreverse_usize
    for _ in 0..(if thorough { 2000 } else { 200 }) {
        let l = *rng.pick(&[0u64, 1, 2, 3, 8, 16, 31, 32, 33, 63, 64]);
        let n = match rng.below(3) {
            0 => rng.next(),
            1 => {
                if l >= 64 {
                    rng.next()
                } else {
                    rng.below(1 << l)
                }
            }
            _ => rng.below(1 << 12),
        };
        out.push(format!("ntt bitreverse {n} {l}"));
    }
    // seed-derived vectors: every kind, every function, sizes up to 2^14 (quick) / 2^20 (thorough)
    let top = if thorough { 20 } else { 14 };
    for k in 0..=top {
        let n = 1u64 << k;
        let reps = if k <= 14 { 3 } else { 1 };
        for _ in 0..reps {
            for fld in ["b", "x"] {
                let kind = rng.below(4);
                let f = if k > 16 { *rng.pick(&["ntt", "ntt", "intt", "ntt_noswap", "intt_noswap"]) } else { *rng.pick(&FNS) };
                out.push(format!("ntt gen {f} {fld} {kind} {} {n}", rng.next() >> 1));
                out.push(format!("ntt gen ntt {fld} 2 {} {n}", rng.next() >> 1));
            }
        }
    }
    // implementation-only oracle ops at the large sizes, in every tier (the model answers `skip`): round trip /
    // noswap relations, spot check against the naive sum, unit vectors e_1, e_{n/2+1}, e_{n-1} and linearity
    for k in 17..=20u32 {
        let n = 1u64 << k;
        for fld in ["b", "x"] {
            for f in ["ntt", "intt", "ntt_noswap", "intt_noswap"] {
                let kind = *rng.pick(&[0u64, 0, 1, 2]);
                out.push(format!("ntt big {f} {fld} {kind} {} {n}", rng.next() >> 1));
            }
            // unit vectors: kind 2 puts the non-zero entry at seed % n
            for j in [1u64, n / 2 + 1, n - 1] {
                let seed = ((rng.next() >> 1) / n) * n + j;
                out.push(format!("ntt big ntt {fld} 2 {seed} {n}"));
            }
        }
    }
    for n in [3u64, 5, 6, 7, 12, 1000, 4097, 65535, 65537] {
        let f = *rng.pick(&FNS);
        out.push(format!("ntt gen {f} b 0 {} {n}", rng.next() >> 1));
        out.push(format!("ntt gen bitrev x 1 {} {n}", rng.next() >> 1));
        out.push(format!("ntt gen unscale b 0 {} {n}", rng.next() >> 1));
    }
}
