// PROP: C05 C11 C12  FAMILIES:
//! C05 / C11 / C12 growth -- BULK and HISTORY ops of the MMR properties, family `mmrp` (`c05.rs` falls through to
//! `run_mmrp_more`).  Operands derive from a seed inside the op; every oracle is a from-scratch recomputation over the
//! explicit leaf list (perfect trees per peak, bottom-up with `Tip5::hash_pair` only); the model answers `skip`.
//!
//!   mmrp bulk new <seed> <n>            MmrAccumulator::new_from_leafs of n leafs: peaks / count against the forest,
//!                                       the proof returned by a following append is the from-scratch path
//!   mmrp bulk mutate <seed> <n> <m> <t> batch_mutate_leaf_and_update_mps with m mutations and t tracked proofs, and
//!                                       verify_batch_update (accepting the recomputed peaks, with and without appended
//!                                       leafs; rejecting altered peaks)
//!   mmrp bulk succ <seed> <n> <k>       MmrSuccessorProof::new_from_batch_append with k appended leafs: verifies between
//!                                       the two accumulators, not against others
//!   mmrp fork <seed>                    HISTORY: two accumulators with the SAME leaf count that differ in one leaf get
//!                                       the SAME leaf appended; the tracked proofs of both sides are updated one after
//!                                       the other (update_from_append / batch_update_from_append, both orders) and
//!                                       must be the from-scratch paths of their own side
use crate::util::*;
use twenty_first::prelude::*;
use twenty_first::util_types::mmr::mmr_accumulator::MmrAccumulator;
use twenty_first::util_types::mmr::mmr_membership_proof::MmrMembershipProof;
use twenty_first::util_types::mmr::mmr_successor_proof::MmrSuccessorProof;
use twenty_first::util_types::mmr::mmr_trait::LeafMutation;

/// the forest over an explicit leaf list: per peak (highest first) its start and all levels, level 0 = leafs
struct Forest {
    trees: Vec<(u64, Vec<Vec<Digest>>)>,
}
impl Forest {
    fn new(leaves: &[Digest]) -> Forest {
        let n = leaves.len() as u64;
        let mut trees = vec![];
        let mut start = 0u64;
        for h in (0..64u32).rev() {
            if n >> h & 1 == 1 {
                let mut levels = vec![leaves[start as usize..(start + (1 << h)) as usize].to_vec()];
                for _ in 0..h {
                    let prev = levels.last().unwrap();
                    let next: Vec<Digest> = prev.chunks(2).map(|c| Tip5::hash_pair(c[0], c[1])).collect();
                    levels.push(next);
                }
                trees.push((start, levels));
                start += 1 << h;
            }
        }
        Forest { trees }
    }
    fn peaks(&self) -> Vec<Digest> {
        self.trees.iter().map(|(_, l)| l.last().unwrap()[0]).collect()
    }
    fn path(&self, i: u64) -> Vec<Digest> {
        let (s, levels) = self.trees.iter().find(|(s, l)| i >= *s && i - *s < l[0].len() as u64).unwrap();
        let mut j = (i - s) as usize;
        let mut p = vec![];
        for l in &levels[..levels.len() - 1] {
            p.push(l[j ^ 1]);
            j /= 2;
        }
        p
    }
}

fn leaves_of(r: &mut Rng, n: usize) -> Vec<Digest> {
    (0..n).map(|_| r.digest_u()).collect()
}
fn cks(ds: &[Digest]) -> u64 {
    let mut acc = ds.len() as u64;
    for d in ds {
        for x in d.values() {
            acc = acc.wrapping_mul(0x100_0000_01b3).wrapping_add(x.value());
        }
    }
    acc
}
fn distinct(r: &mut Rng, n: u64, k: usize) -> Vec<u64> {
    // k distinct indices below n (k <= n): boundary indices first, then a strided walk with a random offset
    let mut seen = std::collections::BTreeSet::new();
    let mut v = vec![];
    for c in [0, n - 1, n / 2, n.saturating_sub(2), 1 % n] {
        if v.len() < k && seen.insert(c) { v.push(c); }
    }
    while v.len() < k {
        let c = r.below(n);
        if seen.insert(c) { v.push(c); }
    }
    v
}

pub fn run_mmrp_more(op: &str, a: &[Arg], st: &mut Stats) -> Option<Out> {
    Some(match (op, a) {
        ("bulk", [what, seed, n, rest @ ..]) => {
            let (what, seed, n) = (what.sym()?, seed.u64()?, n.usize()?);
            if n == 0 || n > 1 << 20 { return None; }
            let mut r = Rng::new(seed);
            let leaves = leaves_of(&mut r, n);
            st.hit(&format!("bulk:{}:n>=2^{}", what, n.ilog2()));
            match (what, rest) {
                ("new", []) => {
                    let mut acc = MmrAccumulator::new_from_leafs(leaves.clone());
                    let f = Forest::new(&leaves);
                    let mut o = Out::ok(format!("ok:{}|{}", n, cks(&f.peaks())))
                        .with_oracle(acc.peaks() == f.peaks(), format!("new_from_leafs of {} leafs: peaks differ from the roots of the from-scratch forest", n))
                        .with_oracle(acc.num_leafs() == n as u64, "new_from_leafs: wrong leaf count");
                    // three more appends: returned proofs are the from-scratch paths and verify
                    let mut all = leaves.clone();
                    for _ in 0..3 {
                        let l = r.digest_u();
                        let mp = acc.append(l);
                        all.push(l);
                        let f2 = Forest::new(&all);
                        let i = all.len() as u64 - 1;
                        o = o.with_oracle(acc.peaks() == f2.peaks() && acc.num_leafs() == all.len() as u64, format!("append after new_from_leafs({} leafs): accumulator differs from the from-scratch forest", n))
                            .with_oracle(mp.authentication_path == f2.path(i), "append: returned membership proof is not the from-scratch path")
                            .with_oracle(mp.verify(i, l, &acc.peaks(), acc.num_leafs()), "append: returned membership proof does not verify");
                    }
                    o
                }
                ("mutate", [m, t]) => {
                    let (m, t) = (m.usize()?, t.usize()?);
                    if m > n || t > n { return None; }
                    let f = Forest::new(&leaves);
                    let mut acc = MmrAccumulator::new_from_leafs(leaves.clone());
                    let old = acc.clone();
                    let midx = distinct(&mut r, n as u64, m);
                    // tracked: half of them among the mutated leafs, half anywhere (repetitions allowed)
                    let tidx: Vec<u64> = (0..t).map(|j| if j % 2 == 0 && !midx.is_empty() { midx[r.below(midx.len() as u64) as usize] } else { r.below(n as u64) }).collect();
                    let mut new_leaves = leaves.clone();
                    let muts: Vec<LeafMutation> = midx.iter().map(|&i| {
                        let nl = r.digest_u();
                        new_leaves[i as usize] = nl;
                        LeafMutation::new(i, nl, MmrMembershipProof::new(f.path(i)))
                    }).collect();
                    let f2 = Forest::new(&new_leaves);
                    let mut mps: Vec<MmrMembershipProof> = tidx.iter().map(|&i| MmrMembershipProof::new(f.path(i))).collect();
                    let before = mps.clone();
                    let mut modified = {
                        let mut refs: Vec<&mut MmrMembershipProof> = mps.iter_mut().collect();
                        acc.batch_mutate_leaf_and_update_mps(&mut refs, &tidx, muts.clone())
                    };
                    modified.sort_unstable();
                    modified.dedup();
                    let want_mod: Vec<usize> = (0..t).filter(|&j| before[j] != mps[j]).collect();
                    let bad_path = (0..t).find(|&j| mps[j].authentication_path != f2.path(tidx[j]));
                    let bad_verify = (0..t).find(|&j| !mps[j].verify(tidx[j], new_leaves[tidx[j] as usize], &acc.peaks(), acc.num_leafs()));
                    // verify_batch_update on the old accumulator
                    let apps: Vec<Digest> = (0..5).map(|_| r.digest_u()).collect();
                    let mut with_apps = new_leaves.clone();
                    with_apps.extend_from_slice(&apps);
                    let f3 = Forest::new(&with_apps);
                    let mut wrong = f2.peaks();
                    let k = wrong.len() - 1;
                    wrong[k].0[2] = wrong[k].0[2] + BFieldElement::new(1);
                    Out::ok(format!("ok:{}|{}|{}|{}", n, m, t, cks(&f2.peaks())))
                        .with_oracle(acc.peaks() == f2.peaks() && acc.num_leafs() == n as u64, format!("batch_mutate_leaf_and_update_mps ({} mutations, {} leafs): peaks differ from the from-scratch forest over the mutated leaf list", m, n))
                        .with_oracle(bad_path.is_none(), format!("batch_mutate_leaf_and_update_mps ({} mutations, {} tracked proofs): tracked proof {:?} is not the from-scratch path", m, t, bad_path))
                        .with_oracle(bad_verify.is_none(), format!("batch_mutate_leaf_and_update_mps: tracked proof {:?} does not verify afterwards", bad_verify))
                        .with_oracle(modified == want_mod, format!("batch_mutate_leaf_and_update_mps: returned modified set has {} entries, {} proofs changed", modified.len(), want_mod.len()))
                        .with_oracle(old.verify_batch_update(&f2.peaks(), &[], muts.clone()), format!("verify_batch_update rejects the from-scratch peaks after {} mutations", m))
                        .with_oracle(old.verify_batch_update(&f3.peaks(), &apps, muts.clone()), format!("verify_batch_update rejects the from-scratch peaks after {} mutations and 5 appends", m))
                        .with_oracle(m == 0 || !old.verify_batch_update(&wrong, &[], muts.clone()), "verify_batch_update accepts altered peaks")
                        .with_oracle(!old.verify_batch_update(&f2.peaks(), &apps, muts.clone()), "verify_batch_update accepts the peaks without the appended leafs")
                        .with_oracle(old.verify_batch_update(&f2.peaks(), &[], muts.clone()), "verify_batch_update rejects the from-scratch peaks when asked again after two rejected updates")
                        .with_oracle((0..t.min(8)).all(|j| !mps[j].verify(tidx[j] ^ 1, new_leaves[tidx[j] as usize], &acc.peaks(), acc.num_leafs()) || new_leaves[tidx[j] as usize] == new_leaves[(tidx[j] ^ 1) as usize % n])
                            && (0..t.min(8)).all(|j| mps[j].verify(tidx[j], new_leaves[tidx[j] as usize], &acc.peaks(), acc.num_leafs())), "membership proof: accepted for the sibling index, or rejected for its own index right after a rejected claim")
                }
                ("memberupd", [t]) => {
                    // the STATIC batch routines of MmrMembershipProof with MANY tracked proofs (a chunked / parallel
                    // rewrite must still report the right positions): batch_update_from_leaf_mutation,
                    // batch_update_from_batch_leaf_mutation, batch_update_from_append
                    let t = t.usize()?;
                    if t > n { return None; }
                    let f = Forest::new(&leaves);
                    let tidx: Vec<u64> = (0..t).map(|j| ((j as u64) * 7 + 3) % n as u64).collect();
                    let mut o = Out::ok(format!("ok:{}|{}", n, t));
                    // (1) one leaf mutation, every tracked proof passed through the batch routine
                    for &mi in &[(n as u64) / 2, n as u64 - 1, 0] {
                        let nl = r.digest_u();
                        let mut new_leaves = leaves.clone();
                        new_leaves[mi as usize] = nl;
                        let f2 = Forest::new(&new_leaves);
                        let mut mps: Vec<MmrMembershipProof> = tidx.iter().map(|&i| MmrMembershipProof::new(f.path(i))).collect();
                        let before = mps.clone();
                        let mut modified: Vec<usize> =
                            MmrMembershipProof::batch_update_from_leaf_mutation(&mut mps, &tidx, LeafMutation::new(mi, nl, MmrMembershipProof::new(f.path(mi)))).into_iter().map(|x| x as usize).collect();
                        modified.sort_unstable();
                        modified.dedup();
                        let want: Vec<usize> = (0..t).filter(|&j| before[j] != mps[j]).collect();
                        let bad = (0..t).find(|&j| mps[j].authentication_path != f2.path(tidx[j]));
                        o = o
                            .with_oracle(bad.is_none(), format!("batch_update_from_leaf_mutation ({} tracked proofs, leaf {} mutated): proof {:?} is not the from-scratch path", t, mi, bad))
                            .with_oracle(modified == want, format!("batch_update_from_leaf_mutation ({} tracked proofs, leaf {} mutated): reported {} positions, {} proofs changed (first reported {:?}, first changed {:?})", t, mi, modified.len(), want.len(), modified.first(), want.first()));
                    }
                    // (2) a batch of mutations
                    {
                        let midx = distinct(&mut r, n as u64, 5.min(n));
                        let mut new_leaves = leaves.clone();
                        let muts: Vec<LeafMutation> = midx.iter().map(|&i| {
                            let nl = r.digest_u();
                            new_leaves[i as usize] = nl;
                            LeafMutation::new(i, nl, MmrMembershipProof::new(f.path(i)))
                        }).collect();
                        let f2 = Forest::new(&new_leaves);
                        let mut mps: Vec<MmrMembershipProof> = tidx.iter().map(|&i| MmrMembershipProof::new(f.path(i))).collect();
                        let before = mps.clone();
                        let mut modified = {
                            let mut refs: Vec<&mut MmrMembershipProof> = mps.iter_mut().collect();
                            MmrMembershipProof::batch_update_from_batch_leaf_mutation(&mut refs, &tidx, muts)
                        };
                        modified.sort_unstable();
                        modified.dedup();
                        let want: Vec<usize> = (0..t).filter(|&j| before[j] != mps[j]).collect();
                        let bad = (0..t).find(|&j| mps[j].authentication_path != f2.path(tidx[j]));
                        o = o
                            .with_oracle(bad.is_none(), format!("batch_update_from_batch_leaf_mutation ({} tracked proofs): proof {:?} is not the from-scratch path", t, bad))
                            .with_oracle(modified == want, format!("batch_update_from_batch_leaf_mutation ({} tracked proofs): reported {} positions, {} proofs changed", t, modified.len(), want.len()));
                    }
                    // (3) an append
                    {
                        let nl = r.digest_u();
                        let mut all = leaves.clone();
                        all.push(nl);
                        let f2 = Forest::new(&all);
                        let mut mps: Vec<MmrMembershipProof> = tidx.iter().map(|&i| MmrMembershipProof::new(f.path(i))).collect();
                        let before = mps.clone();
                        let mut modified = {
                            let mut refs: Vec<&mut MmrMembershipProof> = mps.iter_mut().collect();
                            MmrMembershipProof::batch_update_from_append(&mut refs, &tidx, n as u64, nl, &f.peaks())
                        };
                        modified.sort_unstable();
                        modified.dedup();
                        let want: Vec<usize> = (0..t).filter(|&j| before[j] != mps[j]).collect();
                        let bad = (0..t).find(|&j| mps[j].authentication_path != f2.path(tidx[j]));
                        o = o
                            .with_oracle(bad.is_none(), format!("batch_update_from_append ({} tracked proofs): proof {:?} is not the from-scratch path", t, bad))
                            .with_oracle(modified == want, format!("batch_update_from_append ({} tracked proofs): reported {} positions, {} proofs changed", t, modified.len(), want.len()));
                    }
                    o
                }
                ("succ", [k]) => {
                    let k = k.usize()?;
                    if k > 1 << 18 { return None; }
                    let old = MmrAccumulator::new_from_leafs(leaves.clone());
                    let apps = leaves_of(&mut r, k);
                    let sp = MmrSuccessorProof::new_from_batch_append(&old, &apps);
                    let mut all = leaves.clone();
                    all.extend_from_slice(&apps);
                    let f2 = Forest::new(&all);
                    let new = MmrAccumulator::init(f2.peaks(), all.len() as u64);
                    let mut inc = old.clone();
                    for l in &apps { inc.append(*l); }
                    // NOT a successor: the same appended leafs on top of an old leaf list that differs in one leaf
                    // (an accumulator that differs in an APPENDED leaf only is a successor of `old`, too, and may verify)
                    let mut other = all.clone();
                    let j = [0, n - 1, n / 2][(seed % 3) as usize];
                    other[j] = r.digest_u();
                    let not_succ = MmrAccumulator::new_from_leafs(other);
                    let mut tampered = sp.clone();
                    let tamper_ok = match tampered.paths.last_mut() {
                        Some(d) => { d.0[0] = d.0[0] + BFieldElement::new(1); !tampered.verify(&old, &new) }
                        None => true,
                    };
                    Out::ok(format!("ok:{}|{}|{}|{}", n, k, sp.paths.len(), cks(&f2.peaks())))
                        .with_oracle(inc.peaks() == f2.peaks() && inc.num_leafs() == all.len() as u64, format!("{} appends to an accumulator of {} leafs: peaks differ from the from-scratch forest", k, n))
                        .with_oracle(sp.verify(&old, &new), format!("new_from_batch_append({} leafs + {} appended): the proof does not verify between the two accumulators", n, k))
                        .with_oracle(!sp.verify(&old, &not_succ), format!("successor proof verifies against an accumulator of the same size whose old leaf {} differs (not a successor)", j))
                        .with_oracle(k == 0 || !sp.verify(&new, &old), "successor proof verifies with the two accumulators swapped")
                        .with_oracle(tamper_ok, "successor proof with one altered digest verifies")
                        .with_oracle(sp.verify(&old, &new), "successor proof rejected when verified again after rejected claims")
                }
                _ => return None,
            }
        }
        ("fork", [seed]) => {
            let mut r = Rng::new(seed.u64()?);
            let mut o = Out::ok("ok");
            let mut steps = 0u32;
            for round in 0..40u64 {
                // leaf counts whose append merges several peaks (trailing ones), so that old peaks become siblings
                let n = match round % 8 { 0 => 3u64, 1 => 7, 2 => 15, 3 => 11, 4 => 31, 5 => 23, 6 => 1 + r.below(64), _ => (1 << (1 + r.below(6))) - 1 };
                let la = leaves_of(&mut r, n as usize);
                let mut lb = la.clone();
                // the sides differ in one leaf (any position: in a merged peak, in the tracked leaf's own peak, elsewhere)
                let d = match round % 3 { 0 => 0, 1 => n - 1, _ => r.below(n) } as usize;
                lb[d] = r.digest_u();
                let (fa, fb) = (Forest::new(&la), Forest::new(&lb));
                let (acc_a, acc_b) = (MmrAccumulator::new_from_leafs(la.clone()), MmrAccumulator::new_from_leafs(lb.clone()));
                let new_leaf = r.digest_u();
                let (mut la2, mut lb2) = (la.clone(), lb.clone());
                la2.push(new_leaf);
                lb2.push(new_leaf);
                let (fa2, fb2) = (Forest::new(&la2), Forest::new(&lb2));
                let tracked: Vec<u64> = (0..n).collect();
                let order_ab = round % 2 == 0;
                let batch = round % 4 >= 2;
                st.hit(if batch { "fork:batch_update_from_append" } else { "fork:update_from_append" });
                let mut run_side = |is_a: bool, o: Out| -> Out {
                    let (f, f2, acc, side) = if is_a { (&fa, &fa2, &acc_a, "first") } else { (&fb, &fb2, &acc_b, "second") };
                    let mut mps: Vec<MmrMembershipProof> = tracked.iter().map(|&i| MmrMembershipProof::new(f.path(i))).collect();
                    if batch {
                        let mut refs: Vec<&mut MmrMembershipProof> = mps.iter_mut().collect();
                        MmrMembershipProof::batch_update_from_append(&mut refs, &tracked, n, new_leaf, &acc.peaks());
                    } else {
                        for (j, mp) in mps.iter_mut().enumerate() {
                            mp.update_from_append(tracked[j], n, new_leaf, &acc.peaks());
                        }
                    }
                    steps += 1;
                    let bad = (0..tracked.len()).find(|&j| mps[j].authentication_path != f2.path(tracked[j]));
                    o.with_oracle(bad.is_none(), format!("history: two accumulators with {} leafs that differ in leaf {} get the same leaf appended; on the {} side (updated {}) the proof of leaf {:?} after {} is not the from-scratch path of that side", n, d, side, if is_a == order_ab { "first" } else { "second" }, bad.map(|j| tracked[j]), if batch { "batch_update_from_append" } else { "update_from_append" }))
                };
                if order_ab { o = run_side(true, o); o = run_side(false, o); } else { o = run_side(false, o); o = run_side(true, o); }
                // and the accumulators themselves
                let (mut a2, mut b2) = (acc_a.clone(), acc_b.clone());
                let (pa, pb) = (a2.append(new_leaf), b2.append(new_leaf));
                o = o.with_oracle(a2.peaks() == fa2.peaks() && b2.peaks() == fb2.peaks(), "history: append of the same leaf to two accumulators of equal size: peaks differ from the from-scratch forests")
                    .with_oracle(pa.authentication_path == fa2.path(n) && pb.authentication_path == fb2.path(n), "history: append of the same leaf to two accumulators of equal size: a returned proof is not the from-scratch path");
            }
            Out { reply: format!("ok:{}", steps), oracle_fail: o.oracle_fail }
        }
        _ => return None,
    })
}

pub fn gen(rng: &mut Rng, thorough: bool, out: &mut Vec<String>) {
    for _ in 0..(if thorough { 10 } else { 2 }) {
        out.push(format!("mmrp fork {}", rng.next()));
    }
    for &n in (if thorough { &[4095usize, 4097, 16385, 65537, 262147][..] } else { &[4097usize, 65537][..] }) {
        out.push(format!("mmrp bulk new {} {}", rng.next(), n));
    }
    for &(n, m, t) in (if thorough { &[(4097usize, 257usize, 257usize), (4097, 1025, 257), (16385, 1025, 257), (65537, 257, 1025), (1025, 1025, 257), (300, 0, 7)][..] } else { &[(4097usize, 257usize, 257usize), (2049, 1025, 257)][..] }) {
        out.push(format!("mmrp bulk mutate {} {} {} {}", rng.next(), n, m, t));
    }
    for &(n, t) in (if thorough { &[(600usize, 600usize), (1025, 1025), (4097, 2049), (300, 257), (255, 255)][..] } else { &[(600usize, 600usize), (1025, 513)][..] }) {
        out.push(format!("mmrp bulk memberupd {} {} {}", rng.next(), n, t));
    }
    for &(n, k) in (if thorough { &[(1usize, 4097usize), (4097, 4097), (65535, 4097), (65537, 16385), (7, 0), (4096, 1)][..] } else { &[(4097usize, 4097usize), (1023, 4097)][..] }) {
        out.push(format!("mmrp bulk succ {} {} {}", rng.next(), n, k));
    }
}
