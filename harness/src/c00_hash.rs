// PROP: C02 C04 C05 C10 C11 C12  FAMILIES: hash=run_hash
//! Validation of the executable Tip5 instance (`TF/Model/HashTip5.lean`) that the Merkle/MMR model drivers use.
//! These ops are prepended to the streams of every property whose model hashes.
use crate::util::*;
use twenty_first::prelude::*;

pub fn gen(rng: &mut Rng, thorough: bool, out: &mut Vec<String>) {
    let n = if thorough { 2000 } else { 150 };
    for i in 0..n {
        match i % 3 {
            0 => out.push(format!("hash pair {} {}", fmt_digest(&rng.digest()), fmt_digest(&rng.digest()))),
            1 => {
                let xs: Vec<u64> = (0..10).map(|_| rng.fval()).collect();
                out.push(format!("hash h10 {}", fmt_list_u64(&xs)));
            }
            _ => {
                let len = *rng.pick(&[0u64, 1, 9, 10, 11, 19, 20, 21, 30]) + rng.below(2);
                let xs: Vec<u64> = (0..len).map(|_| rng.fval()).collect();
                out.push(format!("hash varlen {}", fmt_list_u64(&xs)));
            }
        }
    }
}

pub fn run_hash(op: &str, a: &[Arg], _st: &mut Stats) -> Option<Out> {
    Some(match (op, a) {
        ("pair", [l, r]) => Out::ok(format!("ok:{}", fmt_digest(&Tip5::hash_pair(l.digest()?, r.digest()?)))),
        ("h10", [x]) => {
            let v: [BFieldElement; 10] = x.bfes()?.try_into().ok()?;
            Out::ok(format!("ok:{}", fmt_bfes(&Tip5::hash_10(&v))))
        }
        ("varlen", [x]) => Out::ok(format!("ok:{}", fmt_digest(&Tip5::hash_varlen(&x.bfes()?)))),
        ("perm", [x]) => {
            let v: [BFieldElement; 16] = x.bfes()?.try_into().ok()?;
            let mut t = Tip5 { state: v };
            t.permutation();
            Out::ok(format!("ok:{}", fmt_bfes(&t.state)))
        }
        _ => return None,
    })
}
