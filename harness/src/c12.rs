// PROP: C12  FAMILIES: mmrs=run_mmrs
//! C12 -- `MmrSuccessorProof::{new_from_batch_append, verify}`.  Family `mmrs`.
//!
//! ops (same text is evaluated by the Lean model, `lean/TF/Drv/MmrSucc.lean`):
//!   gen oc op leafs                 old = init(op, oc); new = old + leafs; proof = new_from_batch_append; verify
//!                                   reply `ok:<paths>:<bool>`
//!   tamper oc op leafs kind pos d   same, then one tampering before `verify`; reply `ok:<bool>`
//!   verify oc op nc np paths        `verify` on an arbitrary triple; reply `ok:<bool>`
//!   bgen oc op leafs / btamper …      the same as `gen` / `tamper` for LARGE structured old counts (2^k-1, 2^k-j, 2^a+2^b-1,
//!                                   runs of ones up to bit 62: appending makes a carry ripple through high bits of the
//!                                   leaf count).  Evaluated in a WATCHDOG CHILD process (`util::run_guarded`: wall-clock
//!                                   timeout, address-space and CPU-time limit): a generator that loops forever or
//!                                   allocates without bound is reported as `timeout`/`abort` + ORACLE-FAIL "does not
//!                                   terminate".  Extra oracles: proof length = number of sibling digests demanded by
//!                                   the specification; altering any single digest / dropping the last one is rejected.
//!   hp l r / hp2 l r                validation of the model driver's fast hash_pair instance
//!   free_check N                    model-only bounded test (free hash algebra); the harness runs the analogous
//!                                   exhaustive loop over all (old, appended) with old+appended <= N on the real crate
//!
//! Property oracles evaluated on the implementation, independent of the model: `spec` below is a from-scratch
//! reference (peak positions by walking the set bits of the leaf count from the top, block roots by recursion) that
//! shares no code with the crate's index arithmetic.
use crate::util::*;
use twenty_first::prelude::*;
use twenty_first::util_types::mmr::mmr_accumulator::MmrAccumulator;
use twenty_first::util_types::mmr::mmr_successor_proof::MmrSuccessorProof;

pub mod spec {
    use std::collections::HashMap;
    use twenty_first::prelude::*;

    /// `(height, first leaf)` of every peak of an MMR with `n` leafs, highest first
    pub fn peak_pos(n: u64) -> Vec<(u32, u64)> {
        let mut res = vec![];
        let mut start = 0u64;
        for b in (0..64).rev() {
            if (n >> b) & 1 == 1 {
                res.push((b as u32, start));
                start = start.wrapping_add(1u64 << b);
            }
        }
        res
    }

    /// for leaf `i < n`: `(height of its tree, peak index)`
    pub fn locate(n: u64, i: u64) -> Option<(u32, usize)> {
        for (k, (h, s)) in peak_pos(n).into_iter().enumerate() {
            if i >= s && i - s < (1u64 << h) {
                return Some((h, k));
            }
        }
        None
    }

    /// hash the root `v` of the aligned block `j` up along sibling digests
    pub fn fold_blk(mut j: u64, v: Digest, path: &[Digest]) -> Digest {
        let mut acc = v;
        for s in path {
            acc = if j % 2 == 0 { Tip5::hash_pair(acc, *s) } else { Tip5::hash_pair(*s, acc) };
            j /= 2;
        }
        acc
    }

    /// reference verifier for successor proofs
    pub fn succ_verify(paths: &[Digest], oc: u64, op: &[Digest], nc: u64, np: &[Digest]) -> bool {
        if oc > nc || nc.count_ones() as usize != np.len() || oc.count_ones() as usize != op.len() {
            return false;
        }
        let mut rest = paths;
        for (p, (h, s)) in op.iter().zip(peak_pos(oc)) {
            let Some((h2, pk)) = locate(nc, s) else { return false };
            if h2 < h {
                return false;
            }
            let k = (h2 - h) as usize;
            if rest.len() < k {
                return false;
            }
            if np[pk] != fold_blk(s >> h, *p, &rest[..k]) {
                return false;
            }
            rest = &rest[k..];
        }
        rest.is_empty()
    }

    /// Lazily evaluated forest over "old peaks as opaque roots, everything appended as given or random":
    /// `val(l, j)` = root of aligned block `j` of level `l`; blocks strictly inside an old peak are never asked for.
    pub struct Forest<'a> {
        pub oc: u64,
        pub old: HashMap<(u32, u64), Digest>,
        pub leafs: Option<&'a [Digest]>, // appended leafs (index 0 = leaf `oc`), or None: opaque random appended blocks
        pub memo: HashMap<(u32, u64), Digest>,
        pub rnd: u64,
    }
    impl<'a> Forest<'a> {
        pub fn new(oc: u64, op: &[Digest], leafs: Option<&'a [Digest]>, rnd: u64) -> Self {
            let mut old = HashMap::new();
            for (p, (h, s)) in op.iter().zip(peak_pos(oc)) {
                old.insert((h, s >> h), *p);
            }
            Forest { oc, old, leafs, memo: HashMap::new(), rnd }
        }
        fn fresh(&mut self) -> Digest {
            let mut r = crate::util::Rng(self.rnd);
            let d = r.digest_u();
            self.rnd = r.0;
            d
        }
        pub fn val(&mut self, l: u32, j: u64) -> Digest {
            if let Some(d) = self.old.get(&(l, j)) {
                return *d;
            }
            if let Some(d) = self.memo.get(&(l, j)) {
                return *d;
            }
            let start = (j as u128) << l;
            let d = if start >= self.oc as u128 && (self.leafs.is_none() || l == 0) {
                match self.leafs {
                    Some(ls) => ls[(start as u64 - self.oc) as usize],
                    None => self.fresh(),
                }
            } else {
                assert!(l > 0, "block strictly inside an old peak requested");
                let a = self.val(l - 1, 2 * j);
                let b = self.val(l - 1, 2 * j + 1);
                Tip5::hash_pair(a, b)
            };
            self.memo.insert((l, j), d);
            d
        }
        /// peaks of the MMR with `nc >= oc` leafs
        pub fn peaks(&mut self, nc: u64) -> Vec<Digest> {
            peak_pos(nc).into_iter().map(|(h, s)| self.val(h, s >> h)).collect()
        }
        /// the honest successor proof
        pub fn succ_paths(&mut self, nc: u64) -> Vec<Digest> {
            let mut res = vec![];
            for (h, s) in peak_pos(self.oc) {
                let (h2, _) = locate(nc, s).unwrap();
                for l in h..h2 {
                    res.push(self.val(l, (s >> l) ^ 1));
                }
            }
            res
        }
    }
}

/// Sparse from-scratch reference for MMRs with a HUGE leaf count (used by the `bhist` ops of C05 / C11): a few
/// "materialised" leafs are known by value, every maximal aligned block without a materialised leaf is an opaque
/// digest.  `val(l, j)` = root of the aligned block `j` of `2^l` leafs; peaks and authentication paths are read off
/// by position (`spec::peak_pos`), sharing no code with the crate's MMR index arithmetic.  The set of materialised
/// leafs only grows by appends, so an opaque block never gets a materialised leaf later.
pub mod sparse {
    use super::spec::{locate, peak_pos};
    use std::collections::{BTreeMap, HashMap};
    use twenty_first::prelude::*;

    pub struct Sparse {
        pub n: u64,
        pub leafs: BTreeMap<u64, Digest>,
        pub opaque: HashMap<(u32, u64), Digest>,
        /// generator side: state for fresh opaque digests; runner side: `None` (an unknown block counts as `missing`)
        pub rnd: Option<u64>,
        pub missing: u32,
    }
    impl Sparse {
        pub fn has_leaf(&self, l: u32, j: u64) -> bool {
            let lo = (j as u128) << l;
            let hi = lo + (1u128 << l) - 1;
            if lo > u64::MAX as u128 {
                return false;
            }
            let hi = hi.min(u64::MAX as u128) as u64;
            self.leafs.range(lo as u64..=hi).next().is_some()
        }
        pub fn val(&mut self, l: u32, j: u64) -> Digest {
            if !self.has_leaf(l, j) {
                if let Some(d) = self.opaque.get(&(l, j)) {
                    return *d;
                }
                match self.rnd {
                    Some(r) => {
                        let mut g = crate::util::Rng(r);
                        let d = g.digest_u();
                        self.rnd = Some(g.0);
                        self.opaque.insert((l, j), d);
                        d
                    }
                    None => {
                        self.missing += 1;
                        Digest::default()
                    }
                }
            } else if l == 0 {
                self.leafs[&j]
            } else {
                let a = self.val(l - 1, 2 * j);
                let b = self.val(l - 1, 2 * j + 1);
                Tip5::hash_pair(a, b)
            }
        }
        pub fn peaks(&mut self) -> Vec<Digest> {
            peak_pos(self.n).into_iter().map(|(h, s)| self.val(h, s >> h)).collect()
        }
        /// authentication path of leaf `i < n`, lowest sibling first
        pub fn path(&mut self, i: u64) -> Vec<Digest> {
            let (h, _) = locate(self.n, i).unwrap();
            (0..h).map(|l| self.val(l, (i >> l) ^ 1)).collect()
        }
        pub fn append(&mut self, d: Digest) {
            self.leafs.insert(self.n, d);
            self.n += 1;
        }
        /// generator side: `idxs` materialised with the given leafs, everything else opaque and random
        pub fn random(seed: u64, n: u64, idxs: &[(u64, Digest)]) -> Sparse {
            Sparse { n, leafs: idxs.iter().copied().filter(|x| x.0 < n).collect(), opaque: HashMap::new(), rnd: Some(seed), missing: 0 }
        }
        /// runner side: rebuilt from the op line alone -- the peaks of the accumulator and `(index, leaf, path)` of every
        /// materialised leaf; `None` if these are not consistent with each other
        pub fn from_known(n: u64, peaks: &[Digest], known: &[(u64, Digest, Vec<Digest>)]) -> Option<Sparse> {
            if peaks.len() != n.count_ones() as usize {
                return None;
            }
            let mut sp = Sparse { n, leafs: BTreeMap::new(), opaque: HashMap::new(), rnd: None, missing: 0 };
            for (i, d, _) in known {
                if *i >= n || sp.leafs.insert(*i, *d).is_some() {
                    return None;
                }
            }
            for (p, (h, s)) in peaks.iter().zip(peak_pos(n)) {
                if !sp.has_leaf(h, s >> h) {
                    sp.opaque.insert((h, s >> h), *p);
                }
            }
            for (i, _, path) in known {
                let (h, _) = locate(n, *i)?;
                if path.len() != h as usize {
                    return None;
                }
                for l in 0..h {
                    let j = (i >> l) ^ 1;
                    if !sp.has_leaf(l, j) {
                        if let Some(o) = sp.opaque.insert((l, j), path[l as usize]) {
                            if o != path[l as usize] {
                                return None;
                            }
                        }
                    }
                }
            }
            if sp.peaks() != peaks || sp.missing > 0 {
                return None;
            }
            for (i, _, path) in known {
                if sp.path(*i) != *path {
                    return None;
                }
            }
            if sp.missing > 0 {
                return None;
            }
            Some(sp)
        }
    }

    /// indices worth tracking in an MMR with `n` leafs: last / first leaf, first and last leaf of peaks, sibling and
    /// cousin pairs, random ones
    pub fn pick_tracked(rng: &mut crate::util::Rng, n: u64, k: usize) -> Vec<u64> {
        let pp = peak_pos(n);
        let mut v: Vec<u64> = vec![];
        let mut tries = 0;
        while v.len() < k && tries < 100 && n > 0 {
            tries += 1;
            let c = match rng.below(8) {
                0 => n - 1,
                1 => 0,
                2 | 3 => {
                    let (h, s) = *rng.pick(&pp);
                    if rng.coin(1, 2) { s } else { s + ((1u64 << h) - 1) }
                }
                4 if !v.is_empty() => *rng.pick(&v) ^ 1,
                5 if !v.is_empty() => *rng.pick(&v) ^ (1 << rng.below(6)),
                6 if !v.is_empty() => *rng.pick(&v) ^ (1 << rng.below(62)),
                _ => rng.below(n),
            };
            if c < n && !v.contains(&c) {
                v.push(c);
            }
        }
        v
    }
}
use spec::*;

const KINDS: [&str; 14] = [
    "drop_last", "none", "alter_path", "drop_path", "add_path", "swap_path", "alter_old", "drop_old", "add_old", "alter_new",
    "drop_new", "add_new", "old_count", "new_count",
];

fn digests(rng: &mut Rng, n: usize) -> Vec<Digest> {
    (0..n).map(|_| if rng.coin(1, 6) { rng.digest() } else { rng.digest_u() }).collect()
}

/// leaf counts around powers of two, all-ones, alternating patterns, below `2^bits`
fn count(rng: &mut Rng, bits: u32) -> u64 {
    let k = rng.below(bits as u64 + 1) as u32;
    let p = if k >= 64 { 0 } else { 1u64 << k };
    let v = match rng.below(8) {
        0 => p.wrapping_sub(1),
        1 => p,
        2 => p.wrapping_add(1),
        3 => 0xAAAA_AAAA_AAAA_AAAA,
        4 => 0x5555_5555_5555_5555,
        5 => p | rng.below(4),
        6 => {
            // few set bits
            let mut v = 0u64;
            for _ in 0..rng.range(1, 4) {
                v |= 1 << rng.below(bits as u64);
            }
            v
        }
        _ => rng.next(),
    };
    if bits >= 64 {
        v
    } else {
        v & ((1u64 << bits) - 1)
    }
}

fn verify_line(tag: &str, oc: u64, op: &[Digest], nc: u64, np: &[Digest], paths: &[Digest]) -> String {
    format!("mmrs verify {} {} {} {} {} {}", tag, oc, fmt_digests(op), nc, fmt_digests(np), fmt_digests(paths))
}

/// a consistent accepted triple at arbitrary (large) counts, with opaque appended blocks
fn fabricate(rng: &mut Rng, oc: u64, nc: u64) -> (Vec<Digest>, Vec<Digest>, Vec<Digest>) {
    let op = digests(rng, oc.count_ones() as usize);
    let mut f = Forest::new(oc, &op, None, rng.next());
    let np = f.peaks(nc);
    let paths = f.succ_paths(nc);
    (op, np, paths)
}

pub fn gen(rng: &mut Rng, thorough: bool, out: &mut Vec<String>) {
    // (0) validate the fast hash instance of the model driver (against the crate: hp; against TF.Hash.hashPair: hp2)
    for i in 0..(if thorough { 3000 } else { 300 }) {
        let (l, r) = (rng.digest(), rng.digest());
        out.push(format!("mmrs {} {} {}", if i % 4 == 3 { "hp2" } else { "hp" }, fmt_digest(&l), fmt_digest(&r)));
    }
    // (a) every (old count, appended) pair of the grid; old peaks are arbitrary digests
    let g = if thorough { 72 } else { 40 };
    for oc in 0..=g {
        for m in 0..=g {
            let op = digests(rng, (oc as u64).count_ones() as usize);
            let leafs = digests(rng, m);
            out.push(format!("mmrs gen {} {} {}", oc, fmt_digests(&op), fmt_digests(&leafs)));
        }
    }
    // (b) tampering of honest proofs at small counts around 2^k
    let n_t = if thorough { 20_000 } else { 900 };
    for i in 0..n_t {
        let oc = match rng.below(4) {
            0 => rng.below(20),
            1 => {
                let k = rng.range(1, 9);
                ((1u64 << k) - 2 + rng.below(4)).max(0)
            }
            2 => count(rng, 9),
            _ => rng.below(300),
        };
        let m = match rng.below(4) {
            0 => rng.below(4),
            1 => {
                // up to the next power of two (and one beyond)
                let np2 = (oc + 1).next_power_of_two();
                (np2 - oc + rng.below(3)).saturating_sub(1).min(40)
            }
            _ => rng.below(24),
        } as usize;
        let op = digests(rng, oc.count_ones() as usize);
        let mut leafs = digests(rng, m);
        if rng.coin(1, 10) && m > 0 {
            // a default digest among the appended leafs: a dropped trailing default digest is re-created by `unwrap_or`
            let j = rng.below(m as u64) as usize;
            leafs[j] = Digest::default();
        }
        let kind = KINDS[i % KINDS.len()];
        let pos = match kind {
            "old_count" | "new_count" => {
                let base = if kind == "old_count" { oc } else { oc + m as u64 };
                match rng.below(5) {
                    0 => base + 1,
                    1 => base.saturating_sub(1),
                    2 => base ^ (1 << rng.below(6)),
                    3 => {
                        // same number of set bits, different positions
                        let b = base.count_ones();
                        if b == 0 { 0 } else { ((1u64 << b) - 1) << rng.below(4) }
                    }
                    _ => count(rng, 10),
                }
            }
            _ => match rng.below(3) {
                0 => 0,
                1 => u32::MAX as u64,
                _ => rng.below(64),
            },
        };
        let d = match rng.below(4) {
            0 => Digest::default(),
            1 if !leafs.is_empty() => leafs[rng.below(m as u64) as usize],
            _ => rng.digest_u(),
        };
        out.push(format!(
            "mmrs tamper {} {} {} {} {} {}",
            oc, fmt_digests(&op), fmt_digests(&leafs), kind, pos, fmt_digest(&d)
        ));
    }
    // the directed `unwrap_or(Digest::default())` case: old count = 1 mod 4, the first appended leaf is the default
    // digest and is the last digest of the proof; dropping it is "repaired" by unwrap_or but must be rejected
    for i in 0..(if thorough { 200 } else { 24 }) {
        let oc = 4 * rng.below(if i % 2 == 0 { 8 } else { 1 << 20 }) + 1;
        let op = digests(rng, oc.count_ones() as usize);
        let mut leafs = vec![Digest::default()];
        if i % 3 == 0 {
            leafs.push(rng.digest_u());
        }
        for kind in ["none", "drop_last", "add_path"] {
            out.push(format!(
                "mmrs tamper {} {} {} {} {} {}",
                oc, fmt_digests(&op), fmt_digests(&leafs), kind, u32::MAX, fmt_digest(&Digest::default())
            ));
        }
    }
    // (c) fabricated accumulators with large counts, honest and tampered, for `verify`
    let n_v = if thorough { 30_000 } else { 1_200 };
    for i in 0..n_v {
        let bits = *rng.pick(&[8u32, 16, 32, 33, 62, 63, 63, 63, 64]);
        let a = count(rng, bits);
        let b = match rng.below(4) {
            0 => a,
            1 => a.saturating_add(rng.below(5)),
            2 => a | count(rng, bits),
            _ => count(rng, bits),
        };
        let (oc, nc) = (a.min(b), a.max(b));
        let (mut op, mut np, mut paths) = fabricate(rng, oc, nc);
        let (mut oc2, mut nc2) = (oc, nc);
        let mut tag = "T";
        let covers_old = |np_idx: usize| peak_pos(nc).get(np_idx).map(|&(_, s)| s < oc).unwrap_or(false);
        match i % 16 {
            0..=3 => {}
            4 if !paths.is_empty() => {
                let j = rng.below(paths.len() as u64) as usize;
                paths[j] = if rng.coin(1, 3) { Digest::default() } else { rng.digest_u() };
                tag = "F";
            }
            5 if !paths.is_empty() => {
                let j = if rng.coin(1, 2) { paths.len() - 1 } else { rng.below(paths.len() as u64) as usize };
                paths.remove(j);
                tag = "F";
            }
            6 => {
                let j = rng.below(paths.len() as u64 + 1) as usize;
                let d = if rng.coin(1, 2) { Digest::default() } else { rng.digest_u() };
                paths.insert(j, d);
                tag = "F";
            }
            7 if !op.is_empty() => {
                let j = rng.below(op.len() as u64) as usize;
                op[j] = rng.digest_u();
                tag = "F";
            }
            8 if !np.is_empty() => {
                let j = rng.below(np.len() as u64) as usize;
                np[j] = rng.digest_u();
                tag = if covers_old(j) { "F" } else { "T" };
            }
            9 => {
                // inconsistent old accumulator: more / fewer peaks than set bits (witness class of F3)
                if rng.coin(1, 2) || op.is_empty() {
                    op.push(rng.digest_u());
                } else {
                    op.pop();
                }
                tag = "F";
            }
            10 => {
                if rng.coin(1, 2) || np.is_empty() {
                    np.push(rng.digest_u());
                } else {
                    np.pop();
                }
                tag = "F";
            }
            11 => {
                std::mem::swap(&mut oc2, &mut nc2);
                tag = if oc2 > nc2 { "F" } else { "U" };
            }
            12 => {
                oc2 = match rng.below(3) {
                    0 => oc ^ (1 << rng.below(bits.min(63) as u64)),
                    1 => oc.wrapping_add(1),
                    _ => count(rng, bits),
                };
                tag = if oc2 != oc { "F" } else { "T" };
            }
            13 => {
                nc2 = match rng.below(3) {
                    0 => nc ^ (1 << rng.below(bits.min(63) as u64)),
                    1 => nc.wrapping_add(1),
                    _ => count(rng, bits),
                };
                tag = "U";
            }
            14 if paths.len() >= 2 => {
                let j = rng.below(paths.len() as u64 - 1) as usize;
                paths.swap(j, j + 1);
                tag = "F";
            }
            _ => {
                // empty proof against everything
                paths.clear();
                tag = "U";
            }
        }
        out.push(verify_line(tag, oc2, &op, nc2, &np, &paths));
    }
    // (d) malformed stream: arbitrary list lengths and counts
    let n_m = if thorough { 5_000 } else { 300 };
    for _ in 0..n_m {
        let oc = if rng.coin(1, 2) { rng.below(40) } else { count(rng, 64) };
        let nc = if rng.coin(1, 2) { oc.saturating_add(rng.below(40)) } else { count(rng, 64) };
        let lo = match rng.below(3) {
            0 => oc.count_ones() as usize,
            _ => rng.below(6) as usize,
        };
        let ln = match rng.below(3) {
            0 | 1 => nc.count_ones() as usize,
            _ => rng.below(6) as usize,
        };
        let lp = rng.below(5) as usize;
        let same = rng.digest_u();
        let mk = |rng: &mut Rng, n: usize| -> Vec<Digest> {
            (0..n).map(|_| if rng.coin(1, 2) { same } else { rng.digest_u() }).collect()
        };
        let (op, np, paths) = (mk(rng, lo), mk(rng, ln), mk(rng, lp));
        out.push(verify_line("U", oc, &op, nc, &np, &paths));
    }
    // (e) LARGE structured old counts: the real generator on `init(random peaks, count)`, carries through high bits
    gen_big(rng, thorough, out);
    if thorough {
        out.push("mmrs free_check 64".into());
    } else {
        out.push("mmrs free_check 24".into());
    }
}

/// a large old leaf count and a number of appended leafs such that the append makes a carry ripple through high
/// bits of the leaf count (classes 0..=5) or not (class 6: control); `old + appended < 2^63`
pub fn carry_pair(rng: &mut Rng) -> (u64, usize) {
    let small_m = |rng: &mut Rng| -> usize {
        match rng.below(12) {
            0 => 0,
            1 => rng.range(6, 64) as usize,
            _ => rng.range(1, 5) as usize,
        }
    };
    let (oc, m) = match rng.below(8) {
        0 => ((1u64 << rng.range(1, 62)) - 1, small_m(rng)),
        1 => {
            // 2^k - j: reach 2^k exactly, stay below, or go beyond
            let k = rng.range(4, 63);
            let j = rng.range(1, 6);
            let m = match rng.below(4) {
                0 => j - 1,
                1 | 2 => j,
                _ => j + rng.below(3),
            };
            ((1u64 << k) - j, if k == 63 { m.min(j - 1) } else { m } as usize)
        }
        2 => {
            let a = rng.range(2, 62);
            let b = rng.range(1, a - 1);
            ((1u64 << a) + (1u64 << b) - 1, small_m(rng))
        }
        3 => {
            // random high part, a zero at bit k, all ones below
            let k = rng.range(8, 62);
            let hi = if k >= 61 { 0 } else { (rng.next() >> (k + 2)) << (k + 1) };
            ((hi | ((1u64 << k) - 1)) & ((1u64 << 62) - 1), small_m(rng))
        }
        4 | 5 => {
            // random 62-bit count with a long run of ones at a random position; the bits below the run are 2^p - j
            let len = rng.range(6, 50);
            let p = rng.below(62 - len);
            let j = rng.range(1, 5).min((1u64 << p).max(1));
            let low = if p == 0 { 0 } else { (1u64 << p) - j.min(1u64 << p) };
            let run = ((1u64 << len) - 1) << p;
            let hi = if p + len + 1 >= 62 { 0 } else { (rng.next() >> (p + len + 2)) << (p + len + 1) };
            let m = if p == 0 { small_m(rng).max(1) } else { (j + rng.below(2)) as usize };
            ((hi | run | low) & ((1u64 << 62) - 1), m)
        }
        6 => ((1u64 << rng.range(31, 33)) - rng.range(1, 3), rng.range(1, 4) as usize), // right at bit 31 / 32 / 33
        _ => (rng.next() >> 2, small_m(rng)),
    };
    (oc, m)
}

fn gen_big(rng: &mut Rng, thorough: bool, out: &mut Vec<String>) {
    // the cost of one op on both sides is dominated by the proof length (a run of L ones climbs ~L^2/2 digests):
    // the quick tier keeps most proofs below 600 digests and takes every sixth pair as it comes
    let n = if thorough { 1_200 } else { 48 };
    for i in 0..n {
        let (mut oc, mut m) = carry_pair(rng);
        if !thorough {
            m = m.min(16);
            let mut tries = 0;
            while i % 6 != 0 && tries < 200 && spec_proof_len(oc, oc + m as u64).unwrap_or(0) > 600 {
                (oc, m) = carry_pair(rng);
                m = m.min(16);
                tries += 1;
            }
        }
        let op = digests(rng, oc.count_ones() as usize);
        let leafs = digests(rng, m);
        if i % 5 == 4 {
            // tampering through the model as well
            let kind = KINDS[(i / 5) % KINDS.len()];
            let nc = oc + m as u64;
            let bit = 1u64 << rng.below(62);
            let pos = match kind {
                "old_count" => *rng.pick(&[oc + 1, oc.saturating_sub(1), oc ^ bit, oc.rotate_left(1) >> 1]),
                "new_count" => *rng.pick(&[nc + 1, nc.saturating_sub(1).max(oc), nc ^ bit, nc | (nc + 1)]),
                _ => match rng.below(3) {
                    0 => 0,
                    1 => u32::MAX as u64,
                    _ => rng.below(64),
                },
            };
            let d = if rng.coin(1, 4) { Digest::default() } else { rng.digest_u() };
            out.push(format!("mmrs btamper {} {} {} {} {} {}", oc, fmt_digests(&op), fmt_digests(&leafs), kind, pos, fmt_digest(&d)));
        } else {
            out.push(format!("mmrs bgen {} {} {}", oc, fmt_digests(&op), fmt_digests(&leafs)));
        }
    }
}

/// number of sibling digests the specification demands: every old peak climbs from its height to the height of the
/// new peak that covers its first leaf
fn spec_proof_len(oc: u64, nc: u64) -> Option<usize> {
    let mut k = 0usize;
    for (h, s) in peak_pos(oc) {
        let (h2, _) = locate(nc, s)?;
        k += h2.checked_sub(h)? as usize;
    }
    Some(k)
}

fn remove_at<T: Clone>(xs: &mut Vec<T>, pos: u64) {
    if !xs.is_empty() {
        let i = (pos % xs.len() as u64) as usize;
        xs.remove(i);
    }
}
fn alter_at(xs: &mut [Digest], pos: u64, d: Digest) -> Option<(usize, Digest)> {
    if xs.is_empty() {
        None
    } else {
        let i = (pos % xs.len() as u64) as usize;
        let old = xs[i];
        xs[i] = d;
        Some((i, old))
    }
}
fn insert_at(xs: &mut Vec<Digest>, pos: u64, d: Digest) {
    let i = (pos % (xs.len() as u64 + 1)) as usize;
    xs.insert(i, d);
}

fn build(oc: u64, op: &[Digest], leafs: &[Digest]) -> (MmrAccumulator, MmrAccumulator, MmrSuccessorProof) {
    let old = MmrAccumulator::init(op.to_vec(), oc);
    let proof = MmrSuccessorProof::new_from_batch_append(&old, leafs);
    let mut new = old.clone();
    for l in leafs {
        new.append(*l);
    }
    (old, new, proof)
}

pub fn run_mmrs(op: &str, a: &[Arg], st: &mut Stats) -> Option<Out> {
    Some(match (op, a) {
        ("gen", [oc, op_, leafs]) => {
            let (oc, op_, leafs) = (oc.u64()?, op_.digests()?, leafs.digests()?);
            let consistent = oc.count_ones() as usize == op_.len();
            let (old, new, proof) = build(oc, &op_, &leafs);
            let v = proof.verify(&old, &new);
            st.hit(&format!("gen:old_peaks={} merges_into_one={}", op_.len().min(4),
                (oc + leafs.len() as u64).count_ones() == 1));
            let mut out = Out::ok(format!("ok:{}:{}", fmt_digests(&proof.paths), v));
            if consistent {
                let nc = oc + leafs.len() as u64;
                let mut f = Forest::new(oc, &op_, Some(&leafs), 0);
                let exp_paths = f.succ_paths(nc);
                let exp_peaks = f.peaks(nc);
                out = out
                    .with_oracle(v, "completeness: generated successor proof does not verify")
                    .with_oracle(proof.paths == exp_paths, "generated paths differ from the from-scratch sibling digests")
                    .with_oracle(new.peaks() == exp_peaks, "new accumulator differs from the from-scratch peaks")
                    .with_oracle(succ_verify(&proof.paths, oc, &op_, nc, &new.peaks()), "reference verifier rejects the generated proof");
            }
            out
        }
        ("tamper", [oc, op_, leafs, kind, pos, d]) => {
            let (oc, op_, leafs, kind, pos, d) = (oc.u64()?, op_.digests()?, leafs.digests()?, kind.sym()?, pos.u64()?, d.digest()?);
            let (old, new, proof) = build(oc, &op_, &leafs);
            let nc = new.num_leafs();
            let mut paths = proof.paths.clone();
            let (mut oc2, mut nc2) = (oc, nc);
            let mut op2 = op_.clone();
            let mut np2 = new.peaks();
            // expectation from the property text; None = decided by the reference verifier only
            let mut expect: Option<bool> = None;
            match kind {
                "none" => expect = Some(true),
                "alter_path" => {
                    if let Some((_, o)) = alter_at(&mut paths, pos, d) {
                        expect = Some(o == d);
                    } else {
                        expect = Some(true);
                    }
                }
                "drop_path" => {
                    expect = Some(paths.is_empty());
                    remove_at(&mut paths, pos);
                }
                "drop_last" => {
                    expect = Some(paths.is_empty());
                    paths.pop();
                }
                "add_path" => {
                    insert_at(&mut paths, pos, d);
                    expect = Some(false);
                }
                "swap_path" => {
                    if paths.len() >= 2 {
                        let i = (pos % paths.len() as u64) as usize;
                        let j = ((pos + 1) % paths.len() as u64) as usize;
                        expect = Some(paths[i] == paths[j]);
                        paths.swap(i, j);
                    } else {
                        expect = Some(true);
                    }
                }
                "alter_old" => {
                    if let Some((_, o)) = alter_at(&mut op2, pos, d) {
                        expect = Some(o == d);
                    } else {
                        expect = Some(true);
                    }
                }
                "drop_old" => {
                    expect = Some(op2.is_empty());
                    remove_at(&mut op2, pos);
                }
                "add_old" => {
                    insert_at(&mut op2, pos, d);
                    expect = Some(false);
                }
                "alter_new" => {
                    if let Some((i, o)) = alter_at(&mut np2, pos, d) {
                        let covers_old = peak_pos(nc)[i].1 < oc;
                        st.hit(if covers_old { "alter_new:peak-covers-old-leafs" } else { "alter_new:peak-of-appended-leafs-only" });
                        expect = Some(o == d || !covers_old);
                    } else {
                        expect = Some(true);
                    }
                }
                "drop_new" => {
                    expect = Some(np2.is_empty());
                    remove_at(&mut np2, pos);
                }
                "add_new" => {
                    insert_at(&mut np2, pos, d);
                    expect = Some(false);
                }
                "old_count" => {
                    oc2 = pos;
                    if oc2 != oc {
                        expect = Some(false);
                    }
                }
                "new_count" => nc2 = pos,
                _ => return None,
            }
            let old2 = MmrAccumulator::init(op2.clone(), oc2);
            let new2 = MmrAccumulator::init(np2.clone(), nc2);
            let v = MmrSuccessorProof { paths: paths.clone() }.verify(&old2, &new2);
            let r = succ_verify(&paths, oc2, &op2, nc2, &np2);
            st.hit(&format!("tamper:{} -> {}", kind, v));
            let _ = old;
            let mut out = Out::ok(format!("ok:{}", v))
                .with_oracle(v == r, format!("verify={} but the reference verifier says {}", v, r));
            if oc.count_ones() as usize == op_.len() {
                if let Some(e) = expect {
                    out = out.with_oracle(v == e, format!("tampering `{}`: verify={} expected {}", kind, v, e));
                }
            }
            out
        }
        ("verify", [tag, oc, op_, nc, np, paths]) => {
            let (tag, oc, op_, nc, np, paths) = (tag.sym()?, oc.u64()?, op_.digests()?, nc.u64()?, np.digests()?, paths.digests()?);
            let old = MmrAccumulator::init(op_.clone(), oc);
            let new = MmrAccumulator::init(np.clone(), nc);
            let v = MmrSuccessorProof { paths: paths.clone() }.verify(&old, &new);
            let r = succ_verify(&paths, oc, &op_, nc, &np);
            let cls = if oc.count_ones() as usize != op_.len() {
                if (oc.count_ones() as usize) < op_.len() { "old:more-peaks-than-bits" } else { "old:fewer-peaks-than-bits" }
            } else if nc.count_ones() as usize != np.len() {
                "new:inconsistent"
            } else if oc > nc {
                "old>new"
            } else {
                "consistent"
            };
            st.hit(&format!("verify:{} tag={} -> {}", cls, tag, v));
            st.hit(&format!("verify:bits(new)={}", match 64 - nc.leading_zeros() { 0..=8 => "0-8", 9..=16 => "9-16", 17..=32 => "17-32", 33..=62 => "33-62", 63 => "63", _ => "64" }));
            let mut out = Out::ok(format!("ok:{}", v))
                .with_oracle(v == r, format!("verify={} but the reference verifier says {}", v, r));
            match tag {
                "T" => out = out.with_oracle(v, "honest / harmlessly altered triple rejected"),
                "F" => out = out.with_oracle(!v, "tampered or inconsistent triple accepted"),
                _ => {}
            }
            out
        }
        ("hp", [l, r]) => Out::ok(format!("ok:{}", fmt_digest(&Tip5::hash_pair(l.digest()?, r.digest()?)))),
        ("hp2", [_, _]) => Out::ok("ok:true"),
        ("free_check", [n]) => {
            // the implementation-side analogue: every (old, appended) with old + appended <= n, real hash
            let n = n.u64()?;
            let mut rng = Rng::new(n);
            let leafs: Vec<Digest> = (0..n).map(|_| rng.digest_u()).collect();
            let mut ok = true;
            for o in 0..=n as usize {
                let old = MmrAccumulator::new_from_leafs(leafs[..o].to_vec());
                for m in 0..=(n as usize - o) {
                    let (old_, new, proof) = build(o as u64, &old.peaks(), &leafs[o..o + m]);
                    let mut f = Forest::new(o as u64, &old.peaks(), Some(&leafs[o..o + m]), 0);
                    ok &= proof.verify(&old_, &new)
                        && proof.paths == f.succ_paths((o + m) as u64)
                        && new.peaks() == f.peaks((o + m) as u64);
                }
            }
            Out::ok(format!("ok:{}", ok)).with_oracle(ok, "bounded completeness check failed on the implementation")
        }
        // ---- large structured counts: in the parent process the op is handed to a watchdog child
        ("bgen" | "btamper", _) if !in_guarded_child() => {
            if let Some(oc) = a.first().and_then(|x| x.u64()) {
                let m = a.get(2).and_then(|x| x.list()).map(|l| l.len()).unwrap_or(0) as u64;
                let top = 64 - (oc ^ oc.wrapping_add(m)).leading_zeros();
                st.hit(&format!("{}:carry reaches bit {}", op, match top { 0 => "none (nothing appended)", 1..=16 => "0-15", 17..=31 => "16-30", 32 => "31", 33 => "32", 34..=48 => "33-47", _ => "48-62" }));
                st.hit(&format!("{}:appended={}", op, match m { 0 => "0", 1 => "1", 2..=5 => "2-5", _ => "6-64" }));
            }
            guarded_out("mmrs", op, a, st, "MmrSuccessorProof::new_from_batch_append / append on init(peaks, count)")
        }
        ("bgen", [oc, op_, leafs]) => {
            let mut out = run_mmrs("gen", a, st)?;
            let (oc, op_, leafs) = (oc.u64()?, op_.digests()?, leafs.digests()?);
            let nc = oc.checked_add(leafs.len() as u64)?;
            if oc.count_ones() as usize == op_.len() {
                let (old, new, proof) = build(oc, &op_, &leafs);
                out = out.with_oracle(Some(proof.paths.len()) == spec_proof_len(oc, nc),
                    format!("proof has {} digests, the specification demands {:?}", proof.paths.len(), spec_proof_len(oc, nc)));
                let mut r = Rng::new(oc ^ nc.rotate_left(17));
                // every position for short proofs; for long ones the first/last digests and a sample (a verification costs
                // as many hashes as the proof is long)
                let len = proof.paths.len();
                let mut positions: Vec<usize> = if len <= 40 { (0..len).collect() } else { vec![0, 1, len / 2, len - 2, len - 1] };
                if len > 40 {
                    for _ in 0..11 {
                        positions.push(r.below(len as u64) as usize);
                    }
                }
                for j in positions {
                    let mut p = proof.clone();
                    p.paths[j] = if j % 7 == 3 && p.paths[j] != Digest::default() { Digest::default() } else { r.digest_u() };
                    out = out.with_oracle(!p.verify(&old, &new), format!("proof with digest {} of {} altered is accepted", j, proof.paths.len()));
                }
                if !proof.paths.is_empty() {
                    let mut p = proof.clone();
                    p.paths.pop();
                    out = out.with_oracle(!p.verify(&old, &new), "proof without its last digest is accepted");
                }
                let mut p = proof.clone();
                p.paths.push(Digest::default());
                out = out.with_oracle(!p.verify(&old, &new), "proof with an extra trailing default digest is accepted");
            }
            out
        }
        ("btamper", [_, _, _, _, _, _]) => run_mmrs("tamper", a, st)?,
        _ => return None,
    })
}
