// PROP: C10  FAMILIES: mtb=run_mtb
//! C10 -- Merkle trees build correctly under any schedule; honest proofs are complete and minimal.  Family `mtb`
//! (construction); the proof-side observables use the ops of family `mt` (c04.rs).
//!
//!   mtb build     [[leaf digests]]                              -> ok:<height>|<num_leafs>|<root>|<nodes>|<leafs> | err
//!   mtb build_env <cutoff|unset|abc|-1> <threads> [[leaf digests]] -> the same, computed in a **child process** started with
//!        TWENTY_FIRST_MERKLE_TREE_PARALLELIZATION_CUTOFF=<cutoff> (or removed) and RAYON_NUM_THREADS=<threads>,
//!        because the cut-off is a lazy static read once per process.  The child runs under a timeout; a hang is
//!        reported as `timeout` + ORACLE-FAIL with the op line (which carries the environment) as replay.
use crate::registry::c04::{boundary_cross, fmt_paths, gen_indices, paths_reply, rand_digest, rand_leaves, ref_needed, ref_tree, verify_reply};
use crate::util::*;
use std::io::{Read, Write};
use std::process::{Command, Stdio};
use std::time::{Duration, Instant};
use twenty_first::prelude::*;

const ENV_CUTOFF: &str = "TWENTY_FIRST_MERKLE_TREE_PARALLELIZATION_CUTOFF";
const CHILD_TIMEOUT: Duration = Duration::from_secs(20);

fn tree_reply(ds: &[Digest], st: &mut Stats) -> Out {
    match MerkleTree::new::<CpuParallel>(ds) {
        Err(_) => {
            st.hit(if ds.is_empty() { "build:err:empty" } else { "build:err:not-a-power-of-two" });
            Out::ok("err").with_oracle(!ds.len().is_power_of_two(), "from_digests rejects a power-of-two number of leafs")
        }
        Ok(t) => {
            let n = ds.len();
            st.hit(&format!("build:ok:log2n={}", if n > 0 { n.ilog2() } else { 0 }));
            let rt = ref_tree(ds);
            let nodes = t.nodes();
            let mut children_ok = nodes.len() == 2 * n;
            if children_ok {
                for i in 1..n {
                    children_ok &= nodes[i] == Tip5::hash_pair(nodes[2 * i], nodes[2 * i + 1]);
                }
            }
            let accessors_ok = (0..2 * n + 2).all(|i| t.node(i) == nodes.get(i).copied()) && (0..n + 2).all(|i| t.leaf(i) == ds.get(i).copied());
            Out::ok(format!("ok:{}|{}|{}|{}|{}", t.height(), t.num_leafs(), fmt_digest(&t.root()), fmt_digests(nodes), fmt_digests(t.leafs())))
                .with_oracle(n.is_power_of_two(), "from_digests accepts a number of leafs that is not a power of two")
                .with_oracle(children_ok, "an inner node is not the hash of its two children")
                .with_oracle(nodes.len() == 2 * n && nodes[n..] == *ds && t.leafs() == ds, "leafs are not copied to [n,2n)")
                .with_oracle(nodes == &rt[..], "nodes differ from the reference tree")
                .with_oracle(t.root() == rt[1], "root differs from the reference tree")
                .with_oracle(1usize << t.height() == n && t.num_leafs() == n, "height / num_leafs wrong")
                .with_oracle(accessors_ok, "node()/leaf() disagree with nodes()")
        }
    }
}

/// `<n>` or `t<n>m<hex CPU affinity mask>` (the child then runs under `taskset <mask>`)
fn parse_threads(a: &Arg) -> Option<(usize, Option<String>)> {
    match a {
        Arg::Nat(n) => Some((*n as usize, None)),
        Arg::Sym(s) => {
            let rest = s.strip_prefix('t')?;
            let (n, m) = rest.split_once('m')?;
            if m.is_empty() || !m.chars().all(|c| c.is_ascii_hexdigit()) {
                return None;
            }
            Some((n.parse().ok()?, Some(m.to_string())))
        }
        _ => None,
    }
}

fn run_child(cutoff: &Arg, threads: usize, mask: &Option<String>, line: &str) -> Result<String, String> {
    let exe = std::env::current_exe().map_err(|e| e.to_string())?;
    let mut cmd = match mask {
        Some(m) if std::path::Path::new("/usr/bin/taskset").exists() => {
            let mut c = Command::new("/usr/bin/taskset");
            c.arg(m).arg(exe);
            c
        }
        _ => Command::new(exe),
    };
    cmd.arg("run").stdin(Stdio::piped()).stdout(Stdio::piped()).stderr(Stdio::null());
    match cutoff {
        Arg::Sym(s) if s == "unset" => { cmd.env_remove(ENV_CUTOFF); }
        Arg::Sym(s) => { cmd.env(ENV_CUTOFF, s); }
        Arg::Nat(n) => { cmd.env(ENV_CUTOFF, n.to_string()); }
        Arg::Neg(n) => { cmd.env(ENV_CUTOFF, format!("-{}", n)); }
        _ => return Err("bad cutoff".into()),
    }
    cmd.env("RAYON_NUM_THREADS", threads.to_string());
    let mut child = cmd.spawn().map_err(|e| e.to_string())?;
    {
        let mut stdin = child.stdin.take().ok_or("no stdin")?;
        stdin.write_all(line.as_bytes()).map_err(|e| e.to_string())?;
        stdin.write_all(b"\n").map_err(|e| e.to_string())?;
    }
    // read stdout on a thread so that a large reply cannot block the child
    let mut stdout = child.stdout.take().ok_or("no stdout")?;
    let reader = std::thread::spawn(move || { let mut s = String::new(); let _ = stdout.read_to_string(&mut s); s });
    let t0 = Instant::now();
    loop {
        match child.try_wait() {
            Ok(Some(_)) => break,
            Ok(None) => {
                if t0.elapsed() > CHILD_TIMEOUT {
                    let _ = child.kill();
                    let _ = child.wait();
                    return Err("timeout".into());
                }
                std::thread::sleep(Duration::from_millis(1));
            }
            Err(e) => return Err(e.to_string()),
        }
    }
    let s = reader.join().map_err(|_| "reader thread failed".to_string())?;
    Ok(s.lines().next().unwrap_or("").to_string())
}

pub fn run_mtb(op: &str, a: &[Arg], st: &mut Stats) -> Option<Out> {
    Some(match (op, a) {
        ("build", [ds]) => tree_reply(&ds.digests()?, st),
        // honest proof of the virtual constant tree of height h (all 2^h leafs = d): node on level k is d_k,
        // d_0 = d, d_{k+1} = hash_pair(d_k, d_k); nothing is enumerated, so the maximum height 31 is reachable
        ("vproof", [h, d, is]) => {
            let (h, d) = (h.usize()?, d.digest()?);
            let is: Vec<usize> = is.list()?.iter().map(|x| x.usize()).collect::<Option<_>>()?;
            if h > 62 || is.iter().any(|&i| i >= 1usize << h) {
                return Some(Out::ok("err"));
            }
            let mut levels = vec![d];
            for k in 0..h { levels.push(Tip5::hash_pair(levels[k], levels[k])); }
            let mut sorted = is.clone();
            sorted.sort_unstable();
            sorted.dedup();
            let auth: Vec<Digest> = ref_needed(h, &sorted).iter().map(|&k| levels[h - k.ilog2() as usize]).collect();
            let leafs: Vec<(usize, Digest)> = is.iter().map(|&i| (i, d)).collect();
            let (vr, vf) = verify_reply(h, &leafs, &auth, levels[h], st);
            let (pr, pf) = paths_reply(h, &leafs, &auth, st);
            st.hit(&format!("vproof:height={}", h));
            let want_v = is.is_empty() || h <= 31;
            let want_p = if h <= 31 { format!("ok:{}", fmt_paths(&vec![levels[..h].to_vec(); is.len()])) } else { "err".to_string() };
            let mut o = Out::ok(format!("ok:{}|{}", vr, pr))
                .with_oracle(vr == format!("ok:{}", want_v), format!("honest proof for the constant tree of height {} (maximum supported: 31): verify says {}", h, vr))
                .with_oracle(pr == want_p, format!("honest proof for the constant tree of height {} does not expand to the sibling paths", h));
            if let Some(w) = vf { o = o.with_oracle(false, w); }
            if let Some(w) = pf { o = o.with_oracle(false, w); }
            o
        }
        ("build_env", [cutoff, threads, ds]) => {
            let (threads, mask) = parse_threads(threads)?;
            let digests = ds.digests()?;
            let n = digests.len();
            let c: Option<u128> = match cutoff { Arg::Nat(c) if *c <= usize::MAX as u128 => Some(*c), _ => None };
            let eff = c.unwrap_or(256);
            // which loop builds which levels (for the evidence's distribution table)
            let par_levels = { let mut cnt = (n / 2) as u128; let mut k = 0; while cnt > 0 && cnt >= eff { k += 1; cnt /= 2; } k };
            let total_levels = if n > 1 { n.ilog2() } else { 0 };
            st.hit(&format!("build_env:cutoff={}", match cutoff { Arg::Nat(c) if *c > 1 << 20 => "huge".to_string(), Arg::Nat(c) => c.to_string(), Arg::Sym(s) => s.clone(), _ => "neg".into() }));
            st.hit(&format!("build_env:threads={}{}", threads, match &mask { Some(m) => format!(",affinity-mask=0x{}", m), None => String::new() }));
            st.hit(&format!("build_env:levels:{}", if n <= 1 || !n.is_power_of_two() { "none" } else if par_levels == 0 { "all-sequential" } else if par_levels == total_levels { "all-parallel" } else { "mixed" }));
            let line = format!("mtb build {}", fmt_digests(&digests));
            match run_child(cutoff, threads, &mask, &line) {
                Ok(reply) => {
                    let (r, child_oracle) = match reply.split_once("\tORACLE-FAIL:") { Some((r, o)) => (r.to_string(), Some(o.to_string())), None => (reply, None) };
                    // the same tree as built in this process (different cut-off / thread count) and as the reference
                    let here = tree_reply(&digests, &mut Stats::default());
                    let o = Out::ok(r.clone())
                        .with_oracle(r == here.reply, "tree built in the child process (other cut-off / thread count) differs from the tree built in this process");
                    match child_oracle { Some(w) => o.with_oracle(false, format!("child: {}", w)), None => o }
                }
                Err(e) if e == "timeout" => {
                    st.hit("build_env:TIMEOUT");
                    Out::ok("timeout").with_oracle(false, format!("from_digests did not terminate within {:?} in a child process with this environment", CHILD_TIMEOUT))
                }
                Err(e) => Out::ok(format!("child-error:{}", e)).with_oracle(false, "could not run the child process"),
            }
        }
        _ => return super::c04bulk::run_mtb_more(op, a, st), // bulk / environment ops (c04bulk.rs)
    })
}

pub fn gen(rng: &mut Rng, thorough: bool, out: &mut Vec<String>) {
    let f = |v: &[usize]| fmt_list_u64(&v.iter().map(|&x| x as u64).collect::<Vec<_>>());
    // ---- leaf counts: 0, every power of two, and their neighbours (rejected)
    let max_log = if thorough { 12 } else { 9 };
    out.push("mtb build []".to_string());
    for k in 0..=max_log {
        let n = 1usize << k;
        for m in [n.saturating_sub(1), n, n + 1] {
            if m == 0 || (m > 600 && !m.is_power_of_two()) { continue; }
            let leaves = rand_leaves(rng, m);
            out.push(format!("mtb build {}", fmt_digests(&leaves)));
        }
    }
    for m in [3usize, 5, 6, 7, 12, 24, 48, 96, 100, 255, 257, 384] {
        out.push(format!("mtb build {}", fmt_digests(&rand_leaves(rng, m))));
    }
    // ---- every environment for small trees: cut-off below, at, above each level size
    let cutoffs: Vec<String> = ["unset", "abc", "-1", "0", "1", "2", "3", "4", "5", "8", "255", "256", "257", "1073741824",
        "18446744073709551615", "18446744073709551616"].iter().map(|s| s.to_string()).collect();
    let threads = [1usize, 2, 16];
    let small: &[usize] = if thorough { &[1, 2, 4, 8, 16, 32] } else { &[1, 2, 4, 8] };
    for &n in small {
        let leaves = rand_leaves(rng, n);
        for c in &cutoffs {
            for &t in &threads {
                if !thorough && n > 2 && t == 2 && !["0", "1", "2", "unset"].contains(&c.as_str()) { continue; }
                out.push(format!("mtb build_env {} {} {}", c, t, fmt_digests(&leaves)));
            }
        }
    }
    // mid-size trees with the hand-off between the parallel and the sequential loop at every level, pinned and unpinned
    let mid: &[usize] = if thorough { &[16, 32, 64, 128, 256] } else { &[16, 64] };
    for &n in mid {
        let leaves = rand_leaves(rng, n);
        let mut level = 1usize;
        while level <= n {
            for c in [level.saturating_sub(1), level, level + 1] {
                let t = *rng.pick(&["1", "2", "16", "t16m1", "t4m3", "t2m1"]);
                out.push(format!("mtb build_env {} {} {}", c, t, fmt_digests(&leaves)));
            }
            level *= 2;
        }
    }
    // non-powers of two and the empty list are rejected under every cut-off, too
    for c in ["0", "1", "unset"] {
        out.push(format!("mtb build_env {} 2 []", c));
        out.push(format!("mtb build_env {} 2 {}", c, fmt_digests(&rand_leaves(rng, 3))));
        out.push(format!("mtb build_env {} 2 {}", c, fmt_digests(&rand_leaves(rng, 6))));
    }
    // ---- trees that reach the default cut-off (level sizes 256 and above are hashed in parallel) and cut-offs around
    //      the level sizes of larger trees
    let big: &[(usize, &[&str], &[usize])] = if thorough {
        &[(512, &["unset", "abc", "0", "1", "2", "3", "255", "256", "257", "1073741824"], &[1, 2, 16]),
          (1024, &["unset", "0", "1", "3", "128", "256", "257", "512", "513"], &[1, 2, 16]),
          (4096, &["unset", "0", "1", "1000", "2048", "2049"], &[1, 16]),
          (16384, &["unset", "0", "8192"], &[16])]
    } else {
        &[(512, &["unset", "0", "256", "257", "1"], &[2, 16]), (1024, &["unset", "3", "512"], &[16])]
    };
    for (n, cs, ts) in big {
        let leaves = rand_leaves(rng, *n);
        for c in *cs { for t in *ts { out.push(format!("mtb build_env {} {} {}", c, t, fmt_digests(&leaves))); } }
    }
    // ---- random (cut-off, threads, size) triples with the cut-off around a level size
    let rounds = if thorough { 1200 } else { 40 };
    for _ in 0..rounds {
        let k = rng.range(0, if thorough { 8 } else { 6 }) as usize;
        let n = 1usize << k;
        let level = 1u64 << rng.below(k as u64 + 1);
        let c = match rng.below(5) { 0 => "unset".to_string(), 1 => "0".to_string(), _ => rng.around(level, 1).to_string() };
        out.push(format!("mtb build_env {} {} {}", c, rng.pick(&["1", "2", "3", "16", "t16m1", "t3m3"]), fmt_digests(&rand_leaves(rng, n))));
    }
    // ---- virtual constant trees: honest proofs for every height up to the supported maximum 31 (32 is rejected)
    for h in [0usize, 1, 2, 13, 30, 31, 32] {
        let n = 1usize << h;
        let d = rand_digest(rng);
        let r = |rng: &mut Rng| rng.below(n as u64) as usize;
        let a = r(rng);
        let lists: Vec<Vec<usize>> = vec![
            vec![0], vec![n - 1], vec![0, n - 1], vec![n - 1, 0, n / 2], vec![a], vec![a, a ^ 1 & (n - 1)],
            vec![a, r(rng), r(rng), a, 0], { let mut v = vec![r(rng), r(rng), r(rng), r(rng)]; v.sort_unstable(); v },
            vec![n / 2, (n / 2).saturating_sub(1)], vec![n - 1, n - 1, n - 1],
        ];
        for l in lists { out.push(format!("mtb vproof {} {} {}", h, fmt_digest(&d), f(&l))); }
    }
    // ---- requests with an out-of-range index (boundary set) are errors, never panics, for every tree size
    for h in [0usize, 1, 3] {
        let leaves = rand_leaves(rng, 1usize << h);
        boundary_cross(rng, h, &leaves, out);
    }
    // ---- honest proofs: any index list, any order, with repetitions (ops of family `mt`, oracles in c04.rs)
    let trees = if thorough { 700 } else { 50 };
    for t in 0..trees {
        let h = if t % 25 == 24 { 9 } else { rng.range(0, 7) as usize };
        let n = 1usize << h;
        let ds = fmt_digests(&rand_leaves(rng, n));
        for _ in 0..(if h == 9 { 2 } else { 4 }) {
            let max_len = if rng.coin(1, 4) { 40 } else { 8 };
            let is = gen_indices(rng, h, max_len);
            out.push(format!("mt {} {} {}", rng.pick(&["proof", "proof", "proof", "auth_structure"]), ds, f(&is)));
        }
        if t % 10 == 0 {
            out.push(format!("mt proof {} {}", ds, f(&(0..n).rev().collect::<Vec<_>>())));
            out.push(format!("mt proof {} [{}]", ds, n));          // out of range: error, no panic
        }
    }
}
