// PROP: C17  FAMILIES: polyv=run_polyv
//! C17 -- polynomials have value semantics: stored leading zeros / borrowed storage never change results.  Family `polyv`.
//!
//! `polyv <fn> <field> <args..>`, field tag `b` / `x`; polynomials are raw coefficient lists (stored leading zeros as
//! given in the line, `Polynomial::new` keeps them).  For every op the harness calls the public function
//!   * on the arguments as given (owned)                                   -> this is the reply compared with the model,
//!   * with each polynomial argument position replaced by the same polynomial with k in {1,2,17} more stored zeros,
//!     by a borrowed copy (`Polynomial::new_borrowed`) and by a borrowed copy with 2 more stored zeros,
//!   * with all positions replaced at once, for each of these five kinds,
//! and compares the canonical renderings pairwise (ORACLE: all equal, a panic counts as a result).
//! Further oracles on the implementation: `leading_coefficient` is never `Some(0)`, `coefficients()` never ends in 0,
//! `degree = len(coefficients) - 1`, `is_zero <=> degree = -1`, `a == b => hash(a) == hash(b)`.
use super::c07::{gen_b, gen_x, zeros_k, thresholds, RF, X3};
use crate::util::*;
use num_traits::{One, Zero};
use std::hash::{DefaultHasher, Hash, Hasher};
use std::ops::MulAssign;
use std::panic::{catch_unwind, AssertUnwindSafe};
use twenty_first::math::traits::FiniteField;
use twenty_first::math::zerofier_tree::ZerofierTree;
use twenty_first::prelude::*;

pub trait Fld: FiniteField + MulAssign<BFieldElement> + BFieldCodec + 'static {
    fn plist(a: &Arg) -> Option<Vec<Self>>;
    fn p1(a: &Arg) -> Option<Self>;
    fn f1(&self) -> String;
}
impl Fld for BFieldElement {
    fn plist(a: &Arg) -> Option<Vec<Self>> {
        a.bfes()
    }
    fn p1(a: &Arg) -> Option<Self> {
        a.bfe()
    }
    fn f1(&self) -> String {
        self.value().to_string()
    }
}
impl Fld for XFieldElement {
    fn plist(a: &Arg) -> Option<Vec<Self>> {
        a.xfes()
    }
    fn p1(a: &Arg) -> Option<Self> {
        a.xfe()
    }
    fn f1(&self) -> String {
        fmt_xfe(self)
    }
}
fn fl<F: Fld>(xs: &[F]) -> String {
    let v: Vec<String> = xs.iter().map(|x| x.f1()).collect();
    format!("[{}]", v.join(","))
}
type Pl<F> = Polynomial<'static, F>;
fn okp<F: Fld>(p: &Pl<F>) -> String {
    format!("ok:{}", fl(p.coefficients()))
}
fn hash_of<F: Fld>(p: &Pl<F>) -> u64 {
    let mut h = DefaultHasher::new();
    p.hash(&mut h);
    h.finish()
}

const KINDS: [(&str, usize, bool); 5] = [("z1", 1, false), ("z2", 2, false), ("z17", 17, false), ("borrowed", 0, true), ("borrowed+z2", 2, true)];

fn build<F: Fld>(storage: &[F], zeros: usize, borrowed: bool) -> Pl<F> {
    let mut v = storage.to_vec();
    v.extend(std::iter::repeat(F::ZERO).take(zeros));
    if borrowed {
        // `'static`-only methods (Zero, batch_evaluate, ..) need a `'static` borrow: leak the (small) storage
        Polynomial::new_borrowed(Box::leak(v.into_boxed_slice()))
    } else {
        Polynomial::new(v)
    }
}

/// call `f` on the base arguments and on all storage variants; reply = base result; oracle = all renderings equal
fn with_variants<F: Fld>(base: &[Vec<F>], st: &mut Stats, f: &dyn Fn(&[Pl<F>]) -> String) -> Out {
    let call = |ps: Vec<Pl<F>>| -> String { catch_unwind(AssertUnwindSafe(|| f(&ps))).unwrap_or_else(|_| "panic".to_string()) };
    let base_polys: Vec<Pl<F>> = base.iter().map(|s| build(s, 0, false)).collect();
    let r0 = call(base_polys);
    if r0 == "panic" {
        st.hit("outcome:panic(all variants must agree)");
    }
    let n = base.len();
    let positions: Vec<usize> = if n <= 3 { (0..n).collect() } else { vec![0, n / 2, n - 1] };
    let mut bad: Option<String> = None;
    let mut calls = 0u64;
    for (label, z, bor) in KINDS {
        // one position at a time
        for &i in &positions {
            let ps: Vec<Pl<F>> = base.iter().enumerate().map(|(j, s)| if i == j { build(s, z, bor) } else { build(s, 0, false) }).collect();
            let r = call(ps);
            calls += 1;
            if r != r0 && bad.is_none() {
                bad = Some(format!("argument {i} as {label}: {} instead of {}", &r[..r.len().min(80)], &r0[..r0.len().min(80)]));
            }
        }
        // all positions at once
        if n > 1 {
            let ps: Vec<Pl<F>> = base.iter().map(|s| build(s, z, bor)).collect();
            let r = call(ps);
            calls += 1;
            if r != r0 && bad.is_none() {
                bad = Some(format!("all arguments as {label}: {} instead of {}", &r[..r.len().min(80)], &r0[..r0.len().min(80)]));
            }
        }
        st.hit(&format!("variant:{label}"));
    }
    *st.counters.entry("variant-calls".into()).or_insert(0) += calls;
    let ok = bad.is_none();
    Out::ok(r0).with_oracle(ok, bad.unwrap_or_default())
}

fn run_f<F: Fld>(op: &str, a: &[Arg], st: &mut Stats) -> Option<Out>
where
    F: std::ops::Mul<F, Output = F>,
{
    if matches!(op, "batch_multiply" | "par_batch_multiply") {
        let fs: Vec<Vec<F>> = a.first()?.list()?.iter().map(F::plist).collect::<Option<_>>()?;
        st.hit(&format!("batch:len={}", if fs.len() > 9 { ">9".to_string() } else { fs.len().to_string() }));
        if fs.len() >= 2 && fs.iter().all(|p| p.len() == 2) {
            st.hit("batch:every-factor-has-two-stored-coefficients");
        }
        if fs.iter().any(|p| p.len() >= 2 && Polynomial::new(p.clone()).degree() <= 0) {
            st.hit("batch:padded-constant-element");
        }
        let o = with_variants(&fs, st, &|ps| {
            okp(&if op == "batch_multiply" { Polynomial::batch_multiply(ps) } else { Polynomial::par_batch_multiply(ps) })
        });
        // on the implementation: the sequential and the parallel batch product agree with the left-to-right product
        // by the operator `*`, and the degree is the sum of the degrees (no factor dropped, none added)
        let ps: Vec<Pl<F>> = fs.iter().map(|p| build(p, 0, false)).collect();
        let mut acc: Pl<F> = Polynomial::one();
        for p in &ps {
            acc = acc * p.clone();
        }
        let agree = std::panic::catch_unwind(AssertUnwindSafe(|| {
            Polynomial::batch_multiply(&ps) == acc && Polynomial::par_batch_multiply(&ps) == acc
        }))
        .unwrap_or(true);
        return Some(o.with_oracle(agree, "batch_multiply / par_batch_multiply != the left-to-right product of the factors"));
    }
    let p0 = F::plist(a.first()?)?;
    let stored = p0.len() as i64 - (Polynomial::new(p0.clone()).degree() as i64 + 1);
    st.hit(&format!("stored-zeros-in-line:{}", if stored > 2 { ">2".to_string() } else { stored.to_string() }));
    let one = |f: &dyn Fn(&Pl<F>) -> String, st: &mut Stats| Some(with_variants(&[p0.clone()], st, &|ps| f(&ps[0])));
    match op {
        // ---- accessors / predicates ------------------------------------------------------------------------
        "degree" => one(&|p| format!("ok:{}", p.degree()), st),
        "is_zero" => one(&|p| format!("ok:{}", p.is_zero()), st),
        "is_one" => one(&|p| format!("ok:{}", p.is_one()), st),
        "is_x" => one(&|p| format!("ok:{}", p.is_x()), st),
        "leading_coefficient" => {
            let o = one(
                &|p| match p.leading_coefficient() {
                    Some(c) => format!("ok:some:{}", c.f1()),
                    None => "ok:none".into(),
                },
                st,
            )?;
            // accessor specification, on the implementation
            let p = build(&p0, 0, false);
            let lc = p.leading_coefficient();
            let spec = lc != Some(F::ZERO)
                && lc.is_none() == p.is_zero()
                && p.is_zero() == (p.degree() == -1)
                && p.coefficients().last().is_none_or(|c| !c.is_zero())
                && p.degree() == p.coefficients().len() as isize - 1
                && lc == p.coefficients().last().copied();
            Some(o.with_oracle(spec, "accessor specification (leading coefficient / degree / coefficients / is_zero) violated"))
        }
        "coefficients" => one(&|p| format!("ok:{}", fl(p.coefficients())), st),
        "into_coefficients" => one(&|p| format!("ok:{}", fl(&p.clone().into_coefficients())), st),
        "into_owned" => one(&|p| okp(&p.clone().into_owned()), st),
        "clone" => one(&|p| okp(&p.clone()), st),
        "formal_derivative" => one(&|p| okp(&p.formal_derivative()), st),
        "slow_square" => one(&|p| okp(&p.slow_square()), st),
        "square" => one(&|p| okp(&p.square()), st),
        "fast_square" => one(&|p| okp(&p.fast_square()), st),
        "neg" => one(&|p| okp(&(-p.clone())), st),
        "encode" => {
            let o = one(&|p| format!("ok:{}", fmt_bfes(&p.encode())), st)?;
            // decode . encode = id (as polynomials)
            let p = build(&p0, 0, false);
            let rt = Pl::<F>::decode(&p.encode()).map(|q| *q == p).unwrap_or(false);
            Some(o.with_oracle(rt, "decode(encode(p)) != p"))
        }
        "hash" => one(&|p| format!("ok:{}", hash_of(p)), st),
        "display" => one(&|p| format!("ok:{}", p.to_string().replace(' ', "_")), st),
        // ---- polynomial and a scalar / integer -------------------------------------------------------------
        "evaluate" => {
            let x = F::p1(a.get(1)?)?;
            one(
                &|p| {
                    let v: F = p.evaluate(x);
                    let w = p.evaluate_in_same_field(x);
                    if v == w {
                        format!("ok:{}", v.f1())
                    } else {
                        "evaluate != evaluate_in_same_field".into()
                    }
                },
                st,
            )
        }
        "pow" => {
            let e = a.get(1)?.u64()? as u32;
            one(&|p| okp(&p.pow(e)), st)
        }
        "fast_pow" => {
            let e = a.get(1)?.u64()? as u32;
            one(&|p| okp(&p.fast_pow(e)), st)
        }
        "shift_coefficients" => {
            let n = a.get(1)?.usize()?;
            one(&|p| okp(&p.clone().shift_coefficients(n)), st)
        }
        "scalar_mul" => {
            let s = F::p1(a.get(1)?)?;
            one(&|p| okp(&p.scalar_mul(s)), st)
        }
        "scalar_mul_mut" => {
            let s = F::p1(a.get(1)?)?;
            one(
                &|p| {
                    let mut q = p.clone();
                    q.scalar_mul_mut(s);
                    okp(&q)
                },
                st,
            )
        }
        "scale" => {
            let s = F::p1(a.get(1)?)?;
            one(&|p| okp(&p.scale::<F, F>(s)), st)
        }
        "truncate" => {
            let k = a.get(1)?.usize()?;
            let o = one(&|p| okp(&p.truncate(k)), st)?;
            // documented contract, on the implementation: the min(k, deg) + 1 highest coefficients of `coefficients()`
            let p = build(&p0, 0, false);
            let c = p.coefficients();
            let keep = (k as u128 + 1).min(c.len() as u128) as usize;
            st.hit(if k == usize::MAX { "truncate:k=usize::MAX" } else if k as u128 + 1 >= c.len() as u128 { "truncate:k>=deg" } else { "truncate:k<deg" });
            let want = &c[c.len() - keep..];
            let got = std::panic::catch_unwind(AssertUnwindSafe(|| p.truncate(k).coefficients().to_vec()));
            let ok = got.map(|g| g.as_slice() == normalized_tail(want)).unwrap_or(false);
            Some(o.with_oracle(ok, "truncate(k) is not the min(k,deg)+1 highest coefficients"))
        }
        "mod_x_to_the_n" => {
            let n = a.get(1)?.usize()?;
            one(&|p| okp(&p.mod_x_to_the_n(n)), st)
        }
        "structured_multiple_of_degree" => {
            let n = a.get(1)?.usize()?;
            one(&|p| okp(&p.structured_multiple_of_degree(n)), st)
        }
        "formal_power_series_inverse_newton" => {
            let n = a.get(1)?.usize()?;
            one(&|p| okp(&p.clone().formal_power_series_inverse_newton(n)), st)
        }
        "fast_coset_evaluate" => {
            let s = F::p1(a.get(1)?)?;
            let order = a.get(2)?.usize()?;
            one(&|p| format!("ok:{}", fl(&p.fast_coset_evaluate(s, order))), st)
        }
        "shift_factor_ntt_with_tail_length" => one(
            &|p| {
                let (v, t) = p.shift_factor_ntt_with_tail_length();
                format!("ok:{}|{}", fl(&v), t)
            },
            st,
        ),
        "batch_evaluate" | "par_batch_evaluate" | "iterative_batch_evaluate" | "divide_and_conquer_batch_evaluate" => {
            let dom = F::plist(a.get(1)?)?;
            st.hit(if Polynomial::new(p0.clone()).degree() >= 4 * dom.len() as isize { "arm:batch_evaluate=reduce-first" } else { "arm:batch_evaluate=tree" });
            one(
                &|p| {
                    let v = match op {
                        "batch_evaluate" => p.batch_evaluate(&dom),
                        "par_batch_evaluate" => p.par_batch_evaluate(&dom),
                        "iterative_batch_evaluate" => p.iterative_batch_evaluate(&dom),
                        _ => p.divide_and_conquer_batch_evaluate(&ZerofierTree::new_from_domain(&dom)),
                    };
                    format!("ok:{}", fl(&v))
                },
                st,
            )
        }
        // ---- two polynomials -------------------------------------------------------------------------------
        "eq" | "hash_eq" | "add" | "add_assign" | "sub" | "mul" | "naive_multiply" | "multiply" | "fast_multiply" | "divide"
        | "naive_divide" | "div" | "rem" | "xgcd" | "reduce" | "fast_reduce" | "reduce_by_ntt_friendly_modulus" => {
            let p1 = F::plist(a.get(1)?)?;
            if matches!(op, "reduce" | "fast_reduce") {
                let (da, dm) = (Polynomial::new(p0.clone()).degree(), Polynomial::new(p1.clone()).degree());
                st.hit(if dm <= 0 { "arm:reduce=trivial-modulus" } else if da < dm { "arm:reduce=already-reduced" } else if da > 4 * dm { "arm:reduce=fast" } else { "arm:reduce=long-division" });
            }
            let o = with_variants(&[p0.clone(), p1.clone()], st, &|ps| {
                let (p, q) = (&ps[0], &ps[1]);
                match op {
                    "eq" => format!("ok:{}", p == q),
                    "hash_eq" => format!("ok:{}", hash_of(p) == hash_of(q)),
                    "add" => okp(&(p.clone() + q.clone())),
                    "add_assign" => {
                        let mut r = p.clone();
                        r += q.clone();
                        okp(&r)
                    }
                    "sub" => okp(&(p.clone() - q.clone())),
                    "mul" => okp(&(p.clone() * q.clone())),
                    "naive_multiply" => okp(&p.naive_multiply(q)),
                    "multiply" => okp(&p.multiply(q)),
                    "fast_multiply" => okp(&p.fast_multiply(q)),
                    "divide" | "naive_divide" => {
                        let (x, y) = if op == "divide" { p.divide(q) } else { p.naive_divide(q) };
                        format!("ok:{}|{}", fl(x.coefficients()), fl(y.coefficients()))
                    }
                    "div" => okp(&(p.clone() / q.clone())),
                    "rem" => okp(&(p.clone() % q.clone())),
                    "xgcd" => {
                        let (g, x, y) = Polynomial::xgcd(p.clone(), q.clone());
                        format!("ok:{}|{}|{}", fl(g.coefficients()), fl(x.coefficients()), fl(y.coefficients()))
                    }
                    "reduce" => okp(&p.reduce(q)),
                    "fast_reduce" => okp(&p.fast_reduce(q)),
                    _ => {
                        let (shift, tail) = q.shift_factor_ntt_with_tail_length();
                        okp(&p.reduce_by_ntt_friendly_modulus(&shift, tail))
                    }
                }
            });
            // Eq/Hash contract on the implementation
            let (p, q) = (build(&p0, 0, false), build(&p1, 0, false));
            let contract = p != q || hash_of(&p) == hash_of(&q);
            if p == q {
                st.hit("class:equal-polynomials");
            }
            Some(o.with_oracle(contract, "a == b but hash(a) != hash(b)"))
        }
        _ => None,
    }
}

pub fn run_polyv(op: &str, args: &[Arg], st: &mut Stats) -> Option<Out> {
    let f = args.first()?.sym()?.to_string();
    let a = &args[1..];
    st.hit(&format!("field:{f}"));
    if let Some(o) = run_ext(op, f.as_str(), a, st) {
        return Some(o);
    }
    match (op, f.as_str()) {
        ("clean_divide", "b") => {
            // BFieldElement only; the dividend is given as quotient and divisor so that the division is clean
            let q = BFieldElement::plist(a.first()?)?;
            let d = BFieldElement::plist(a.get(1)?)?;
            let prod = Polynomial::new(q).multiply(&Polynomial::new(d.clone())).into_coefficients();
            let (_, _) = thresholds();
            st.hit(if Polynomial::new(d.clone()).degree() >= 512 { "arm:clean_divide=ntt" } else { "arm:clean_divide=long-division" });
            Some(with_variants(&[prod, d], st, &|ps| okp(&ps[0].clone().clean_divide(ps[1].clone()))))
        }
        (_, "b") => run_f::<BFieldElement>(op, a, st),
        (_, "x") => run_f::<XFieldElement>(op, a, st),
        _ => super::c17bulk::run_polyv_more(op, args, st), // history ops (c17bulk.rs)
    }
}

// ---- generator -------------------------------------------------------------------------------------------
fn pstr(rng: &mut Rng, x: bool, d: i64, k: usize) -> String {
    if x {
        X3::fmtl(&gen_x(rng, d, k))
    } else {
        fmt_list_u64(&gen_b(rng, d, k))
    }
}
fn estr(rng: &mut Rng, x: bool) -> String {
    if x {
        fmt_xfe(&rng.xfe())
    } else {
        rng.fval().to_string()
    }
}
fn small_deg(rng: &mut Rng) -> i64 {
    match rng.below(if BIG.load(std::sync::atomic::Ordering::Relaxed) { 12 } else { 10 }) {
        10 => rng.range(30, 70) as i64,
        11 => rng.range(250, 270) as i64,
        0 => -1,
        1 => 0,
        2 => 1,
        _ => rng.range(0, 14) as i64 - 1,
    }
}

static BIG: std::sync::atomic::AtomicBool = std::sync::atomic::AtomicBool::new(false);

pub fn gen(rng: &mut Rng, thorough: bool, out: &mut Vec<String>) {
    let (t, c) = thresholds();
    BIG.store(thorough, std::sync::atomic::Ordering::Relaxed);
    let reps = if thorough { 150 } else { 8 };
    let unary = [
        "degree", "is_zero", "is_one", "is_x", "leading_coefficient", "coefficients", "into_coefficients", "into_owned", "clone",
        "formal_derivative", "slow_square", "square", "fast_square", "neg", "encode", "hash", "display",
    ];
    for f in ["b", "x"] {
        let x = f == "x";
        // special shapes every accessor must get right: empty, all-zero storage, one, X, constants
        let specials: Vec<String> = if x {
            vec!["[]", "[(0;0;0)]", "[(0;0;0),(0;0;0),(0;0;0)]", "[(1;0;0)]", "[(1;0;0),(0;0;0)]", "[(0;0;0),(1;0;0)]", "[(0;0;0),(1;0;0),(0;0;0),(0;0;0)]",
                "[(0;1;0)]", "[(1;0;0),(1;0;0)]", "[(0;0;0),(0;0;1)]"].into_iter().map(String::from).collect()
        } else {
            vec!["[]", "[0]", "[0,0,0]", "[1]", "[1,0]", "[0,1]", "[0,1,0,0]", "[2]", "[1,1]", "[0,2]", "[1,2,0]", "[18446744069414584320]"]
                .into_iter().map(String::from).collect()
        };
        for op in unary {
            for s in &specials {
                out.push(format!("polyv {op} {f} {s}"));
            }
            for _ in 0..reps {
                let d = small_deg(rng);
                let k = zeros_k(rng);
                let p = pstr(rng, x, d, k);
                out.push(format!("polyv {op} {f} {p}"));
            }
        }
        // squares on both sides of the cut-off with stored zeros (F5's class)
        for op in ["square", "fast_square", "slow_square"] {
            for d in [(c as i64) / 2 - 1, (c as i64) / 2, (c as i64) / 2 + 1] {
                for k in [0usize, 1, 17] {
                    let p = pstr(rng, x, d, k);
                    out.push(format!("polyv {op} {f} {p}"));
                }
            }
        }
        // polynomial and scalar / integer
        for _ in 0..reps * 6 {
            let d = small_deg(rng);
            let k = zeros_k(rng);
            let p = pstr(rng, x, d, k);
            let s = estr(rng, x);
            out.push(format!("polyv evaluate {f} {p} {s}"));
            out.push(format!("polyv scalar_mul {f} {p} {s}"));
            out.push(format!("polyv scalar_mul_mut {f} {p} {s}"));
            out.push(format!("polyv scale {f} {p} {s}"));
            let e = *rng.pick(&[0u64, 1, 2, 3, 5, 8]);
            out.push(format!("polyv pow {f} {p} {e}"));
            out.push(format!("polyv fast_pow {f} {p} {e}"));
            let n = *rng.pick(&[0u64, 1, 2, 3, 17]);
            out.push(format!("polyv shift_coefficients {f} {p} {n}"));
            // truncate / mod_x_to_the_n around the degree and around the stored length (F6's class)
            for kk in [0i64, 1, d - 1, d, d + 1, d + k as i64, d + k as i64 + 1] {
                if kk >= 0 {
                    out.push(format!("polyv truncate {f} {p} {kk}"));
                    out.push(format!("polyv mod_x_to_the_n {f} {p} {kk}"));
                }
            }
            if d >= 0 {
                let n = d as u64 + rng.range(0, 6);
                out.push(format!("polyv structured_multiple_of_degree {f} {p} {n}"));
                let order = ((d + 1) as u64).next_power_of_two() << rng.below(2);
                out.push(format!("polyv fast_coset_evaluate {f} {p} {s} {order}"));
            }
            // power-series inverse: constant term non-zero (mostly), precision 1..40
            let mut q = if x { gen_x(rng, d.max(0), k).iter().map(|c| format!("({};{};{})", c[0], c[1], c[2])).collect::<Vec<_>>() } else { gen_b(rng, d.max(0), k).iter().map(|c| c.to_string()).collect() };
            if rng.coin(9, 10) {
                q[0] = if x { "(3;1;0)".into() } else { "7".into() };
            }
            let prec = rng.range(1, 40);
            out.push(format!("polyv formal_power_series_inverse_newton {f} [{}] {prec}", q.join(",")));
            // batch evaluation: both arms of `degree >= 4 * |domain|`
            let m = rng.range(0, 6) as usize;
            let dom: Vec<String> = (0..m).map(|_| estr(rng, x)).collect();
            let op = *rng.pick(&["batch_evaluate", "par_batch_evaluate", "iterative_batch_evaluate", "divide_and_conquer_batch_evaluate"]);
            out.push(format!("polyv {op} {f} {p} [{}]", dom.join(",")));
        }
        // two polynomials
        let binary = ["eq", "hash_eq", "add", "add_assign", "sub", "mul", "naive_multiply", "multiply", "fast_multiply", "divide", "naive_divide",
            "div", "rem", "xgcd", "reduce"];
        for op in binary {
            for _ in 0..reps * 4 {
                let (da, db) = (small_deg(rng), small_deg(rng));
                let (ka, kb) = (zeros_k(rng), zeros_k(rng));
                let a = pstr(rng, x, da, ka);
                // equal polynomials with different storage for eq / hash_eq / sub
                let b = if matches!(op, "eq" | "hash_eq" | "sub") && rng.coin(1, 2) {
                    let base: Vec<&str> = a.trim_matches(|ch| ch == '[' || ch == ']').split(',').filter(|s| !s.is_empty()).collect();
                    // re-pad the same coefficients (commas inside x elements do not occur: they use ';')
                    let z = if x { "(0;0;0)" } else { "0" };
                    let mut v: Vec<String> = base.iter().map(|s| s.to_string()).collect();
                    for _ in 0..*rng.pick(&[0usize, 1, 2, 17]) {
                        v.push(z.into());
                    }
                    format!("[{}]", v.join(","))
                } else {
                    pstr(rng, x, db, kb)
                };
                out.push(format!("polyv {op} {f} {a} {b}"));
            }
        }
        // products across the multiply threshold with stored zeros on either side
        for s in [t - 1, t, t + 1] {
            let da = rng.range(0, s.max(0) as u64) as i64;
            let (ka, kb) = (*rng.pick(&[1usize, 2, 17]), zeros_k(rng));
            let a = pstr(rng, x, da, ka);
            let b = pstr(rng, x, s - da, kb);
            out.push(format!("polyv multiply {f} {a} {b}"));
            out.push(format!("polyv fast_multiply {f} {a} {b}"));
        }
        // reduction: all four arms; dividend lengths around the chunk boundaries of the NTT-friendly reduction (256-ish)
        for _ in 0..reps * 2 {
            let dm = rng.range(1, 5) as i64;
            let km = zeros_k(rng);
            let m = pstr(rng, x, dm, km);
            for da in [dm - 1, dm, 4 * dm, 4 * dm + 1, 30, 250, 256, 257, 300, 510, 520] {
                let k = *rng.pick(&[0usize, 1, 2, 17]);
                let a = pstr(rng, x, da, k);
                let op = *rng.pick(&["reduce", "fast_reduce", "reduce_by_ntt_friendly_modulus"]);
                out.push(format!("polyv {op} {f} {a} {m}"));
            }
            out.push(format!("polyv shift_factor_ntt_with_tail_length {f} {m}"));
        }
        // batch products
        for l in [0usize, 1, 2, 3, 5, 8] {
            for _ in 0..reps {
                let fs: Vec<String> = (0..l).map(|_| { let d = small_deg(rng).min(4); let k = zeros_k(rng); pstr(rng, x, d, k) }).collect();
                out.push(format!("polyv batch_multiply {f} [{}]", fs.join(",")));
                out.push(format!("polyv par_batch_multiply {f} [{}]", fs.join(",")));
            }
        }
    }
    gen_ext(rng, thorough, out);
    gen_batch_elements(rng, thorough, out);
    // clean division (base field only): long-division arm, and the NTT arm (divisor degree >= 512 in production)
    for (dq, dd) in [(3i64, 5i64), (0, 7), (-1, 4), (10, 0)] {
        let q = pstr(rng, false, dq, 0);
        let kd = zeros_k(rng);
        let d = pstr(rng, false, dd, kd);
        out.push(format!("polyv clean_divide b {q} {d}"));
    }
    for _ in 0..(if thorough { 6 } else { 1 }) {
        let dq = rng.range(1, 40) as i64;
        let dd = 512 + rng.range(0, 8) as i64;
        let q = pstr(rng, false, dq, 0);
        let d = pstr(rng, false, dd, 0);
        out.push(format!("polyv clean_divide b {q} {d}"));
    }
}

// ============================================================================================================
// G07 extension: public API of `Polynomial` that had no op before -- constructors (`x_to_the`, `from_constant`,
// `Zero::zero`, `One::one`, the four `From` impls), the scalar `Mul` operators (`p * s`, `s * p` for both scalar
// types), mixed-field `evaluate::<Ind, Eval>`, and the modulus argument of the (doc-hidden, pub) modular coset
// interpolation.  Every polynomial argument is run on the storage variants of `KINDS`; constructors are run on
// padded coefficient lists.  Oracles use field arithmetic only.
// ============================================================================================================
fn normalized_tail<F: Fld>(c: &[F]) -> &[F] {
    let mut n = c.len();
    while n > 0 && c[n - 1].is_zero() {
        n -= 1;
    }
    &c[..n]
}
fn horner_mixed<C: Copy, X: Copy + std::ops::Mul<X, Output = X> + std::ops::Add<C, Output = X> + Zero>(cs: &[C], x: X) -> X {
    let mut acc = X::zero();
    for &c in cs.iter().rev() {
        acc = acc * x + c;
    }
    acc
}
const PADS: [usize; 4] = [0, 1, 2, 17];

fn ctor_ops<F: Fld>(op: &str, a: &[Arg], st: &mut Stats) -> Option<Out>
where
    F: std::ops::Mul<F, Output = F>,
{
    match op {
        "x_to_the" => {
            let n = a.first()?.usize()?;
            st.hit(&format!("ctor:x_to_the n={}", if n > 2 { ">2".into() } else { n.to_string() }));
            let p = Polynomial::<F>::x_to_the(n);
            let c = p.coefficients();
            let ok = c.len() == n + 1
                && c[..n].iter().all(|x| x.is_zero())
                && c[n].is_one()
                && p.degree() == n as isize
                && p.is_x() == (n == 1)
                && p.is_one() == (n == 0)
                && p == Polynomial::<F>::one().shift_coefficients(n);
            Some(Out::ok(okp(&p)).with_oracle(ok, "x_to_the(n) != X^n"))
        }
        "from_constant" => {
            let c = F::p1(a.first()?)?;
            st.hit(if c.is_zero() { "ctor:from_constant zero" } else { "ctor:from_constant nonzero" });
            let p = Polynomial::from_constant(c);
            let ok = p.degree() == if c.is_zero() { -1 } else { 0 }
                && p.coefficients() == normalized_tail(&[c])
                && p.leading_coefficient() == if c.is_zero() { None } else { Some(c) }
                && p.evaluate_in_same_field(c + F::ONE) == c
                && p.is_zero() == c.is_zero()
                && p.is_one() == c.is_one();
            Some(Out::ok(okp(&p)).with_oracle(ok, "from_constant(c) != the constant polynomial c"))
        }
        "zero" | "one" => {
            st.hit(&format!("ctor:{op}"));
            let p: Pl<F> = if op == "zero" { Polynomial::zero() } else { Polynomial::one() };
            let ok = if op == "zero" {
                p.is_zero() && !p.is_one() && p.degree() == -1 && p.coefficients().is_empty() && p == Polynomial::new(vec![F::ZERO; 3])
                    && hash_of(&p) == hash_of(&Polynomial::new(vec![F::ZERO; 3]))
            } else {
                p.is_one() && !p.is_zero() && p.degree() == 0 && p.coefficients() == [F::ONE] && p == Polynomial::new(vec![F::ONE, F::ZERO])
                    && hash_of(&p) == hash_of(&Polynomial::new(vec![F::ONE, F::ZERO]))
            };
            Some(Out::ok(okp(&p)).with_oracle(ok, "Zero::zero / One::one are not the polynomials 0 / 1"))
        }
        "from_vec" | "from_slice" | "from_array" => {
            let v = F::plist(a.first()?)?;
            st.hit(&format!("ctor:{op} len={}", v.len().min(5)));
            let mk = |w: &[F]| -> Option<Pl<F>> {
                Some(match op {
                    "from_vec" => Polynomial::from(w.to_vec()),
                    "from_slice" => {
                        let leaked: &'static [F] = Box::leak(w.to_vec().into_boxed_slice());
                        Polynomial::from(leaked)
                    }
                    _ => match w.len() {
                        0 => Polynomial::from([F::ZERO; 0]),
                        1 => Polynomial::from([w[0]]),
                        2 => Polynomial::from([w[0], w[1]]),
                        3 => Polynomial::from([w[0], w[1], w[2]]),
                        4 => Polynomial::from([w[0], w[1], w[2], w[3]]),
                        5 => Polynomial::from([w[0], w[1], w[2], w[3], w[4]]),
                        _ => return None,
                    },
                })
            };
            let base = mk(&v)?;
            let r0 = okp(&base);
            let mut bad = None;
            for z in PADS {
                let mut w = v.clone();
                w.extend(std::iter::repeat(F::ZERO).take(z));
                let Some(q) = mk(&w) else { continue };
                let same = okp(&q) == r0 && q == base && hash_of(&q) == hash_of(&base) && q == Polynomial::new(w.clone()) && q.encode() == base.encode();
                if !same && bad.is_none() {
                    bad = Some(format!("{op} of the list padded with {z} zeros differs"));
                }
                st.hit(&format!("variant:ctor-pad{z}"));
            }
            let spec = base.coefficients() == normalized_tail(&v);
            Some(Out::ok(r0).with_oracle(bad.is_none(), bad.unwrap_or_default()).with_oracle(spec, "From<..>: coefficients() is not the list without its trailing zeros"))
        }
        _ => None,
    }
}

fn scalar_ops<F: Fld, S: Copy + 'static>(op: &str, p0: &[F], s: S, st: &mut Stats, smul: &dyn Fn(F, S) -> F, times: &dyn Fn(&Pl<F>, S) -> [Pl<F>; 3]) -> Option<Out> {
    // `times` returns [p * s, s * p, p.scalar_mul(s)]
    let o = with_variants(&[p0.to_vec()], st, &|ps| {
        let [a, b, c] = times(&ps[0], s);
        if a == b && b == c && okp(&a) == okp(&b) && okp(&b) == okp(&c) {
            okp(&match op {
                "mul_scalar" => a,
                _ => b,
            })
        } else {
            "p * s, s * p and scalar_mul(s) differ".into()
        }
    });
    // coefficient-wise, on the implementation
    let want: Vec<F> = p0.iter().map(|&c| smul(c, s)).collect();
    let [a, _, _] = times(&build(p0, 0, false), s);
    let ok = a.coefficients() == normalized_tail(&want);
    Some(o.with_oracle(ok, "scalar operator is not the coefficient-wise product"))
}

fn run_ext(op: &str, f: &str, a: &[Arg], st: &mut Stats) -> Option<Out> {
    type B = BFieldElement;
    type X = XFieldElement;
    match (op, f) {
        ("x_to_the" | "from_constant" | "zero" | "one" | "from_vec" | "from_slice" | "from_array", "b") => ctor_ops::<B>(op, a, st),
        ("x_to_the" | "from_constant" | "zero" | "one" | "from_vec" | "from_slice" | "from_array", "x") => ctor_ops::<X>(op, a, st),
        ("from_xfe", "b") => {
            // From<XFieldElement> for Polynomial<BFieldElement>: the three coordinates, lowest first
            let x = a.first()?.xfe()?;
            let p: Pl<B> = Polynomial::from(x);
            st.hit(&format!("ctor:from_xfe deg={}", p.degree()));
            let ok = p.coefficients() == normalized_tail(&x.coefficients) && p == Polynomial::new(x.coefficients.to_vec());
            Some(Out::ok(okp(&p)).with_oracle(ok, "From<XFieldElement>: not the coordinate polynomial"))
        }
        ("mul_scalar" | "scalar_times", "b") => {
            let p0 = B::plist(a.first()?)?;
            let s = a.get(1)?.bfe()?;
            scalar_ops::<B, B>(op, &p0, s, st, &|c, s| c * s, &|p, s| [p.clone() * s, s * p.clone(), p.scalar_mul(s)])
        }
        ("mul_scalar" | "scalar_times", "x") => {
            let p0 = X::plist(a.first()?)?;
            let s = a.get(1)?.xfe()?;
            scalar_ops::<X, X>(op, &p0, s, st, &|c, s| c * s, &|p, s| [p.clone() * s, s * p.clone(), p.scalar_mul(s)])
        }
        ("mul_scalar" | "scalar_times", "xb") => {
            // Polynomial<XFieldElement> times a base-field scalar, from either side
            let p0 = X::plist(a.first()?)?;
            let s = a.get(1)?.bfe()?;
            scalar_ops::<X, B>(op, &p0, s, st, &|c, s| c * s, &|p, s| [p.clone() * s, s * p.clone(), p.scalar_mul(s)])
        }
        ("mul_scalar" | "scalar_times", "bx") => {
            // Polynomial<BFieldElement> times an extension-field scalar: the result lives over the extension field
            let p0 = B::plist(a.first()?)?;
            let s = a.get(1)?.xfe()?;
            let times = |p: &Pl<B>, s: X| -> [Pl<X>; 3] { [p.clone() * s, s * p.clone(), p.scalar_mul(s)] };
            let o = with_variants(&[p0.clone()], st, &|ps| {
                let [x, y, z] = times(&ps[0], s);
                if x == y && y == z {
                    okp(&if op == "mul_scalar" { x } else { y })
                } else {
                    "p * s, s * p and scalar_mul(s) differ".into()
                }
            });
            let want: Vec<X> = p0.iter().map(|&c| c * s).collect();
            let [x, _, _] = times(&build(&p0, 0, false), s);
            Some(o.with_oracle(x.coefficients() == normalized_tail(&want), "scalar operator is not the coefficient-wise product"))
        }
        ("evaluate_mixed", "bx") => {
            // base-field polynomial at an extension-field point: evaluate::<XFieldElement, XFieldElement>
            let p0 = B::plist(a.first()?)?;
            let x = a.get(1)?.xfe()?;
            let o = with_variants(&[p0.clone()], st, &|ps| {
                let v: X = ps[0].evaluate(x);
                format!("ok:{}", v.f1())
            });
            let v: X = build(&p0, 0, false).evaluate(x);
            Some(o.with_oracle(v == horner_mixed(&p0, x), "evaluate::<XFE,XFE> of a base-field polynomial != Horner"))
        }
        ("evaluate_mixed", "xb") => {
            // extension-field polynomial at a base-field point: evaluate::<BFieldElement, XFieldElement>
            let p0 = X::plist(a.first()?)?;
            let x = a.get(1)?.bfe()?;
            let o = with_variants(&[p0.clone()], st, &|ps| {
                let v: X = ps[0].evaluate::<B, X>(x);
                format!("ok:{}", v.f1())
            });
            let v: X = build(&p0, 0, false).evaluate::<B, X>(x);
            let mut acc = X::zero();
            for &c in p0.iter().rev() {
                acc = acc * x + c;
            }
            Some(o.with_oracle(v == acc, "evaluate::<BFE,XFE> of an extension-field polynomial != Horner"))
        }
        ("fmci_modulus", "b") => fmci_modulus::<B>(a, st),
        ("fmci_modulus", "x") => fmci_modulus::<X>(a, st),
        _ => None,
    }
}

/// the polynomial argument (`modulus`) of the two doc-hidden pub functions behind `coset_extrapolate`
fn fmci_modulus<F: Fld>(a: &[Arg], st: &mut Stats) -> Option<Out>
where
    F: std::ops::Mul<F, Output = F> + std::ops::Mul<BFieldElement, Output = F>,
{
    let off = a.first()?.bfe()?;
    let v = F::plist(a.get(1)?)?;
    let m = F::plist(a.get(2)?)?;
    st.hit(&format!("fmci_modulus:n={} arm={}", v.len(), if v.len() < 256 { "lagrange" } else { "intt" }));
    let o = with_variants(&[m.clone()], st, &|ps| {
        let pre = Polynomial::fast_modular_coset_interpolate_preprocess(v.len(), off, &ps[0]);
        okp(&Polynomial::fast_modular_coset_interpolate_with_zerofiers_and_ntt_friendly_multiple(&v, off, &ps[0], &pre))
    });
    // certificate on the implementation: result = coset interpolant mod modulus  <=>  degree < deg m and
    // (interpolant - result) is divisible by m; checked through the public `fast_coset_interpolate` + `%`
    let modulus = build(&m, 0, false);
    let ok = std::panic::catch_unwind(AssertUnwindSafe(|| {
        let pre = Polynomial::fast_modular_coset_interpolate_preprocess(v.len(), off, &modulus);
        let r = Polynomial::fast_modular_coset_interpolate_with_zerofiers_and_ntt_friendly_multiple(&v, off, &modulus, &pre);
        let full = Polynomial::fast_coset_interpolate(off, &v);
        r.degree() < modulus.degree() && ((full - r) % modulus.clone()).is_zero()
    }))
    .unwrap_or(true);
    Some(o.with_oracle(ok, "modular coset interpolant is not the interpolant reduced by the modulus"))
}

fn gen_ext(rng: &mut Rng, thorough: bool, out: &mut Vec<String>) {
    let reps = if thorough { 60 } else { 6 };
    for f in ["b", "x"] {
        let x = f == "x";
        for n in [0u64, 1, 2, 3, 17, 63, 64, 255, 256, 257] {
            out.push(format!("polyv x_to_the {f} {n}"));
        }
        out.push(format!("polyv zero {f}"));
        out.push(format!("polyv one {f}"));
        for c in if x { vec!["(0;0;0)", "(1;0;0)", "(0;1;0)", "(18446744069414584320;0;0)"] } else { vec!["0", "1", "2", "18446744069414584320"] } {
            out.push(format!("polyv from_constant {f} {c}"));
        }
        for _ in 0..reps {
            let c = estr(rng, x);
            out.push(format!("polyv from_constant {f} {c}"));
            for op in ["from_vec", "from_slice", "from_array"] {
                let d = if op == "from_array" { rng.range(0, 4) as i64 - 1 } else { small_deg(rng) };
                let k = if op == "from_array" { rng.below(2) as usize } else { zeros_k(rng) };
                let p = pstr(rng, x, d, k);
                out.push(format!("polyv {op} {f} {p}"));
            }
            for op in ["mul_scalar", "scalar_times"] {
                let (d, k) = (small_deg(rng), zeros_k(rng));
                let p = pstr(rng, x, d, k);
                let s = if rng.coin(1, 6) { if x { "(0;0;0)".to_string() } else { "0".to_string() } } else { estr(rng, x) };
                out.push(format!("polyv {op} {f} {p} {s}"));
            }
        }
        // the usize::MAX boundary of truncate / mod_x_to_the_n (k + 1 in `truncate` must not wrap)
        for p in if x { vec!["[(1;0;0),(2;0;0),(3;0;0)]", "[]", "[(0;0;0),(0;1;0),(0;0;0)]"] } else { vec!["[1,2,3]", "[]", "[0,5,0]"] } {
            for k in [u64::MAX - 1, u64::MAX] {
                out.push(format!("polyv truncate {f} {p} {k}"));
                out.push(format!("polyv mod_x_to_the_n {f} {p} {k}"));
            }
        }
        // modulus argument of the modular coset interpolation: stored zeros / borrowed; both reachable arms
        for &(n, dm) in &[(1usize, 1i64), (2, 1), (8, 3), (64, 5), (256, 4), (256, 40)] {
            if x && n >= 256 && !thorough {
                continue;
            }
            let vals: Vec<String> = (0..n).map(|_| estr(rng, x)).collect();
            let k = zeros_k(rng);
            let m = pstr(rng, x, dm, k);
            let off = 1 + rng.fval() % (P - 1);
            out.push(format!("polyv fmci_modulus {f} {off} [{}] {m}", vals.join(",")));
        }
    }
    out.push("polyv from_xfe b (0;0;0)".into());
    out.push("polyv from_xfe b (5;0;0)".into());
    out.push("polyv from_xfe b (0;7;0)".into());
    out.push("polyv from_xfe b (1;2;3)".into());
    for _ in 0..reps {
        let s = estr(rng, true);
        out.push(format!("polyv from_xfe b {s}"));
        // mixed fields
        let (d, k) = (small_deg(rng), zeros_k(rng));
        let pb = pstr(rng, false, d, k);
        let px = pstr(rng, true, d, k);
        let sx = estr(rng, true);
        let sb = estr(rng, false);
        out.push(format!("polyv evaluate_mixed bx {pb} {sx}"));
        out.push(format!("polyv evaluate_mixed xb {px} {sb}"));
        let op = *rng.pick(&["mul_scalar", "scalar_times"]);
        out.push(format!("polyv {op} bx {pb} {sx}"));
        out.push(format!("polyv {op} xb {px} {sb}"));
    }
}

/// G07 (coordinator request): batch products whose list ELEMENTS carry stored zeros -- padded constants `[1,0]`,
/// `[0,0]`, `[c,0,0]`, padded linears `[a,1,0]` -- in particular lists in which every factor has exactly two stored
/// coefficients and leading coefficient 1 although some are the constant 1; and lists of many (>= 128) small
/// factors whose length is not a multiple of `max(2, len / threads)`.
fn gen_batch_elements(rng: &mut Rng, thorough: bool, out: &mut Vec<String>) {
    for f in ["b", "x"] {
        let x = f == "x";
        let z = if x { "(0;0;0)" } else { "0" };
        let e1 = if x { "(1;0;0)" } else { "1" };
        let lin = |rng: &mut Rng| -> String { if x { format!("({};{};0),{e1}", rng.fval(), rng.below(2)) } else { format!("{},1", rng.fval()) } };
        let cst = |rng: &mut Rng| -> String { if x { format!("({};0;0)", 2 + rng.below(P - 2)) } else { (2 + rng.below(P - 2)).to_string() } };
        for &l in &[1usize, 2, 3, 4, 5, 8, 9, 17] {
            for variant in 0..(if thorough { 10 } else { 5 }) {
                let mut fs: Vec<String> = (0..l).map(|_| format!("[{}]", lin(rng))).collect();
                let pos = rng.below(l as u64) as usize;
                match variant % 5 {
                    0 => fs[pos] = format!("[{e1},{z}]"),
                    1 => {
                        fs[0] = format!("[{e1},{z}]");
                        fs[l - 1] = format!("[{e1},{z}]");
                    }
                    2 => fs[pos] = format!("[{},{z}]", cst(rng)),
                    3 => fs[pos] = format!("[{z},{z}]"),
                    _ => {
                        fs[pos] = format!("[{},{z},{z}]", cst(rng));
                        fs[(pos + 1) % l] = format!("[{},{z}]", lin(rng));
                    }
                }
                for op in ["batch_multiply", "par_batch_multiply"] {
                    out.push(format!("polyv {op} {f} [{}]", fs.join(",")));
                }
            }
        }
        // many small factors
        for &l in &[127usize, 128, 129, 130, 131, 200, 257, 500] {
            if x && !thorough && !(l == 129 || l == 257) {
                continue;
            }
            let fs: Vec<String> = (0..l)
                .map(|i| match (i + l) % 7 {
                    0 => format!("[{}]", cst(rng)),
                    1 => format!("[{e1},{z}]"),
                    2 => format!("[{},{z}]", lin(rng)),
                    _ => format!("[{}]", lin(rng)),
                })
                .collect();
            for op in ["batch_multiply", "par_batch_multiply"] {
                out.push(format!("polyv {op} {f} [{}]", fs.join(",")));
            }
        }
    }
}
