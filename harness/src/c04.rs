// PROP: C04  FAMILIES: mt=run_mt
//! C04 -- Merkle inclusion-proof verification is sound, exact and total.  Family `mt`.
//!
//!   mt verify <height> [(i;[d5]),..] [[d5],..] [root]      -> ok:true|false
//!   mt paths  <height> [(i;[d5]),..] [[d5],..]             -> ok:[[[d5],..],..] | err
//!   mt leaf|node        [[leaf digests]] [i,..]             -> ok:[some:[d5]|none,..]
//!   mt indexed_leafs    [[leaf digests]] [i,..]             -> ok:[(i;[d5]),..] | err
//!   mt auth_structure   [[leaf digests]] [i,..]             -> ok:[[d5],..] | err
//!   mt proof            [[leaf digests]] [i,..]             -> ok:<h>|<leafs>|<auth>|<verify reply>|<paths reply> | err
//!
//! Everything the oracles need is recomputed here by an independent *top-down recursive* reference (`Ref*`) that only
//! uses `Tip5::hash_pair`; nothing of `merkle_tree.rs` is used to decide an expected answer.
use crate::util::*;
use std::collections::BTreeMap;
use twenty_first::prelude::*;

pub const MAX_H: usize = 31;

// ---------------------------------------------------------------------------------------------------------------
// reference implementation (independent of merkle_tree.rs)

/// all nodes of the honest tree, heap order, index 0 = default digest
pub fn ref_tree(leaves: &[Digest]) -> Vec<Digest> {
    let n = leaves.len();
    let mut nodes = vec![Digest::default(); 2 * n];
    fn go(nodes: &mut Vec<Digest>, leaves: &[Digest], k: usize, n: usize) -> Digest {
        let d = if k >= n { leaves[k - n] } else {
            let l = go(nodes, leaves, 2 * k, n);
            let r = go(nodes, leaves, 2 * k + 1, n);
            Tip5::hash_pair(l, r)
        };
        nodes[k] = d;
        d
    }
    if n > 0 {
        go(&mut nodes, leaves, 1, n);
    }
    nodes
}

/// node indices of the minimal authentication structure, descending; `idx` sorted ascending, de-duplicated, all < 2^h
pub fn ref_needed(h: usize, idx: &[usize]) -> Vec<usize> {
    fn go(k: usize, lvl: usize, idx: &[usize], base: usize, out: &mut Vec<usize>) {
        // idx: claimed leaf indices inside the subtree of k, which spans leaf indices [base, base + 2^lvl)
        if lvl == 0 || idx.is_empty() {
            return;
        }
        let mid = base + (1usize << (lvl - 1));
        let split = idx.partition_point(|&i| i < mid);
        let (l, r) = idx.split_at(split);
        match (l.is_empty(), r.is_empty()) {
            (false, true) => out.push(2 * k + 1),
            (true, false) => out.push(2 * k),
            _ => {}
        }
        go(2 * k, lvl - 1, l, base, out);
        go(2 * k + 1, lvl - 1, r, mid, out);
    }
    let mut out = vec![];
    go(1, h, idx, 0, &mut out);
    out.sort_unstable_by(|a, b| b.cmp(a));
    out
}

#[derive(Debug, Clone, PartialEq)]
pub enum RefVerdict {
    Trivial,
    TooHigh,
    IndexRange,
    Length,
    Conflict,
    Computed(Digest),
}

pub struct RefPartial {
    pub h: usize,
    /// value of every node on some claimed leaf's path, plus the authentication nodes
    pub vals: BTreeMap<usize, Digest>,
}

/// the checks of the verifier in the documented order of errors, then the recomputation
pub fn ref_check(h: usize, leafs: &[(usize, Digest)], auth: &[Digest]) -> (RefVerdict, Option<RefPartial>) {
    ref_check_lim(h, leafs, auth, MAX_H)
}

/// `max_h` = the largest admissible height (the generator uses a larger one to produce proofs that would be
/// accepted if the height limit were wrong)
pub fn ref_check_lim(h: usize, leafs: &[(usize, Digest)], auth: &[Digest], max_h: usize) -> (RefVerdict, Option<RefPartial>) {
    if h > max_h {
        return (RefVerdict::TooHigh, None);
    }
    let n = 1usize << h;
    if leafs.iter().any(|(i, _)| *i >= n) {
        return (RefVerdict::IndexRange, None);
    }
    let mut claimed: BTreeMap<usize, Digest> = BTreeMap::new();
    let mut conflict = false;
    for (i, d) in leafs {
        match claimed.get(i) {
            Some(e) if e != d => conflict = true,
            Some(_) => {}
            None => {
                claimed.insert(*i, *d);
            }
        }
    }
    let idx: Vec<usize> = claimed.keys().copied().collect();
    let need = ref_needed(h, &idx);
    if need.len() != auth.len() {
        return (RefVerdict::Length, None);
    }
    if conflict {
        return (RefVerdict::Conflict, None);
    }
    let mut vals: BTreeMap<usize, Digest> = need.iter().copied().zip(auth.iter().copied()).collect();
    fn go(k: usize, lvl: usize, idx: &[usize], base: usize, claimed: &BTreeMap<usize, Digest>,
          vals: &mut BTreeMap<usize, Digest>) -> Option<Digest> {
        if idx.is_empty() {
            return None;
        }
        let d = if lvl == 0 { claimed[&idx[0]] } else {
            let mid = base + (1usize << (lvl - 1));
            let split = idx.partition_point(|&i| i < mid);
            let (l, r) = idx.split_at(split);
            let lv = go(2 * k, lvl - 1, l, base, claimed, vals);
            let rv = go(2 * k + 1, lvl - 1, r, mid, claimed, vals);
            let lv = lv.unwrap_or_else(|| vals[&(2 * k)]);
            let rv = rv.unwrap_or_else(|| vals[&(2 * k + 1)]);
            Tip5::hash_pair(lv, rv)
        };
        vals.insert(k, d);
        Some(d)
    }
    let root = go(1, h, &idx, 0, &claimed, &mut vals);
    match root {
        Some(r) => (RefVerdict::Computed(r), Some(RefPartial { h, vals })),
        // no leafs: (auth is empty here, else Length) -- `into_authentication_paths` succeeds with no paths,
        // `verify` took the trivial exit before
        None => (RefVerdict::Trivial, Some(RefPartial { h, vals })),
    }
}

pub fn ref_verify(h: usize, leafs: &[(usize, Digest)], auth: &[Digest], root: Digest) -> (bool, &'static str) {
    if leafs.is_empty() && auth.is_empty() {
        return (true, "accept:trivial");
    }
    match ref_check(h, leafs, auth).0 {
        RefVerdict::Trivial => (true, "accept:trivial"),
        RefVerdict::TooHigh => (false, "reject:height"),
        RefVerdict::IndexRange => (false, "reject:index-range"),
        RefVerdict::Length => (false, "reject:auth-length"),
        RefVerdict::Conflict => (false, "reject:repeated-leaf-conflict"),
        RefVerdict::Computed(r) => if r == root { (true, "accept") } else { (false, "reject:root") },
    }
}

/// sibling path of leaf i, bottom-up
pub fn ref_path(pt: &RefPartial, i: usize) -> Option<Vec<Digest>> {
    let mut k = i + (1usize << pt.h);
    let mut p = vec![];
    while k > 1 {
        p.push(*pt.vals.get(&(k ^ 1))?);
        k /= 2;
    }
    Some(p)
}

pub fn fold_path(i: usize, h: usize, leaf: Digest, path: &[Digest]) -> Digest {
    let mut k = i + (1usize << h);
    let mut acc = leaf;
    for s in path {
        acc = if k % 2 == 0 { Tip5::hash_pair(acc, *s) } else { Tip5::hash_pair(*s, acc) };
        k /= 2;
    }
    acc
}

// ---------------------------------------------------------------------------------------------------------------
// formatting / parsing

pub fn fmt_leafs(ls: &[(usize, Digest)]) -> String {
    let v: Vec<String> = ls.iter().map(|(i, d)| format!("({};{})", i, fmt_digest(d))).collect();
    format!("[{}]", v.join(","))
}
pub fn fmt_paths(ps: &[Vec<Digest>]) -> String {
    let v: Vec<String> = ps.iter().map(|p| fmt_digests(p)).collect();
    format!("[{}]", v.join(","))
}
fn fmt_opt(d: Option<Digest>) -> String {
    match d {
        Some(d) => format!("some:{}", fmt_digest(&d)),
        None => "none".into(),
    }
}
fn parse_leafs(a: &Arg) -> Option<Vec<(usize, Digest)>> {
    a.list()?.iter().map(|x| match x {
        Arg::Tup(v) if v.len() == 2 => Some((v[0].usize()?, v[1].digest()?)),
        _ => None,
    }).collect()
}
fn usizes(a: &Arg) -> Option<Vec<usize>> {
    a.list()?.iter().map(|x| x.usize()).collect()
}

// ---------------------------------------------------------------------------------------------------------------
// running ops on the real crate

pub fn verify_reply(h: usize, leafs: &[(usize, Digest)], auth: &[Digest], root: Digest, st: &mut Stats) -> (String, Option<String>) {
    let proof = MerkleTreeInclusionProof { tree_height: h, indexed_leafs: leafs.to_vec(), authentication_structure: auth.to_vec() };
    let verdict = proof.verify(root);
    let (want, class) = ref_verify(h, leafs, auth, root);
    st.hit(&format!("verify:{}", class));
    st.hit(&format!("verify:height-class:{}", height_class(h)));
    if h > MAX_H && h <= 62 {
        if let RefVerdict::Computed(r) = ref_check_lim(h, leafs, auth, 62).0 {
            if r == root {
                st.hit("verify:reject:height(everything else valid)");
            }
        }
    }
    if leafs.len() > 1 {
        let mut is: Vec<usize> = leafs.iter().map(|x| x.0).collect();
        is.sort_unstable();
        let before = is.len();
        is.dedup();
        if is.len() < before {
            st.hit("verify:repeated-indices");
        }
    }
    let fail = if verdict != want { Some(format!("verify: implementation says {} but the reference recomputation says {} ({})", verdict, want, class)) } else { None };
    (format!("ok:{}", verdict), fail)
}

fn height_class(h: usize) -> &'static str {
    match h {
        0 => "0",
        1..=12 => "1..12",
        13..=30 => "13..30",
        31 => "31=MAX",
        32 => "32",
        33..=63 => "33..63",
        64 => "64",
        usize::MAX => "usize::MAX",
        _ => ">64",
    }
}

pub fn paths_reply(h: usize, leafs: &[(usize, Digest)], auth: &[Digest], st: &mut Stats) -> (String, Option<String>) {
    let proof = MerkleTreeInclusionProof { tree_height: h, indexed_leafs: leafs.to_vec(), authentication_structure: auth.to_vec() };
    let got = proof.into_authentication_paths();
    let (verdict, pt) = ref_check(h, leafs, auth);
    let mut fail = None;
    let reply = match (&got, &pt) {
        (Ok(paths), Some(pt)) => {
            st.hit("paths:ok");
            let want: Option<Vec<Vec<Digest>>> = leafs.iter().map(|(i, _)| ref_path(pt, *i)).collect();
            if want.as_ref() != Some(paths) {
                fail = Some("paths: differ from the reference sibling paths".to_string());
            }
            if let RefVerdict::Computed(root) = verdict {
                for ((i, d), p) in leafs.iter().zip(paths) {
                    if p.len() != h || fold_path(*i, h, *d, p) != root {
                        fail = Some(format!("paths: path of leaf {} does not fold to the recomputed root", i));
                    }
                }
            }
            format!("ok:{}", fmt_paths(paths))
        }
        (Err(_), None) => {
            st.hit(&format!("paths:err:{:?}", verdict).split('(').next().unwrap().to_string());
            "err".to_string()
        }
        (Ok(paths), None) => {
            fail = Some(format!("paths: Ok but the reference rejects the proof ({:?})", verdict));
            format!("ok:{}", fmt_paths(paths))
        }
        (Err(e), Some(_)) => {
            fail = Some(format!("paths: Err({:?}) but the reference accepts the proof structure", e));
            "err".to_string()
        }
    };
    (reply, fail)
}

fn index_class(i: usize, n: usize) -> &'static str {
    if i < n {
        if i == n - 1 { "n-1" } else if i == 0 { "0" } else { "<n" }
    } else if i == n {
        "n"
    } else if i < 2 * n {
        "n<i<2n"
    } else if i >= usize::MAX - 2 * n {
        "wraps(>=usize::MAX-2n)"
    } else {
        ">=2n"
    }
}

/// implementation-side totality oracle: verification, path expansion and every accessor return a verdict, an error
/// or None for *every* input -- a panic is a property violation by itself (independent of the model)
pub fn run_mt(op: &str, a: &[Arg], st: &mut Stats) -> Option<Out> {
    match std::panic::catch_unwind(std::panic::AssertUnwindSafe(|| run_mt_inner(op, a, st))) {
        Ok(r) => r,
        Err(_) => {
            st.hit(&format!("PANIC:{}", op));
            Some(Out::ok("panic").with_oracle(false, format!("`{}` panicked; it must return a verdict, an error or None for every input", op)))
        }
    }
}

fn run_mt_inner(op: &str, a: &[Arg], st: &mut Stats) -> Option<Out> {
    Some(match (op, a) {
        ("verify", [h, ls, au, r]) => {
            let (h, ls, au, r) = (h.usize()?, parse_leafs(ls)?, au.digests()?, r.digest()?);
            let (reply, fail) = verify_reply(h, &ls, &au, r, st);
            let o = Out::ok(reply);
            match fail { Some(w) => o.with_oracle(false, w), None => o }
        }
        ("paths", [h, ls, au]) => {
            let (h, ls, au) = (h.usize()?, parse_leafs(ls)?, au.digests()?);
            let (reply, fail) = paths_reply(h, &ls, &au, st);
            let o = Out::ok(reply);
            match fail { Some(w) => o.with_oracle(false, w), None => o }
        }
        ("leaf", [ds, is]) | ("node", [ds, is]) | ("indexed_leafs", [ds, is]) | ("auth_structure", [ds, is]) | ("proof", [ds, is]) => {
            let (ds, is) = (ds.digests()?, usizes(is)?);
            let Ok(tree) = MerkleTree::new::<CpuParallel>(&ds) else { return Some(Out::ok("err:build")) };
            let n = ds.len();
            let h = n.ilog2() as usize;
            let rt = ref_tree(&ds);
            let in_range = is.iter().all(|&i| i < n);
            let mut sorted: Vec<usize> = is.iter().copied().filter(|&i| i < n).collect();
            sorted.sort_unstable();
            sorted.dedup();
            match op {
                "leaf" => {
                    let got: Vec<Option<Digest>> = is.iter().map(|&i| tree.leaf(i)).collect();
                    let mut o = Out::ok(format!("ok:[{}]", got.iter().map(|d| fmt_opt(*d)).collect::<Vec<_>>().join(",")));
                    for (&i, g) in is.iter().zip(&got) {
                        st.hit(&format!("leaf:index:{}", index_class(i, n)));
                        let want = if i < n { Some(ds[i]) } else { None };
                        o = o.with_oracle(*g == want, format!("leaf({}) of a {}-leaf tree: got {:?}", i, n, g.map(|d| fmt_digest(&d))));
                    }
                    o
                }
                "node" => {
                    let got: Vec<Option<Digest>> = is.iter().map(|&i| tree.node(i)).collect();
                    let mut o = Out::ok(format!("ok:[{}]", got.iter().map(|d| fmt_opt(*d)).collect::<Vec<_>>().join(",")));
                    for (&i, g) in is.iter().zip(&got) {
                        st.hit(&format!("node:index:{}", if i == 0 { "0" } else if i < 2 * n { "<2n" } else if i == 2 * n { "2n" } else { ">2n" }));
                        let want = if i < 2 * n { Some(rt[i]) } else { None };
                        o = o.with_oracle(*g == want, format!("node({}) of a {}-leaf tree is wrong", i, n));
                    }
                    o
                }
                "indexed_leafs" => match tree.indexed_leafs(&is) {
                    Ok(v) => {
                        st.hit("indexed_leafs:ok");
                        let want: Vec<(usize, Digest)> = is.iter().filter(|&&i| i < n).map(|&i| (i, ds[i])).collect();
                        Out::ok(format!("ok:{}", fmt_leafs(&v)))
                            .with_oracle(in_range, "indexed_leafs: Ok although an index is out of range")
                            .with_oracle(v == want, "indexed_leafs: wrong pairs")
                    }
                    Err(_) => {
                        st.hit("indexed_leafs:err");
                        Out::ok("err").with_oracle(!in_range, "indexed_leafs: Err although all indices are in range")
                    }
                },
                "auth_structure" => match tree.authentication_structure(&is) {
                    Ok(v) => {
                        st.hit("auth_structure:ok");
                        let want: Vec<Digest> = ref_needed(h, &sorted).iter().map(|&k| rt[k]).collect();
                        st.hit(&format!("auth_structure:len={}", if v.is_empty() { "0".into() } else if v.len() == h { "h".to_string() } else { "other".into() }));
                        Out::ok(format!("ok:{}", fmt_digests(&v)))
                            .with_oracle(in_range, "authentication_structure: Ok although an index is out of range")
                            .with_oracle(v == want, "authentication_structure: not the minimal node set in descending node order")
                    }
                    Err(_) => {
                        st.hit("auth_structure:err");
                        Out::ok("err").with_oracle(!in_range, "authentication_structure: Err although all indices are in range")
                    }
                },
                _ => match tree.inclusion_proof_for_leaf_indices(&is) {
                    Ok(p) => {
                        st.hit("proof:ok");
                        if is.len() != sorted.len() { st.hit("proof:repeated-or-unsorted-indices"); }
                        let root = tree.root();
                        let want_auth: Vec<Digest> = ref_needed(h, &sorted).iter().map(|&k| rt[k]).collect();
                        let want_leafs: Vec<(usize, Digest)> = is.iter().filter(|&&i| i < n).map(|&i| (i, ds[i])).collect();
                        let (vr, vf) = verify_reply(p.tree_height, &p.indexed_leafs, &p.authentication_structure, root, st);
                        let (pr, pf) = paths_reply(p.tree_height, &p.indexed_leafs, &p.authentication_structure, st);
                        // honest sibling paths straight from the reference tree
                        let honest_paths: Vec<Vec<Digest>> = is.iter().filter(|&&i| i < n).map(|&i| {
                            let mut k = i + n;
                            let mut v = vec![];
                            while k > 1 { v.push(rt[k ^ 1]); k /= 2; }
                            v
                        }).collect();
                        let mut wrong_root = root;
                        wrong_root.0[0] = wrong_root.0[0] + BFieldElement::new(1);
                        let rejects_wrong_root = is.is_empty() || !p.clone().verify(wrong_root);
                        let mut o = Out::ok(format!("ok:{}|{}|{}|{}|{}", p.tree_height, fmt_leafs(&p.indexed_leafs),
                            fmt_digests(&p.authentication_structure), vr, pr))
                            .with_oracle(in_range, "inclusion proof: Ok although an index is out of range")
                            .with_oracle(root == rt[1], "root differs from the reference tree")
                            .with_oracle(p.tree_height == h, "inclusion proof: wrong height")
                            .with_oracle(p.indexed_leafs == want_leafs, "inclusion proof: wrong indexed leafs")
                            .with_oracle(p.authentication_structure == want_auth, "inclusion proof: authentication structure is not the minimal set in descending order")
                            .with_oracle(vr == "ok:true", "honest inclusion proof does not verify against the tree's root")
                            .with_oracle(rejects_wrong_root, "honest non-trivial proof verifies against a different root")
                            .with_oracle(pr == format!("ok:{}", fmt_paths(&honest_paths)), "honest proof does not expand to the tree's sibling paths");
                        if let Some(w) = vf { o = o.with_oracle(false, w); }
                        if let Some(w) = pf { o = o.with_oracle(false, w); }
                        o
                    }
                    Err(_) => {
                        st.hit("proof:err");
                        Out::ok("err").with_oracle(!in_range, "inclusion proof: Err although all indices are in range")
                    }
                },
            }
        }
        _ => return super::c04bulk::run_mt_more(op, a, st), // bulk / history ops (c04bulk.rs)
    })
}

// ---------------------------------------------------------------------------------------------------------------
// generator

pub fn rand_digest(rng: &mut Rng) -> Digest {
    if rng.coin(1, 8) { rng.digest() } else { rng.digest_u() }
}

/// boundary-directed, structure-aware index list inside [0, n)
pub fn gen_indices(rng: &mut Rng, h: usize, max_len: usize) -> Vec<usize> {
    let n = 1usize << h;
    let len = 1 + rng.below(max_len as u64) as usize;
    let mut v: Vec<usize> = vec![];
    let boundary = |rng: &mut Rng| -> usize {
        let c = [0usize, 1, 2, n - 1, n.saturating_sub(2), n / 2, (n / 2).saturating_sub(1), n / 2 + 1, n / 4, 3 * (n / 4)];
        *rng.pick(&c) % n
    };
    match rng.below(8) {
        0 => { // one index
            v.push(if rng.coin(1, 2) { boundary(rng) } else { rng.below(n as u64) as usize });
        }
        1 => { // adjacent run (siblings and cousins)
            let s = if rng.coin(1, 2) { boundary(rng) } else { rng.below(n as u64) as usize };
            for j in 0..len { v.push((s + j) % n); }
        }
        2 => { // boundary set
            for _ in 0..len { v.push(boundary(rng)); }
        }
        3 => { // sibling pairs
            for _ in 0..len.div_ceil(2) { let i = rng.below(n as u64) as usize; v.push(i); v.push(i ^ 1 & (n - 1)); }
            v.iter_mut().for_each(|i| *i %= n);
        }
        4 => { // with repetitions
            for _ in 0..len { v.push(rng.below((n as u64).min(4)) as usize * (n / 4).max(1) % n); }
        }
        5 => { // strided
            let stride = 1usize << rng.below(h as u64 + 1);
            let s = rng.below(n as u64) as usize;
            for j in 0..len { v.push((s + j * stride) % n); }
        }
        _ => { for _ in 0..len { v.push(rng.below(n as u64) as usize); } }
    }
    if rng.coin(1, 3) { // shuffle
        for i in (1..v.len()).rev() { let j = rng.below(i as u64 + 1) as usize; v.swap(i, j); }
    }
    v
}

pub struct Synth {
    pub h: usize,
    pub leafs: Vec<(usize, Digest)>,
    pub auth: Vec<Digest>,
    pub root: Digest,
}

/// a proof that the reference accepts for `root`: arbitrary claimed leafs and arbitrary authentication digests
pub fn synth(rng: &mut Rng, h: usize, max_len: usize) -> Synth {
    let idx = gen_indices(rng, h, max_len);
    let mut claimed: BTreeMap<usize, Digest> = BTreeMap::new();
    let leafs: Vec<(usize, Digest)> = idx.iter().map(|&i| (i, *claimed.entry(i).or_insert_with(|| rand_digest(rng)))).collect();
    let keys: Vec<usize> = claimed.keys().copied().collect();
    let auth: Vec<Digest> = ref_needed(h, &keys).iter().map(|_| rand_digest(rng)).collect();
    let root = match ref_check_lim(h, &leafs, &auth, 62).0 {
        RefVerdict::Computed(r) => r,
        _ => Digest::default(),
    };
    Synth { h, leafs, auth, root }
}

fn emit_verify(out: &mut Vec<String>, h: usize, leafs: &[(usize, Digest)], auth: &[Digest], root: &Digest) {
    out.push(format!("mt verify {} {} {} {}", h, fmt_leafs(leafs), fmt_digests(auth), fmt_digest(root)));
}
fn emit_paths(out: &mut Vec<String>, h: usize, leafs: &[(usize, Digest)], auth: &[Digest]) {
    out.push(format!("mt paths {} {} {}", h, fmt_leafs(leafs), fmt_digests(auth)));
}

const ODD_HEIGHTS: [usize; 14] = [0, 1, 30, 31, 32, 33, 62, 63, 64, 65, 1 << 32, (1 << 63) - 1, usize::MAX - 1, usize::MAX];

/// the mutations named by the property: wrong height, repeated indices with equal/conflicting digests,
/// permuted/surplus/missing nodes, indices near 2^h and usize::MAX, corrupted digests
pub fn mutate(rng: &mut Rng, s: &Synth, out: &mut Vec<String>) {
    let n = 1usize << s.h;
    let (mut h, mut leafs, mut auth, mut root) = (s.h, s.leafs.clone(), s.auth.clone(), s.root);
    let kinds = 1 + rng.below(2);
    for _ in 0..kinds {
        match rng.below(16) {
            0 => h = *rng.pick(&ODD_HEIGHTS),
            1 => h = if rng.coin(1, 2) { h + 1 } else { h.saturating_sub(1) },
            2 => { // repeated index, equal digest (still accepted)
                let x = *rng.pick(&leafs);
                let pos = rng.below(leafs.len() as u64 + 1) as usize;
                leafs.insert(pos, x);
            }
            3 => { // repeated index, conflicting digest (often a SPECIAL one: all-zero = Digest::default(), the root, another leaf)
                let mut x = *rng.pick(&leafs);
                x.1 = match rng.below(6) {
                    0 | 1 => Digest::default(),
                    2 => root,
                    3 => rng.pick(&leafs).1,
                    _ => rand_digest(rng),
                };
                let pos = rng.below(leafs.len() as u64 + 1) as usize;
                leafs.insert(pos, x);
            }
            4 => if auth.len() >= 2 { // permuted nodes
                let i = rng.below(auth.len() as u64) as usize;
                let j = rng.below(auth.len() as u64) as usize;
                auth.swap(i, j);
            } else { leafs.reverse() },
            5 => { // surplus node
                let d = if auth.is_empty() || rng.coin(1, 2) { rand_digest(rng) } else { *rng.pick(&auth) };
                let pos = rng.below(auth.len() as u64 + 1) as usize;
                auth.insert(pos, d);
            }
            6 => if !auth.is_empty() { // missing node
                let pos = rng.below(auth.len() as u64) as usize;
                auth.remove(pos);
            } else { leafs.pop(); },
            7 => { // index near 2^h / usize::MAX
                let c = [n - 1, n, n + 1, 2 * n - 1, 2 * n, usize::MAX, usize::MAX - 1, usize::MAX - n, usize::MAX - n + 1,
                    usize::MAX - 2 * n + 1, 1 << 63, 1 << 32, (1 << 32) - 1, 1 << 31];
                let pos = rng.below(leafs.len() as u64) as usize;
                leafs[pos].0 = *rng.pick(&c);
            }
            8 => { // index moved inside the range (changes the needed set)
                let pos = rng.below(leafs.len() as u64) as usize;
                leafs[pos].0 = match rng.below(3) { 0 => leafs[pos].0 ^ 1, 1 => (leafs[pos].0 + 1) % n, _ => rng.below(n as u64) as usize } % n;
            }
            9 => { // corrupted leaf digest
                let pos = rng.below(leafs.len() as u64) as usize;
                leafs[pos].1 = if rng.coin(1, 4) { Digest::default() } else { rand_digest(rng) };
            }
            10 => if !auth.is_empty() { // corrupted node
                let pos = rng.below(auth.len() as u64) as usize;
                auth[pos] = rand_digest(rng);
            } else { root = rand_digest(rng) },
            11 => root = rand_digest(rng),
            12 => { // permuted leafs (still accepted)
                let i = rng.below(leafs.len() as u64) as usize;
                let j = rng.below(leafs.len() as u64) as usize;
                leafs.swap(i, j);
            }
            13 => { // dropped leaf
                let pos = rng.below(leafs.len() as u64) as usize;
                leafs.remove(pos);
                if leafs.is_empty() && rng.coin(1, 2) { auth.clear(); }
            }
            14 => { // leaf digest swapped with a node (order of hashing matters)
                if !auth.is_empty() {
                    let pos = rng.below(leafs.len() as u64) as usize;
                    let j = rng.below(auth.len() as u64) as usize;
                    std::mem::swap(&mut leafs[pos].1, &mut auth[j]);
                }
            }
            _ => { // all leafs dropped, nodes kept / everything dropped
                leafs.clear();
                if rng.coin(1, 2) { auth.clear(); }
            }
        }
        if leafs.is_empty() { break; }
    }
    emit_verify(out, h, &leafs, &auth, &root);
    if rng.coin(1, 3) {
        emit_paths(out, h, &leafs, &auth);
    }
}

pub fn rand_leaves(rng: &mut Rng, n: usize) -> Vec<Digest> {
    match rng.below(10) {
        0 => vec![rand_digest(rng); n],                                     // all equal
        1 => { let a = rand_digest(rng); let b = rand_digest(rng); (0..n).map(|i| if i % 2 == 0 { a } else { b }).collect() }
        _ => (0..n).map(|_| rand_digest(rng)).collect(),
    }
}

/// the out-of-range boundary set of an n-leaf tree (n-1 is the last valid index)
pub fn boundary_indices(n: usize) -> Vec<usize> {
    let mut v = vec![n - 1, n, n + 1, 2 * n - 1, 2 * n, 2 * n + 1, (1 << 32) - 1, 1 << 32, 1 << 63, usize::MAX - 2 * n + 1,
        usize::MAX - n, usize::MAX - n + 1, usize::MAX - 2, usize::MAX - 1, usize::MAX];
    v.dedup();
    v
}

/// every index-taking accessor, every boundary index, alone and mixed into an otherwise valid list at every
/// position class (front, middle, back), for one tree
pub fn boundary_cross(rng: &mut Rng, h: usize, leaves: &[Digest], out: &mut Vec<String>) {
    let n = 1usize << h;
    let ds = fmt_digests(leaves);
    let f = |v: &[usize]| fmt_list_u64(&v.iter().map(|&x| x as u64).collect::<Vec<_>>());
    let b = boundary_indices(n);
    out.push(format!("mt leaf {} {}", ds, f(&b)));
    out.push(format!("mt node {} {}", ds, f(&b)));
    for &x in &b {
        for opn in ["auth_structure", "proof", "indexed_leafs"] {
            out.push(format!("mt {} {} {}", opn, ds, f(&[x])));
            let mut is = gen_indices(rng, h, 5);
            let pos = match rng.below(3) { 0 => 0, 1 => is.len(), _ => rng.below(is.len() as u64 + 1) as usize };
            is.insert(pos, x);
            out.push(format!("mt {} {} {}", opn, ds, f(&is)));
        }
    }
}

fn accessor_indices(rng: &mut Rng, n: usize) -> Vec<usize> {
    let c = [0, 1, n - 1, n, n + 1, 2 * n - 1, 2 * n, 2 * n + 1, usize::MAX, usize::MAX - 1, usize::MAX - 2, usize::MAX - n,
        usize::MAX - n + 1, usize::MAX - n + 2, usize::MAX - 2 * n, usize::MAX - 2 * n + 1, usize::MAX - 2 * n + 2, 1 << 63, 1 << 32, n / 2];
    let len = 1 + rng.below(6) as usize;
    (0..len).map(|_| if rng.coin(2, 3) { *rng.pick(&c) } else { rng.below(2 * n as u64 + 2) as usize }).collect()
}

pub fn gen(rng: &mut Rng, thorough: bool, out: &mut Vec<String>) {
    // ---- (1) exhaustive small cases (a test, not a theorem): every index list up to a length, every subset
    let (max_h_lists, max_len) = if thorough { (3usize, 3usize) } else { (2, 3) };
    for h in 0..=max_h_lists {
        let n = 1usize << h;
        let leaves = rand_leaves(rng, n);
        let mut lists: Vec<Vec<usize>> = vec![vec![]];
        let mut frontier: Vec<Vec<usize>> = vec![vec![]];
        for _ in 0..max_len {
            let mut next = vec![];
            for l in &frontier { for i in 0..n { let mut m = l.clone(); m.push(i); next.push(m); } }
            lists.extend(next.iter().cloned());
            frontier = next;
        }
        for l in lists {
            out.push(format!("mt proof {} {}", fmt_digests(&leaves), fmt_list_u64(&l.iter().map(|&x| x as u64).collect::<Vec<_>>())));
        }
    }
    for h in 3..=(if thorough { 4 } else { 3 }) { // every subset (ascending order) of a tree of height 3 (4)
        let n = 1usize << h;
        let leaves = rand_leaves(rng, n);
        let step = if h == 4 { 7 } else { 1 };
        let mut m = 0usize;
        while m < (1usize << n) {
            let l: Vec<u64> = (0..n).filter(|i| m >> i & 1 == 1).map(|i| i as u64).collect();
            out.push(format!("mt proof {} {}", fmt_digests(&leaves), fmt_list_u64(&l)));
            m += step;
        }
    }

    // ---- (2) synthetic proofs of every height up to the maximum, accepted ones and mutants
    let rounds = if thorough { 4000 } else { 420 };
    for r in 0..rounds {
        let h = match rng.below(10) {
            0 => 0,
            1 => if r % 4 == 0 { *rng.pick(&[32usize, 32, 33, 40, 62]) } else { 1 },
            2 => 31,
            3 => 30,
            4 => *rng.pick(&[2usize, 3, 4, 5]),
            5 => *rng.pick(&[12usize, 16, 20, 24, 29]),
            _ => rng.range(1, 10) as usize,
        };
        let max_len = if r % 40 == 0 { 64 } else if rng.coin(1, 4) { 12 } else { 4 };
        let s = synth(rng, h, max_len);
        emit_verify(out, s.h, &s.leafs, &s.auth, &s.root);
        if rng.coin(1, 2) { emit_paths(out, s.h, &s.leafs, &s.auth); }
        let muts = if thorough { 4 } else { 3 };
        for _ in 0..muts { mutate(rng, &s, out); }
    }
    // trivial proofs and leaf-less proofs at odd heights
    for &h in ODD_HEIGHTS.iter().chain([2usize, 5, 12].iter()) {
        let d = rand_digest(rng);
        emit_verify(out, h, &[], &[], &d);
        emit_paths(out, h, &[], &[]);
        emit_verify(out, h, &[], &[d], &d);
        emit_paths(out, h, &[], &[d]);
        emit_verify(out, h, &[(0, d)], &[], &d);
        emit_paths(out, h, &[(0, d)], &[]);
        emit_verify(out, h, &[(usize::MAX, d)], &[], &d);
    }

    // ---- (3a) every index-taking accessor x every boundary index, for every tree size from the 1-leaf tree on
    for h in 0..=(if thorough { 8 } else { 5 }) {
        let leaves = rand_leaves(rng, 1usize << h);
        boundary_cross(rng, h, &leaves, out);
    }
    // ---- (3) honest trees: accessors with indices over all of usize, proofs for arbitrary index lists
    let trees = if thorough { 400 } else { 60 };
    for t in 0..trees {
        let h = if t % 20 == 19 { rng.range(7, if thorough { 10 } else { 8 }) as usize } else { rng.range(0, 6) as usize };
        let n = 1usize << h;
        let leaves = rand_leaves(rng, n);
        let ds = fmt_digests(&leaves);
        let f = |v: &[usize]| fmt_list_u64(&v.iter().map(|&x| x as u64).collect::<Vec<_>>());
        out.push(format!("mt leaf {} {}", ds, f(&accessor_indices(rng, n))));
        out.push(format!("mt node {} {}", ds, f(&accessor_indices(rng, n))));
        for _ in 0..3 {
            let mut is = gen_indices(rng, h, 10);
            if rng.coin(1, 3) { // one out-of-range index from the boundary set
                let pos = rng.below(is.len() as u64) as usize;
                let cand = boundary_indices(n);
                is[pos] = *rng.pick(&cand[1..]);
            }
            let opn = *rng.pick(&["proof", "proof", "auth_structure", "indexed_leafs"]);
            out.push(format!("mt {} {} {}", opn, ds, f(&is)));
        }
        if t % 10 == 0 { out.push(format!("mt proof {} {}", ds, f(&(0..n).collect::<Vec<_>>()))); out.push(format!("mt proof {} []", ds)); }
    }
}
