// PROP: C03 C13  FAMILIES:
//! C03 / C13 growth -- BULK ops of the codec properties, family `codec13` (`c13.rs` hands every op other than `dec`
//! to `run_codec13_more`, after it has installed the counting-allocator probe).  Values derive from a seed inside
//! the op; implementation-side oracles only (the model answers `skip`):
//!
//!   codec13 bulk <type> <seed> <n>     type in vec_u64 | vec_digest | vec_vec_u8 | vec_opt_xfe | poly_bfe, n items
//!     * decode(encode(v)) == v, and the peak allocation of that decode stays within the linear bound of C13;
//!     * |encode(v)| == 1 + sum over items (|encode(item)| + 1 if the item type is dynamic)  [+1 for Polynomial];
//!     * the encoding with ONE element altered (first / a length field / middle / last position) and with ONE element
//!       dropped (front / middle / back) is rejected, or decodes to a value != v that re-encodes to exactly the
//!       altered sequence; the peak allocation of these decodes obeys the same bound (a length field raised by one
//!       item or to 2^32 must not buy memory).                              -> ok:<|encoding|>|<checksum>
use super::c03;
use crate::util::*;
use std::panic::{catch_unwind, AssertUnwindSafe};
use twenty_first::prelude::*;

const K_PER_ELEM: usize = super::c13::K_PER_ELEM;
const K_CONST: usize = super::c13::K_CONST;

fn probed<R>(f: impl FnOnce() -> R) -> (R, usize) {
    if let Some(p) = c03::MEM_PROBE.get() {
        (p.start)();
    }
    let r = f();
    let peak = c03::MEM_PROBE.get().map(|p| (p.peak)()).unwrap_or(0);
    (r, peak)
}

fn cks(xs: &[BFieldElement]) -> u64 {
    xs.iter().fold(xs.len() as u64, |acc, x| acc.wrapping_mul(0x100_0000_01b3).wrapping_add(x.value()))
}

fn bulk_t<T>(v: &T, want_len: Option<usize>, what: &str, r: &mut Rng, st: &mut Stats) -> Result<String, String>
where
    T: BFieldCodec + PartialEq,
{
    let enc = v.encode();
    let n = enc.len();
    if let Some(w) = want_len {
        if w != n {
            return Err(format!("{what}: the encoding has {n} elements, the item encodings add up to {w}"));
        }
    }
    let bound = |len: usize| K_PER_ELEM * (len + 1) + K_CONST;
    let (dec, peak) = probed(|| catch_unwind(AssertUnwindSafe(|| T::decode(&enc))));
    match dec {
        Err(_) => return Err(format!("{what}: decode of the {n}-element encoding panics")),
        Ok(Err(_)) => return Err(format!("{what}: decode rejects the {n}-element encoding of a value")),
        Ok(Ok(b)) => {
            if *b != *v {
                return Err(format!("{what}: decode(encode(v)) != v ({n} elements)"));
            }
        }
    }
    if peak > bound(n) {
        return Err(format!("{what}: decode allocated {peak} bytes at peak for a sequence of {n} elements (bound {})", bound(n)));
    }
    st.hit(&format!("bulk:{what}:B/elem={}", match peak / (n + 1) { 0..=15 => "0-15", 16..=63 => "16-63", 64..=255 => "64-255", _ => ">=256" }));
    // one element altered / dropped
    let mut positions = vec![0usize, 1.min(n - 1), 2.min(n - 1), n / 2, n - 2.min(n), n - 1];
    for _ in 0..6 { positions.push(r.below(n as u64) as usize); }
    let mut variants: Vec<(String, Vec<BFieldElement>)> = vec![];
    for &p in &positions {
        for delta in [1u64, P - 1, 1 << 32] {
            let mut m = enc.clone();
            m[p] = m[p] + BFieldElement::new(delta);
            variants.push((format!("element {p} altered by {}", if delta == P - 1 { "-1".to_string() } else { delta.to_string() }), m));
            if p > 2 && delta == 1 { break; }
        }
        let mut m = enc.clone();
        m.remove(p);
        variants.push((format!("element {p} dropped"), m));
    }
    for (how, m) in variants {
        let (dec, peak) = probed(|| catch_unwind(AssertUnwindSafe(|| T::decode(&m))));
        match dec {
            Err(_) => return Err(format!("{what}: decode panics on the {n}-element encoding with {how}")),
            Ok(Err(_)) => st.hit("bulk:altered:rejected"),
            Ok(Ok(w)) => {
                st.hit("bulk:altered:other-value");
                if *w == *v {
                    return Err(format!("{what}: the encoding with {how} decodes to the ORIGINAL value (two encodings of one value)"));
                }
                if w.encode() != m {
                    return Err(format!("{what}: the encoding with {how} is accepted but does not re-encode to itself"));
                }
            }
        }
        if peak > bound(m.len()) {
            return Err(format!("{what}: decode of the encoding with {how} allocated {peak} bytes at peak for {} elements (bound {})", m.len(), bound(m.len())));
        }
    }
    // and the honest encoding once more, after the rejected / altered ones
    match catch_unwind(AssertUnwindSafe(|| T::decode(&enc))) {
        Ok(Ok(b)) if *b == *v => {}
        _ => return Err(format!("{what}: decode(encode(v)) != v when asked again after the altered encodings")),
    }
    Ok(format!("ok:{}|{}", n, cks(&enc)))
}

fn vec_len<I: BFieldCodec>(items: &[I]) -> usize {
    1 + items.iter().map(|i| i.encode().len() + if I::static_length().is_some() { 0 } else { 1 }).sum::<usize>()
}

pub fn run_codec13_more(op: &str, a: &[Arg], st: &mut Stats) -> Option<Out> {
    match (op, a) {
        ("bulk", [ty, seed, n]) => {
            let (ty, seed, n) = (ty.sym()?, seed.u64()?, n.usize()?);
            if n == 0 || n > 1 << 20 { return None; }
            let mut r = Rng::new(seed);
            st.hit(&format!("bulk:{ty}:n>=2^{}", n.ilog2()));
            let res = match ty {
                "vec_u64" => {
                    let v: Vec<u64> = (0..n).map(|i| match i % 5 { 0 => u64::MAX, 1 => 0, 2 => 1 << 32, _ => r.next() }).collect();
                    let w = vec_len(&v);
                    bulk_t(&v, Some(w), "Vec<u64>", &mut r, st).and_then(|s| if w == 1 + 2 * n { Ok(s) } else { Err("Vec<u64>: length is not 1 + 2n".into()) })
                }
                "vec_digest" => {
                    let v: Vec<Digest> = (0..n).map(|_| r.digest_u()).collect();
                    let w = vec_len(&v);
                    bulk_t(&v, Some(w), "Vec<Digest>", &mut r, st).and_then(|s| if w == 1 + 5 * n { Ok(s) } else { Err("Vec<Digest>: length is not 1 + 5n".into()) })
                }
                "vec_vec_u8" => {
                    let v: Vec<Vec<u8>> = (0..n).map(|i| (0..(if i % 97 == 0 { 40 } else { r.below(4) })).map(|_| r.next() as u8).collect()).collect();
                    let w = vec_len(&v);
                    bulk_t(&v, Some(w), "Vec<Vec<u8>>", &mut r, st)
                }
                "vec_opt_xfe" => {
                    let v: Vec<Option<XFieldElement>> = (0..n).map(|i| if i % 3 == 1 { None } else { Some(XFieldElement::new([r.below(P), r.below(P), r.below(P)].map(BFieldElement::new))) }).collect();
                    let w = vec_len(&v);
                    bulk_t(&v, Some(w), "Vec<Option<XFieldElement>>", &mut r, st)
                }
                "poly_bfe" => {
                    let mut c: Vec<BFieldElement> = (0..n).map(|i| BFieldElement::new(if i % 4 == 0 { 0 } else { r.below(P) })).collect();
                    c[n - 1] = BFieldElement::new(1 + r.below(P - 1));
                    let w = 1 + vec_len(&c);
                    let v = Polynomial::new(c);
                    bulk_t(&v, Some(w), "Polynomial<BFieldElement>", &mut r, st)
                }
                _ => return None,
            };
            Some(match res {
                Ok(s) => Out::ok(s),
                Err(e) => Out::ok("ok:fail").with_oracle(false, e),
            })
        }
        _ => None,
    }
}

pub fn gen(rng: &mut Rng, thorough: bool, out: &mut Vec<String>) {
    let plan: &[(&str, &[usize])] = if thorough {
        &[("vec_u64", &[16385, 65539, 262147]), ("vec_digest", &[16385, 65539, 262147]), ("vec_vec_u8", &[16385, 65539, 262147]),
          ("vec_opt_xfe", &[16385, 65539, 262147]), ("poly_bfe", &[16385, 65539, 262147, 1])]
    } else {
        &[("vec_u64", &[16385, 262147]), ("vec_digest", &[65539]), ("vec_vec_u8", &[16385, 65539]), ("vec_opt_xfe", &[16385, 65539]), ("poly_bfe", &[16385, 262147])]
    };
    for (ty, ns) in plan {
        for n in *ns {
            out.push(format!("codec13 bulk {} {} {}", ty, rng.next(), n));
        }
    }
}
