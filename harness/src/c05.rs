// PROP: C05  FAMILIES: mmrp=run_mmrp
//! C05 -- `MmrMembershipProof::{verify, update_from_append, batch_update_from_append, update_from_leaf_mutation,
//! batch_update_from_leaf_mutation, batch_update_from_batch_leaf_mutation}`, `MmrAccumulator::{append,
//! batch_mutate_leaf_and_update_mps}`.  Family `mmrp` (same text evaluated by `lean/TF/Drv/MmrMember.lean`).
//!
//!   verify tag i leaf peaks count path     one verification; reply `ok:<bool>`
//!   free_check N K                         model-only bounded test (free hash algebra, all shapes up to N leaves)
//!   hist ops                               a whole history from the empty MMR (see the Lean driver for the op
//!                                          grammar); reply: per op `<return value>;<[len,checksum] per tracked
//!                                          proof>` joined by `|`, then `#count#peaks#tracked indices#tracked proofs`
//!
//! Property oracles evaluated on the implementation after *every* op of a history, independent of the model:
//! the perfect Merkle trees over the current leaf list are rebuilt with `MerkleTree::new::<CpuParallel>`; every
//! tracked proof must equal the path read off these trees and must verify against the accumulator's peaks; the
//! accumulator's peaks must be the roots; the "modified" sets returned by the batch routines must be exactly the
//! proofs whose digests changed, and a single-update routine returning `false` must not have changed the proof.
//!
//!   bhist (count;peaks;known) ops          a history (same op grammar, same reply) that starts from
//!                                          `MmrAccumulator::init(peaks, count)` with a LARGE structured leaf count
//!                                          (2^k-1, 2^k-j, runs of ones up to bit 62: appends carry through high bits);
//!                                          `known = [(index;leaf;path),…]` are the materialised leafs from which the
//!                                          harness rebuilds a sparse from-scratch forest (`c12::sparse::Sparse`):
//!                                          after every op the peaks must equal the peaks recomputed by folding and every
//!                                          tracked proof must be the recomputed path and verify.  Evaluated in a
//!                                          watchdog child process (`util::guarded_out`).
use super::c12::sparse::{pick_tracked, Sparse};
use super::c12::spec::{locate, peak_pos};
use crate::util::*;
use twenty_first::prelude::*;
use twenty_first::util_types::mmr::mmr_accumulator::MmrAccumulator;
use twenty_first::util_types::mmr::mmr_membership_proof::MmrMembershipProof;
use twenty_first::util_types::mmr::mmr_trait::LeafMutation;

// ---- from-scratch reference ----------------------------------------------------------------------------

/// root of the aligned block `j` of `2^l` leaves
fn sub(leaves: &[Digest], l: u32, j: u64) -> Digest {
    if l == 0 {
        leaves[j as usize]
    } else {
        Tip5::hash_pair(sub(leaves, l - 1, 2 * j), sub(leaves, l - 1, 2 * j + 1))
    }
}

/// authentication path of leaf `i` by plain recursion (used by the generator)
fn spec_auth_path(leaves: &[Digest], i: u64) -> Vec<Digest> {
    let (h, _) = locate(leaves.len() as u64, i).unwrap();
    (0..h).map(|l| sub(leaves, l, (i >> l) ^ 1)).collect()
}

/// the forest rebuilt with the crate's Merkle tree (C10's object, independent of the MMR code)
struct Scratch {
    trees: Vec<(u32, u64, MerkleTree)>,
}
impl Scratch {
    fn new(leaves: &[Digest]) -> Self {
        let trees = peak_pos(leaves.len() as u64)
            .into_iter()
            .map(|(h, s)| (h, s, MerkleTree::new::<CpuParallel>(&leaves[s as usize..(s + (1 << h)) as usize]).unwrap()))
            .collect();
        Scratch { trees }
    }
    fn peaks(&self) -> Vec<Digest> {
        self.trees.iter().map(|t| t.2.root()).collect()
    }
    fn auth_path(&self, i: u64) -> Vec<Digest> {
        let (h, s, t) = self.trees.iter().find(|(h, s, _)| i >= *s && i - *s < (1u64 << h)).unwrap();
        let mut idx = (1usize << h) + (i - s) as usize;
        let mut res = vec![];
        while idx > 1 {
            res.push(t.node(idx ^ 1).unwrap());
            idx /= 2;
        }
        res
    }
}

/// reference verifier for membership claims
fn spec_member_verify(path: &[Digest], i: u64, leaf: Digest, peaks: &[Digest], n: u64) -> bool {
    if i >= n || peaks.len() != n.count_ones() as usize {
        return false;
    }
    let (h, pk) = locate(n, i).unwrap();
    if path.len() != h as usize {
        return false;
    }
    let mut acc = leaf;
    let mut j = i;
    for s in path {
        acc = if j % 2 == 0 { Tip5::hash_pair(acc, *s) } else { Tip5::hash_pair(*s, acc) };
        j /= 2;
    }
    peaks[pk] == acc
}

fn cks(path: &[Digest]) -> String {
    let mut acc = 0u64;
    for (k, d) in path.iter().enumerate() {
        for (j, x) in d.values().iter().enumerate() {
            acc = acc.wrapping_add(((5 * k + j + 1) as u64).wrapping_mul(x.value()));
        }
    }
    format!("[{},{}]", path.len(), acc)
}

fn mk_leaf(seed: u64, idx: u64) -> Digest {
    Digest::new([seed, idx, 1, 2, 3].map(BFieldElement::new))
}

// ---- history interpreter on the real crate ---------------------------------------------------------------

struct Hist {
    acc: MmrAccumulator,
    leaves: Vec<Digest>,
    tracked: Vec<(u64, MmrMembershipProof)>,
    fails: Vec<String>,
}

fn select(tr: &[(u64, MmrMembershipProof)], order: &[u64]) -> Option<Vec<(u64, MmrMembershipProof)>> {
    order.iter().map(|&s| tr.get(s as usize).cloned()).collect()
}

impl Hist {
    fn check(&mut self, k: usize, what: &str) {
        let sc = Scratch::new(&self.leaves);
        if sc.peaks() != self.acc.peaks() || self.acc.num_leafs() != self.leaves.len() as u64 {
            self.fails.push(format!("op {k} ({what}): accumulator differs from the from-scratch peaks"));
        }
        for (slot, (li, mp)) in self.tracked.iter().enumerate() {
            if mp.authentication_path != sc.auth_path(*li) {
                self.fails.push(format!("op {k} ({what}): tracked proof {slot} (leaf {li}) is not the from-scratch authentication path"));
            }
            if !mp.verify(*li, self.leaves[*li as usize], &self.acc.peaks(), self.acc.num_leafs()) {
                self.fails.push(format!("op {k} ({what}): tracked proof {slot} (leaf {li}) does not verify"));
            }
        }
    }

    /// `returned` = indices reported as modified; `before`/`after` the handed proofs
    fn check_modified(&mut self, k: usize, what: &str, returned: &[usize], before: &[MmrMembershipProof], after: &[MmrMembershipProof]) {
        let changed: Vec<usize> = (0..before.len()).filter(|&i| before[i].authentication_path != after[i].authentication_path).collect();
        let mut r = returned.to_vec();
        r.sort();
        if r != changed || r.len() != returned.len() {
            self.fails.push(format!("op {k} ({what}): reported modified {returned:?} but changed {changed:?}"));
        }
    }

    fn append(&mut self, k: usize, d: Digest, trk: bool, how: u64, order: &[u64], st: &mut Stats, check: bool) -> Option<String> {
        let mut sel = select(&self.tracked, order)?;
        let before: Vec<MmrMembershipProof> = sel.iter().map(|x| x.1.clone()).collect();
        let (cnt, peaks) = (self.acc.num_leafs(), self.acc.peaks());
        let ret;
        if how == 0 {
            let mut bs = vec![];
            for (li, mp) in sel.iter_mut() {
                let b = mp.update_from_append(*li, cnt, d, &peaks);
                bs.push(b as u64);
            }
            for (i, b) in bs.iter().enumerate() {
                if *b == 0 && before[i].authentication_path != sel[i].1.authentication_path {
                    self.fails.push(format!("op {k}: update_from_append returned false but altered the proof"));
                }
                if *b == 1 && before[i].authentication_path == sel[i].1.authentication_path {
                    self.fails.push(format!("op {k}: update_from_append returned true but left the proof unchanged"));
                }
            }
            ret = fmt_list_u64(&bs);
        } else {
            let lis: Vec<u64> = sel.iter().map(|x| x.0).collect();
            let mut mps: Vec<&mut MmrMembershipProof> = sel.iter_mut().map(|x| &mut x.1).collect();
            let ms = MmrMembershipProof::batch_update_from_append(&mut mps, &lis, cnt, d, &peaks);
            let after: Vec<MmrMembershipProof> = sel.iter().map(|x| x.1.clone()).collect();
            self.check_modified(k, "batch_update_from_append", &ms, &before, &after);
            ret = fmt_list_u64(&ms.iter().map(|&x| x as u64).collect::<Vec<_>>());
        }
        let merges = cnt.trailing_ones();
        if check {
            st.hit(&format!("append:how={} merges={}", how, merges.min(6)));
        }
        let mp = self.acc.append(d);
        self.leaves.push(d);
        self.tracked = sel;
        if trk {
            self.tracked.push((cnt, mp));
        }
        Some(ret)
    }

    fn step(&mut self, k: usize, op: &Arg, st: &mut Stats) -> Option<String> {
        let Arg::Tup(t) = op else { return None };
        match (t[0].u64()?, t.len()) {
            (0, 5) => {
                let r = self.append(k, t[1].digest()?, t[2].u64()? == 1, t[3].u64()?, &t[4].u64s()?, st, true)?;
                self.check(k, "append");
                Some(r)
            }
            (1, 6) => {
                let (i, d, proof, how, order) = (t[1].u64()?, t[2].digest()?, t[3].digests()?, t[4].u64()?, t[5].u64s()?);
                let lm = LeafMutation::new(i, d, MmrMembershipProof::new(proof));
                let mut sel = select(&self.tracked, &order)?;
                let before: Vec<MmrMembershipProof> = sel.iter().map(|x| x.1.clone()).collect();
                let ret;
                if how == 0 {
                    let mut bs = vec![];
                    for (li, mp) in sel.iter_mut() {
                        bs.push(mp.update_from_leaf_mutation(*li, &lm) as u64);
                    }
                    for (j, b) in bs.iter().enumerate() {
                        if *b == 0 && before[j].authentication_path != sel[j].1.authentication_path {
                            self.fails.push(format!("op {k}: update_from_leaf_mutation returned false but altered the proof"));
                        }
                    }
                    ret = fmt_list_u64(&bs);
                } else {
                    let lis: Vec<u64> = sel.iter().map(|x| x.0).collect();
                    let mut mps: Vec<MmrMembershipProof> = before.clone();
                    let ms = MmrMembershipProof::batch_update_from_leaf_mutation(&mut mps, &lis, lm.clone());
                    self.check_modified(k, "batch_update_from_leaf_mutation", &ms.iter().map(|&x| x as usize).collect::<Vec<_>>(), &before, &mps);
                    for (x, mp) in sel.iter_mut().zip(mps) {
                        x.1 = mp;
                    }
                    ret = fmt_list_u64(&ms);
                }
                let own = sel.iter().any(|x| x.0 == i);
                let sib = sel.iter().any(|x| x.0 == i ^ 1);
                st.hit(&format!("mutate:how={} own_tracked={} sibling_tracked={}", how, own, sib));
                self.acc.mutate_leaf(lm);
                self.leaves[i as usize] = d;
                self.tracked = sel;
                self.check(k, "mutate");
                Some(ret)
            }
            (2, 4) => {
                let (muts, how, order) = (t[1].list()?, t[2].u64()?, t[3].u64s()?);
                let mut lms = vec![];
                for m in muts {
                    let Arg::Tup(m) = m else { return None };
                    lms.push(LeafMutation::new(m[0].u64()?, m[1].digest()?, MmrMembershipProof::new(m[2].digests()?)));
                }
                let mut sel = select(&self.tracked, &order)?;
                let before: Vec<MmrMembershipProof> = sel.iter().map(|x| x.1.clone()).collect();
                let lis: Vec<u64> = sel.iter().map(|x| x.0).collect();
                let ms;
                {
                    let mut mps: Vec<&mut MmrMembershipProof> = sel.iter_mut().map(|x| &mut x.1).collect();
                    if how == 0 {
                        ms = self.acc.batch_mutate_leaf_and_update_mps(&mut mps, &lis, lms.clone());
                    } else {
                        ms = MmrMembershipProof::batch_update_from_batch_leaf_mutation(&mut mps, &lis, lms.clone());
                        self.acc.batch_mutate_leaf_and_update_mps(&mut [], &[], lms.clone());
                    }
                }
                let after: Vec<MmrMembershipProof> = sel.iter().map(|x| x.1.clone()).collect();
                self.check_modified(k, if how == 0 { "batch_mutate_leaf_and_update_mps" } else { "batch_update_from_batch_leaf_mutation" }, &ms, &before, &after);
                let idx: Vec<u64> = lms.iter().map(|m| m.leaf_index).collect();
                let sibs = idx.iter().filter(|&&i| idx.contains(&(i ^ 1))).count();
                let tracked_mut = idx.iter().filter(|&&i| lis.contains(&i)).count();
                st.hit(&format!("batch:how={} n={}", how, idx.len().min(5)));
                st.hit(&format!("batch:sibling_pairs={} mutated_leafs_tracked={}", (sibs / 2).min(2), tracked_mut.min(2)));
                for m in &lms {
                    self.leaves[m.leaf_index as usize] = m.new_leaf;
                }
                self.tracked = sel;
                self.check(k, "batch mutate");
                Some(fmt_list_u64(&ms.iter().map(|&x| x as u64).collect::<Vec<_>>()))
            }
            (3, 4) => {
                let (n, seed, how) = (t[1].u64()?, t[2].u64()?, t[3].u64()?);
                for _ in 0..n {
                    let order: Vec<u64> = (0..self.tracked.len() as u64).collect();
                    let d = mk_leaf(seed, self.acc.num_leafs());
                    self.append(k, d, false, how, &order, st, false)?;
                }
                self.check(k, "bulk append");
                Some("[]".into())
            }
            (4, 3) => {
                self.tracked.push((t[1].u64()?, MmrMembershipProof::new(t[2].digests()?)));
                self.check(k, "track");
                Some("[]".into())
            }
            _ => None,
        }
    }
}

// ---- generator -------------------------------------------------------------------------------------------

fn dg(rng: &mut Rng) -> Digest {
    if rng.coin(1, 8) {
        rng.digest()
    } else {
        rng.digest_u()
    }
}

fn perm(rng: &mut Rng, n: usize) -> Vec<u64> {
    let mut v: Vec<u64> = (0..n as u64).collect();
    for i in (1..n).rev() {
        let j = rng.below(i as u64 + 1) as usize;
        v.swap(i, j);
    }
    v
}

/// one history line; the generator keeps the leaf list and the tracked leaf indices to supply valid membership
/// proofs of the mutated leafs (computed by plain recursion over the leaf list, no crate MMR code)
fn gen_history(rng: &mut Rng, max_k: u64, len: u64) -> String {
    let mut leaves: Vec<Digest> = vec![];
    let mut tracked: Vec<u64> = vec![];
    let mut ops: Vec<String> = vec![];
    let seed = rng.below(1 << 32);
    // base size around a power of two / small / random
    let n0 = match rng.below(5) {
        0 => rng.below(4),
        1 | 2 => {
            let k = rng.range(1, max_k);
            ((1u64 << k) + rng.below(5)).saturating_sub(3)
        }
        3 => rng.below(1 << max_k.min(9)),
        _ => rng.below(40),
    };
    if n0 > 0 {
        ops.push(format!("(3;{};{};{})", n0, seed, rng.below(2)));
        for i in 0..n0 {
            leaves.push(mk_leaf(seed, i));
        }
    }
    let n = leaves.len() as u64;
    if n > 0 {
        let want = rng.range(1, 5);
        let mut cands: Vec<u64> = vec![n - 1, 0, n / 2];
        for (h, s) in peak_pos(n) {
            cands.push(s);
            cands.push(s + (1u64 << h) - 1);
        }
        for _ in 0..want {
            let i = if rng.coin(1, 2) { *rng.pick(&cands) } else { rng.below(n) };
            if !tracked.contains(&i) {
                ops.push(format!("(4;{};{})", i, fmt_digests(&spec_auth_path(&leaves, i))));
                tracked.push(i);
                if rng.coin(1, 2) && (i ^ 1) < n && !tracked.contains(&(i ^ 1)) {
                    ops.push(format!("(4;{};{})", i ^ 1, fmt_digests(&spec_auth_path(&leaves, i ^ 1))));
                    tracked.push(i ^ 1);
                }
            }
        }
    }
    for _ in 0..len {
        let n = leaves.len() as u64;
        // the order in which the tracked proofs are handed over; sometimes a proper subset
        let mut order = perm(rng, tracked.len());
        if tracked.len() > 3 && rng.coin(1, 6) {
            order.pop();
        }
        if rng.coin(1, 4) {
            order.sort();
        }
        let new_tracked: Vec<u64> = order.iter().map(|&s| tracked[s as usize]).collect();
        let kind = if n == 0 { 0 } else { rng.below(10) };
        match kind {
            0..=3 => {
                let d = dg(rng);
                let trk = tracked.len() < 8 && rng.coin(1, 3);
                ops.push(format!("(0;{};{};{};{})", fmt_digest(&d), trk as u8, rng.below(2), fmt_list_u64(&order)));
                tracked = new_tracked;
                if trk {
                    tracked.push(n);
                }
                leaves.push(d);
            }
            4..=6 => {
                // single mutation: a tracked leaf, the sibling of one, a cousin, or any
                let i = if !tracked.is_empty() && rng.coin(3, 4) {
                    let t = *rng.pick(&tracked);
                    let c = match rng.below(5) {
                        0 => t,
                        1 => t ^ 1,
                        2 => t ^ 2,
                        3 => t ^ (1 << rng.below(6)),
                        _ => rng.below(n),
                    };
                    if c < n { c } else { t }
                } else {
                    rng.below(n)
                };
                let d = if rng.coin(1, 10) { leaves[i as usize] } else { dg(rng) };
                ops.push(format!(
                    "(1;{};{};{};{};{})",
                    i, fmt_digest(&d), fmt_digests(&spec_auth_path(&leaves, i)), rng.below(2), fmt_list_u64(&order)
                ));
                leaves[i as usize] = d;
                tracked = new_tracked;
            }
            7 | 8 => {
                // batch mutation: sibling pairs, whole small subtrees, tracked leafs, leafs of different peaks
                let mut idx: Vec<u64> = vec![];
                let k = rng.range(1, 6);
                while (idx.len() as u64) < k.min(n) {
                    let base = if !tracked.is_empty() && rng.coin(1, 2) { *rng.pick(&tracked) } else { rng.below(n) };
                    let group: Vec<u64> = match rng.below(5) {
                        0 => vec![base, base ^ 1],
                        1 => (0..4).map(|x| (base & !3) + x).collect(),
                        2 => vec![base, base ^ 2],
                        3 => peak_pos(n).iter().map(|&(_, s)| s).collect(),
                        _ => vec![base],
                    };
                    for g in group {
                        if g < n && !idx.contains(&g) && (idx.len() as u64) < 8 {
                            idx.push(g);
                        }
                    }
                }
                let p = perm(rng, idx.len());
                let idx: Vec<u64> = p.iter().map(|&j| idx[j as usize]).collect();
                let mut muts = vec![];
                let mut news = vec![];
                for &i in &idx {
                    let d = if rng.coin(1, 12) { leaves[i as usize] } else { dg(rng) };
                    muts.push(format!("({};{};{})", i, fmt_digest(&d), fmt_digests(&spec_auth_path(&leaves, i))));
                    news.push((i, d));
                }
                ops.push(format!("(2;[{}];{};{})", muts.join(","), rng.below(2), fmt_list_u64(&order)));
                for (i, d) in news {
                    leaves[i as usize] = d;
                }
                tracked = new_tracked;
            }
            _ => {
                // run of appends, preferably across the next power of two
                let np2 = (n + 1).next_power_of_two();
                let m = if np2 - n <= 6 && rng.coin(2, 3) { np2 - n + rng.below(2) } else { rng.range(1, 5) };
                let s2 = rng.below(1 << 32);
                ops.push(format!("(3;{};{};{})", m, s2, rng.below(2)));
                for j in 0..m {
                    leaves.push(mk_leaf(s2, n + j));
                }
            }
        }
    }
    format!("mmrp hist [{}]", ops.join(","))
}

// ---- histories on init(peaks, LARGE count) ---------------------------------------------------------------

struct BigHist {
    acc: MmrAccumulator,
    sp: Option<Sparse>, // None: the op line left the class "valid proofs of materialised leafs" -- oracles off
    tracked: Vec<(u64, MmrMembershipProof)>,
    fails: Vec<String>,
}

impl BigHist {
    fn check(&mut self, k: usize, what: &str) {
        if self.sp.as_ref().map(|s| s.n >= 1 << 63).unwrap_or(false) {
            self.sp = None; // outside the property's domain (< 2^63 leafs: node indices fit u64)
        }
        let Some(sp) = &mut self.sp else { return };
        if sp.peaks() != self.acc.peaks() || self.acc.num_leafs() != sp.n {
            self.fails.push(format!("op {k} ({what}): accumulator differs from the peaks recomputed by folding"));
        }
        for (slot, (li, mp)) in self.tracked.iter().enumerate() {
            let Some(leaf) = sp.leafs.get(li).copied() else { continue };
            if mp.authentication_path != sp.path(*li) {
                self.fails.push(format!("op {k} ({what}): tracked proof {slot} (leaf {li}) is not the authentication path recomputed by folding"));
            }
            if !mp.verify(*li, leaf, &self.acc.peaks(), self.acc.num_leafs()) {
                self.fails.push(format!("op {k} ({what}): tracked proof {slot} (leaf {li}) does not verify against the new accumulator"));
            }
        }
        if sp.missing > 0 {
            self.sp = None;
        }
    }

    fn check_modified(&mut self, k: usize, what: &str, returned: &[usize], before: &[MmrMembershipProof], after: &[MmrMembershipProof]) {
        let changed: Vec<usize> = (0..before.len()).filter(|&i| before[i].authentication_path != after[i].authentication_path).collect();
        let mut r = returned.to_vec();
        r.sort();
        if r != changed || r.len() != returned.len() {
            self.fails.push(format!("op {k} ({what}): reported modified {returned:?} but changed {changed:?}"));
        }
    }

    fn append(&mut self, k: usize, d: Digest, trk: bool, how: u64, order: &[u64], st: &mut Stats) -> Option<String> {
        let mut sel = select(&self.tracked, order)?;
        let before: Vec<MmrMembershipProof> = sel.iter().map(|x| x.1.clone()).collect();
        let (cnt, peaks) = (self.acc.num_leafs(), self.acc.peaks());
        let ret;
        if how == 0 {
            let mut bs = vec![];
            for (li, mp) in sel.iter_mut() {
                bs.push(mp.update_from_append(*li, cnt, d, &peaks) as u64);
            }
            for (i, b) in bs.iter().enumerate() {
                if (*b == 1) != (before[i].authentication_path != sel[i].1.authentication_path) {
                    self.fails.push(format!("op {k}: update_from_append returned {} but the proof {}", *b == 1, if *b == 1 { "is unchanged" } else { "was altered" }));
                }
            }
            ret = fmt_list_u64(&bs);
        } else {
            let lis: Vec<u64> = sel.iter().map(|x| x.0).collect();
            let mut mps: Vec<&mut MmrMembershipProof> = sel.iter_mut().map(|x| &mut x.1).collect();
            let ms = MmrMembershipProof::batch_update_from_append(&mut mps, &lis, cnt, d, &peaks);
            let after: Vec<MmrMembershipProof> = sel.iter().map(|x| x.1.clone()).collect();
            self.check_modified(k, "batch_update_from_append", &ms, &before, &after);
            ret = fmt_list_u64(&ms.iter().map(|&x| x as u64).collect::<Vec<_>>());
        }
        let top = 64 - (cnt ^ cnt.wrapping_add(1)).leading_zeros();
        st.hit(&format!("bhist:append how={} carry reaches bit {}", how, match top { 0..=16 => "0-15", 17..=31 => "16-30", 32..=33 => "31-32", 34..=48 => "33-47", _ => "48-62" }));
        let mp = self.acc.append(d);
        if let Some(sp) = &mut self.sp {
            sp.append(d);
        }
        self.tracked = sel;
        if trk {
            self.tracked.push((cnt, mp));
        }
        Some(ret)
    }

    fn valid_mutation(&mut self, i: u64, proof: &[Digest]) -> bool {
        match &mut self.sp {
            Some(sp) => sp.leafs.contains_key(&i) && sp.path(i) == proof,
            None => false,
        }
    }

    fn step(&mut self, k: usize, op: &Arg, st: &mut Stats) -> Option<String> {
        let Arg::Tup(t) = op else { return None };
        match (t[0].u64()?, t.len()) {
            (0, 5) => {
                let r = self.append(k, t[1].digest()?, t[2].u64()? == 1, t[3].u64()?, &t[4].u64s()?, st)?;
                self.check(k, "append");
                Some(r)
            }
            (1, 6) => {
                let (i, d, proof, how, order) = (t[1].u64()?, t[2].digest()?, t[3].digests()?, t[4].u64()?, t[5].u64s()?);
                let valid = self.valid_mutation(i, &proof);
                let lm = LeafMutation::new(i, d, MmrMembershipProof::new(proof));
                let mut sel = select(&self.tracked, &order)?;
                let before: Vec<MmrMembershipProof> = sel.iter().map(|x| x.1.clone()).collect();
                let ret;
                if how == 0 {
                    let mut bs = vec![];
                    for (li, mp) in sel.iter_mut() {
                        bs.push(mp.update_from_leaf_mutation(*li, &lm) as u64);
                    }
                    for (j, b) in bs.iter().enumerate() {
                        if *b == 0 && before[j].authentication_path != sel[j].1.authentication_path {
                            self.fails.push(format!("op {k}: update_from_leaf_mutation returned false but altered the proof"));
                        }
                    }
                    ret = fmt_list_u64(&bs);
                } else {
                    let lis: Vec<u64> = sel.iter().map(|x| x.0).collect();
                    let mut mps: Vec<MmrMembershipProof> = before.clone();
                    let ms = MmrMembershipProof::batch_update_from_leaf_mutation(&mut mps, &lis, lm.clone());
                    self.check_modified(k, "batch_update_from_leaf_mutation", &ms.iter().map(|&x| x as usize).collect::<Vec<_>>(), &before, &mps);
                    for (x, mp) in sel.iter_mut().zip(mps) {
                        x.1 = mp;
                    }
                    ret = fmt_list_u64(&ms);
                }
                st.hit(&format!("bhist:mutate how={} valid={} own_tracked={}", how, valid, sel.iter().any(|x| x.0 == i)));
                self.acc.mutate_leaf(lm);
                match (&mut self.sp, valid) {
                    (Some(sp), true) => {
                        sp.leafs.insert(i, d);
                    }
                    _ => self.sp = None,
                }
                self.tracked = sel;
                self.check(k, "mutate");
                Some(ret)
            }
            (2, 4) => {
                let (muts, how, order) = (t[1].list()?, t[2].u64()?, t[3].u64s()?);
                let mut lms = vec![];
                let mut valid = true;
                for m in muts {
                    let Arg::Tup(m) = m else { return None };
                    let (i, d, p) = (m[0].u64()?, m[1].digest()?, m[2].digests()?);
                    valid &= self.valid_mutation(i, &p);
                    lms.push(LeafMutation::new(i, d, MmrMembershipProof::new(p)));
                }
                let mut sel = select(&self.tracked, &order)?;
                let before: Vec<MmrMembershipProof> = sel.iter().map(|x| x.1.clone()).collect();
                let lis: Vec<u64> = sel.iter().map(|x| x.0).collect();
                let ms;
                {
                    let mut mps: Vec<&mut MmrMembershipProof> = sel.iter_mut().map(|x| &mut x.1).collect();
                    if how == 0 {
                        ms = self.acc.batch_mutate_leaf_and_update_mps(&mut mps, &lis, lms.clone());
                    } else {
                        ms = MmrMembershipProof::batch_update_from_batch_leaf_mutation(&mut mps, &lis, lms.clone());
                        self.acc.batch_mutate_leaf_and_update_mps(&mut [], &[], lms.clone());
                    }
                }
                let after: Vec<MmrMembershipProof> = sel.iter().map(|x| x.1.clone()).collect();
                self.check_modified(k, if how == 0 { "batch_mutate_leaf_and_update_mps" } else { "batch_update_from_batch_leaf_mutation" }, &ms, &before, &after);
                st.hit(&format!("bhist:batch how={} valid={} n={}", how, valid, lms.len().min(5)));
                match (&mut self.sp, valid) {
                    (Some(sp), true) => {
                        for m in &lms {
                            sp.leafs.insert(m.leaf_index, m.new_leaf);
                        }
                    }
                    _ => self.sp = None,
                }
                self.tracked = sel;
                self.check(k, "batch mutate");
                Some(fmt_list_u64(&ms.iter().map(|&x| x as u64).collect::<Vec<_>>()))
            }
            (3, 4) => {
                let (n, seed, how) = (t[1].u64()?, t[2].u64()?, t[3].u64()?);
                for _ in 0..n {
                    let order: Vec<u64> = (0..self.tracked.len() as u64).collect();
                    let d = mk_leaf(seed, self.acc.num_leafs());
                    self.append(k, d, false, how, &order, st)?;
                }
                self.check(k, "bulk append");
                Some("[]".into())
            }
            (4, 3) => {
                self.tracked.push((t[1].u64()?, MmrMembershipProof::new(t[2].digests()?)));
                self.check(k, "track");
                Some("[]".into())
            }
            _ => None,
        }
    }
}

/// one history line on `init(peaks, LARGE count)`; peaks and proofs come from the generator's sparse forest
fn gen_big_history(rng: &mut Rng, len: u64) -> String {
    let (n0, m0) = super::c12::carry_pair(rng);
    let n0 = n0.max(1);
    let k = rng.range(1, 4) as usize;
    let idxs: Vec<(u64, Digest)> = pick_tracked(rng, n0, k).into_iter().map(|i| (i, dg(rng))).collect();
    let mut sp = Sparse::random(rng.next(), n0, &idxs);
    let peaks = sp.peaks();
    let known: Vec<String> = idxs.iter().map(|(i, d)| format!("({};{};{})", i, fmt_digest(d), fmt_digests(&sp.path(*i)))).collect();
    let mut ops: Vec<String> = vec![];
    let mut tracked: Vec<u64> = vec![];
    for (j, (i, _)) in idxs.iter().enumerate() {
        // the last materialised leaf sometimes stays untracked (it is only mutated)
        if j + 1 < idxs.len() || idxs.len() == 1 || rng.coin(2, 3) {
            ops.push(format!("(4;{};{})", i, fmt_digests(&sp.path(*i))));
            tracked.push(*i);
        }
    }
    for step in 0..len {
        // the property's domain is < 2^63 leafs (node indices fit u64): never append beyond 2^63 - 1
        let room = ((1u64 << 63) - 1).saturating_sub(sp.n);
        let mat: Vec<u64> = sp.leafs.keys().copied().collect();
        let mut order = perm(rng, tracked.len());
        if rng.coin(1, 4) {
            order.sort();
        }
        let new_tracked: Vec<u64> = order.iter().map(|&s| tracked[s as usize]).collect();
        let kind = if room == 0 { 3 + rng.below(5) } else if step == 0 { 9 } else { rng.below(10) };
        match kind {
            0..=2 => {
                let d = dg(rng);
                let trk = tracked.len() < 6 && rng.coin(1, 2);
                ops.push(format!("(0;{};{};{};{})", fmt_digest(&d), trk as u8, rng.below(2), fmt_list_u64(&order)));
                tracked = new_tracked;
                if trk {
                    tracked.push(sp.n);
                }
                sp.append(d);
            }
            3..=5 => {
                let i = *rng.pick(&mat);
                let d = if rng.coin(1, 10) { sp.leafs[&i] } else { dg(rng) };
                ops.push(format!("(1;{};{};{};{};{})", i, fmt_digest(&d), fmt_digests(&sp.path(i)), rng.below(2), fmt_list_u64(&order)));
                sp.leafs.insert(i, d);
                tracked = new_tracked;
            }
            6 | 7 => {
                let mut idx: Vec<u64> = mat.iter().copied().filter(|_| rng.coin(1, 2)).collect();
                if idx.is_empty() {
                    idx.push(*rng.pick(&mat));
                }
                idx.truncate(5);
                let p = perm(rng, idx.len());
                let idx: Vec<u64> = p.iter().map(|&j| idx[j as usize]).collect();
                let mut muts = vec![];
                let mut news = vec![];
                for &i in &idx {
                    let d = dg(rng);
                    muts.push(format!("({};{};{})", i, fmt_digest(&d), fmt_digests(&sp.path(i))));
                    news.push((i, d));
                }
                ops.push(format!("(2;[{}];{};{})", muts.join(","), rng.below(2), fmt_list_u64(&order)));
                for (i, d) in news {
                    sp.leafs.insert(i, d);
                }
                tracked = new_tracked;
            }
            _ => {
                // run of appends: the first one makes the carry ripple through the run of ones
                let m = (if step == 0 { (m0 as u64).clamp(1, 8) } else { rng.range(1, 4) }).min(room);
                let s2 = rng.below(1 << 32);
                ops.push(format!("(3;{};{};{})", m, s2, rng.below(2)));
                for _ in 0..m {
                    let d = mk_leaf(s2, sp.n);
                    sp.append(d);
                }
            }
        }
    }
    format!("mmrp bhist ({};{};[{}]) [{}]", n0, fmt_digests(&peaks), known.join(","), ops.join(","))
}

pub fn gen(rng: &mut Rng, thorough: bool, out: &mut Vec<String>) {
    // fast-hash validation of the model driver
    for _ in 0..(if thorough { 1000 } else { 100 }) {
        out.push(format!("mmrs hp {} {}", fmt_digest(&rng.digest()), fmt_digest(&rng.digest())));
    }
    // histories
    let (nh, max_k, len) = if thorough { (2500, 12, 60) } else { (300, 10, 30) };
    for i in 0..nh {
        let l = if i % 10 == 0 { 3 * len } else { rng.range(4, len) };
        out.push(gen_history(rng, if i % 4 == 0 { 5 } else { max_k }, l));
    }
    // histories on init(peaks, LARGE structured count): carries through high bits of the leaf count
    for _ in 0..(if thorough { 1500 } else { 48 }) {
        let l = rng.range(2, if thorough { 14 } else { 7 });
        out.push(gen_big_history(rng, l));
    }
    // bounded model check in the Lean model (free hash algebra): all shapes up to N leaves
    out.push(if thorough { "mmrp free_check 64 20".to_string() } else { "mmrp free_check 20 10".to_string() });
    // verification on valid and malformed tuples
    let nv = if thorough { 40_000 } else { 2_500 };
    for i in 0..nv {
        let small = i % 3 != 0;
        let (n, idx, leaf, mut path, mut peaks);
        if small {
            // a real small MMR
            let cnt = match rng.below(3) {
                0 => rng.range(1, 20),
                1 => {
                    let k = rng.range(1, 7);
                    ((1u64 << k) + rng.below(3)).saturating_sub(1).max(1)
                }
                _ => rng.range(1, 200),
            };
            let leaves: Vec<Digest> = (0..cnt).map(|_| rng.digest_u()).collect();
            n = cnt;
            idx = match rng.below(4) {
                0 => cnt - 1,
                1 => 0,
                _ => rng.below(cnt),
            };
            leaf = leaves[idx as usize];
            path = spec_auth_path(&leaves, idx);
            peaks = peak_pos(cnt).into_iter().map(|(h, s)| sub(&leaves, h, s >> h)).collect::<Vec<_>>();
        } else {
            // a fabricated claim at an arbitrary (large) count: random path, own peak by folding, other peaks random
            n = match rng.below(4) {
                0 => rng.next(),
                1 => rng.next() >> rng.below(64),
                2 => (1u64 << rng.below(64)).wrapping_sub(rng.below(3)),
                _ => u64::MAX - rng.below(3),
            }
            .max(1);
            idx = match rng.below(4) {
                0 => n - 1,
                1 => 0,
                _ => rng.below(n),
            };
            let (h, pk) = locate(n, idx).unwrap();
            leaf = rng.digest_u();
            path = (0..h).map(|_| rng.digest_u()).collect();
            peaks = (0..n.count_ones()).map(|_| rng.digest_u()).collect::<Vec<_>>();
            let mut acc = leaf;
            let mut j = idx;
            for s in &path {
                acc = if j % 2 == 0 { Tip5::hash_pair(acc, *s) } else { Tip5::hash_pair(*s, acc) };
                j /= 2;
            }
            peaks[pk] = acc;
        }
        let (mut n2, mut idx2, mut leaf2) = (n, idx, leaf);
        let mut tag = "T";
        match rng.below(16) {
            0..=4 => {}
            5 => {
                idx2 = match rng.below(3) {
                    0 => n,
                    1 => n.saturating_add(1),
                    _ => u64::MAX,
                };
                tag = if idx2 >= n2 { "F" } else { "U" };
            }
            6 => {
                if rng.coin(1, 2) || peaks.is_empty() {
                    peaks.push(rng.digest_u());
                } else {
                    peaks.pop();
                }
                tag = "F";
            }
            7 => {
                path.push(rng.digest_u());
                tag = "F";
            }
            8 if !path.is_empty() => {
                if rng.coin(1, 2) {
                    path.pop();
                } else {
                    path.remove(0);
                }
                tag = "F";
            }
            9 if !path.is_empty() => {
                let j = rng.below(path.len() as u64) as usize;
                path[j] = rng.digest_u();
                tag = "F";
            }
            10 => {
                leaf2 = rng.digest_u();
                tag = "F";
            }
            11 => {
                let j = rng.below(peaks.len() as u64) as usize;
                let (_, pk) = locate(n, idx).unwrap();
                peaks[j] = rng.digest_u();
                tag = if j == pk { "F" } else { "T" };
            }
            12 => {
                idx2 = if rng.coin(1, 2) { idx ^ 1 } else { rng.below(n) };
                tag = if idx2 == idx { "T" } else if idx2 >= n { "F" } else { "U" };
            }
            13 => {
                n2 = match rng.below(3) {
                    0 => n.wrapping_add(1),
                    1 => n ^ (1 << rng.below(8)),
                    _ => 0,
                };
                tag = "U";
            }
            14 if path.len() >= 2 => {
                let j = rng.below(path.len() as u64 - 1) as usize;
                path.swap(j, j + 1);
                tag = "F";
            }
            _ => {
                path.clear();
                peaks.clear();
                tag = "U";
            }
        }
        out.push(format!(
            "mmrp verify {} {} {} {} {} {}",
            tag, idx2, fmt_digest(&leaf2), fmt_digests(&peaks), n2, fmt_digests(&path)
        ));
    }
}

pub fn run_mmrp(op: &str, a: &[Arg], st: &mut Stats) -> Option<Out> {
    Some(match (op, a) {
        ("verify", [tag, i, leaf, peaks, n, path]) => {
            let (tag, i, leaf, peaks, n, path) = (tag.sym()?, i.u64()?, leaf.digest()?, peaks.digests()?, n.u64()?, path.digests()?);
            let v = MmrMembershipProof::new(path.clone()).verify(i, leaf, &peaks, n);
            let r = spec_member_verify(&path, i, leaf, &peaks, n);
            let cls = if i >= n {
                "index>=count"
            } else if peaks.len() != n.count_ones() as usize {
                "wrong-peak-count"
            } else {
                let (h, _) = locate(n, i).unwrap();
                if path.len() < h as usize { "path-too-short" } else if path.len() > h as usize { "path-too-long" } else { "well-formed" }
            };
            st.hit(&format!("verify:{} tag={} -> {}", cls, tag, v));
            st.hit(&format!("verify:bits(count)={}", match 64 - n.leading_zeros() { 0..=8 => "0-8", 9..=32 => "9-32", 33..=62 => "33-62", 63 => "63", _ => "64" }));
            let mut out = Out::ok(format!("ok:{}", v)).with_oracle(v == r, format!("verify={} but the reference verifier says {}", v, r));
            match tag {
                "T" => out = out.with_oracle(v, "valid claim rejected"),
                "F" => out = out.with_oracle(!v, "malformed or altered claim accepted"),
                _ => {}
            }
            out
        }
        ("free_check", [_, _]) => Out::ok("ok:true"), // model-only bounded test; the implementation is checked by the history oracles
        ("hist", [ops]) => {
            let ops = ops.list()?;
            let mut h = Hist { acc: MmrAccumulator::new_from_leafs(vec![]), leaves: vec![], tracked: vec![], fails: vec![] };
            let mut segs = vec![];
            for (k, op) in ops.iter().enumerate() {
                let ret = h.step(k, op, st)?;
                let c: Vec<String> = h.tracked.iter().map(|t| cks(&t.1.authentication_path)).collect();
                segs.push(format!("{};[{}]", ret, c.join(",")));
            }
            st.hit(&format!("hist:final_count_bits={}", 64 - (h.leaves.len() as u64).leading_zeros()));
            st.hit(&format!("hist:ops={}", match ops.len() { 0..=10 => "<=10", 11..=30 => "11-30", _ => ">30" }));
            let proofs: Vec<String> = h.tracked.iter().map(|t| fmt_digests(&t.1.authentication_path)).collect();
            let reply = format!(
                "ok:{}#{}#{}#{}#[{}]",
                segs.join("|"),
                h.acc.num_leafs(),
                fmt_digests(&h.acc.peaks()),
                fmt_list_u64(&h.tracked.iter().map(|t| t.0).collect::<Vec<_>>()),
                proofs.join(",")
            );
            let fail = h.fails.first().cloned();
            Out::ok(reply).with_oracle(fail.is_none(), fail.unwrap_or_default())
        }
        ("bhist", [_, _]) if !in_guarded_child() => {
            if let Arg::Tup(v) = &a[0] {
                if let Some(c) = v.first().and_then(|x| x.u64()) {
                    st.hit(&format!("bhist:start count bits={} peaks={}", match 64 - c.leading_zeros() { 0..=16 => "0-16", 17..=31 => "17-31", 32..=33 => "32-33", 34..=48 => "34-48", _ => "49-63" }, match c.count_ones() { 0..=8 => "0-8", 9..=24 => "9-24", _ => "25-63" }));
                }
            }
            guarded_out("mmrp", op, a, st, "a membership-proof history on MmrAccumulator::init(peaks, large count)")
        }
        ("bhist", [start, ops]) => {
            let Arg::Tup(sv) = start else { return None };
            let (c, peaks) = (sv.first()?.u64()?, sv.get(1)?.digests()?);
            let mut known = vec![];
            for kn in sv.get(2)?.list()? {
                let Arg::Tup(kv) = kn else { return None };
                known.push((kv.first()?.u64()?, kv.get(1)?.digest()?, kv.get(2)?.digests()?));
            }
            let ops = ops.list()?;
            let sp = Sparse::from_known(c, &peaks, &known);
            st.hit(if sp.is_some() { "bhist:start consistent with the materialised leafs" } else { "bhist:start NOT consistent (oracles off)" });
            let mut h = BigHist { acc: MmrAccumulator::init(peaks, c), sp, tracked: vec![], fails: vec![] };
            let mut segs = vec![];
            for (k, op) in ops.iter().enumerate() {
                let ret = h.step(k, op, st)?;
                let cs: Vec<String> = h.tracked.iter().map(|t| cks(&t.1.authentication_path)).collect();
                segs.push(format!("{};[{}]", ret, cs.join(",")));
            }
            let proofs: Vec<String> = h.tracked.iter().map(|t| fmt_digests(&t.1.authentication_path)).collect();
            let reply = format!(
                "ok:{}#{}#{}#{}#[{}]",
                segs.join("|"),
                h.acc.num_leafs(),
                fmt_digests(&h.acc.peaks()),
                fmt_list_u64(&h.tracked.iter().map(|t| t.0).collect::<Vec<_>>()),
                proofs.join(",")
            );
            let fail = h.fails.first().cloned();
            Out::ok(reply).with_oracle(fail.is_none(), fail.unwrap_or_default())
        }
        _ => return super::c05bulk::run_mmrp_more(op, a, st), // bulk / history ops (c05bulk.rs)
    })
}
