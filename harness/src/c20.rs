// PROP: C20  FAMILIES: conv=run_conv
//! C20 -- conversions of `Digest`, `BFieldElement`, `XFieldElement`: bytes, hex, decimal strings, big integers, order,
//! serde forms. Family `conv`. Strings travel as lists of their UTF-8 bytes. Oracles are evaluated on the implementation:
//! round trips, "accepted => canonical and equal to the independently parsed value", "canonical input => accepted".
use crate::util::*;
use num_bigint::BigUint;
use num_traits::{One, Zero};
use std::str::FromStr;
use twenty_first::prelude::*;

fn fmt_bytes(b: &[u8]) -> String {
    fmt_list_u64(&b.iter().map(|&x| x as u64).collect::<Vec<_>>())
}
fn fmt_str(s: &str) -> String {
    fmt_bytes(s.as_bytes())
}
fn arg_bytes(a: &Arg) -> Option<Vec<u8>> {
    a.u64s()?.into_iter().map(|x| u8::try_from(x).ok()).collect()
}
fn arg_str(a: &Arg) -> Option<String> {
    String::from_utf8(arg_bytes(a)?).ok()
}
/// digest operand given by canonical values (non-canonical values are a malformed request)
fn arg_digest(a: &Arg) -> Option<Digest> {
    let v = a.u64s()?;
    if v.len() != 5 || v.iter().any(|&x| x >= P) {
        return None;
    }
    a.digest()
}
fn ok_d(d: &Result<Digest, impl Sized>) -> String {
    match d {
        Ok(d) => format!("ok:{}", fmt_digest(d)),
        Err(_) => "err".into(),
    }
}
fn p5() -> BigUint {
    BigUint::from(P).pow(5)
}
/// base-p positional value, computed here
fn big_of(d: &Digest) -> BigUint {
    let mut acc = BigUint::zero();
    for e in d.values().iter().rev() {
        acc = acc * P + e.value();
    }
    acc
}
/// plain canonical decimal numeral: digits only, no sign, no leading zeros (except "0")
fn plain_decimal(s: &str) -> Option<BigUint> {
    if s.is_empty() || !s.bytes().all(|c| c.is_ascii_digit()) || (s.len() > 1 && s.starts_with('0')) {
        return None;
    }
    BigUint::from_str(s).ok()
}
/// numeric value of an item as liberally as possible (optional '+', leading zeros) -- used for "accepted => equal"
fn liberal_decimal(s: &str) -> Option<BigUint> {
    let t = s.strip_prefix('+').unwrap_or(s);
    if t.is_empty() || !t.bytes().all(|c| c.is_ascii_digit()) {
        return None;
    }
    BigUint::from_str(t).ok()
}

pub fn run_conv(op: &str, a: &[Arg], st: &mut Stats) -> Option<Out> {
    Some(match (op, a) {
        ("d_to_bytes", [x]) => {
            let d = arg_digest(x)?;
            let b: [u8; 40] = d.into();
            let want: Vec<u8> = d.values().iter().flat_map(|e| e.value().to_le_bytes()).collect();
            Out::ok(format!("ok:{}", fmt_bytes(&b))).with_oracle(b[..] == want[..], "bytes are not the LE canonical values")
        }
        ("d_from_bytes", [x]) | ("d_from_array", [x]) => {
            let b = arg_bytes(x)?;
            let r = if op == "d_from_array" {
                let arr: [u8; 40] = b.clone().try_into().ok()?;
                Digest::try_from(arr)
            } else {
                Digest::try_from(&b[..])
            };
            let words: Vec<u64> = b.chunks(8).filter(|c| c.len() == 8).map(|c| u64::from_le_bytes(c.try_into().unwrap())).collect();
            let canonical = b.len() == 40 && words.iter().all(|&w| w < P);
            st.hit(if b.len() != 40 { "bytes:bad-length" } else if canonical { "bytes:canonical" } else { "bytes:element>=P" });
            for (i, &w) in words.iter().enumerate() {
                if b.len() == 40 && w >= P {
                    st.hit(&format!("bytes:noncanonical-at-{i}"));
                }
            }
            let ok = match &r {
                Ok(d) => canonical && <[u8; 40]>::from(*d)[..] == b[..],
                Err(_) => !canonical,
            };
            Out::ok(ok_d(&r)).with_oracle(ok, "bytes parser: accepts exactly canonical 40-byte encodings, losslessly")
        }
        ("d_bytes_roundtrip", [x]) => {
            let d = arg_digest(x)?;
            let b: [u8; 40] = d.into();
            let r = Digest::try_from(b);
            let r2 = Digest::try_from(&b[..]);
            Out::ok(ok_d(&r)).with_oracle(r.as_ref().ok() == Some(&d) && r2.ok() == Some(d), "bytes round trip")
        }
        ("d_from_vec", [x]) => {
            let v = x.bfes()?;
            let r = Digest::try_from(v.clone());
            let r2 = Digest::try_from(&v[..]);
            let ok = match &r {
                Ok(d) => v.len() == 5 && Vec::<BFieldElement>::from(*d) == v,
                Err(_) => v.len() != 5,
            };
            Out::ok(ok_d(&r)).with_oracle(ok && r.is_ok() == r2.is_ok(), "vec parser: exactly five elements")
        }
        ("d_to_hex", [x]) | ("d_to_hex_upper", [x]) => {
            let d = arg_digest(x)?;
            let s = if op == "d_to_hex" { d.to_hex() } else { format!("{d:X}") };
            let back = Digest::try_from_hex(&s);
            let ok = s.len() == 80 && back.ok() == Some(d) && (op != "d_to_hex" || s == format!("{d:x}"));
            Out::ok(format!("ok:{}", fmt_str(&s))).with_oracle(ok, "hex form does not parse back to the digest")
        }
        ("d_from_hex", [x]) => {
            let s = arg_str(x)?;
            let r = Digest::try_from_hex(&s);
            let is_hex = s.bytes().all(|c| c.is_ascii_hexdigit());
            st.hit(if s.len() != 80 { if s.len() % 2 == 1 { "hex:odd-length" } else { "hex:bad-length" } } else if !is_hex { "hex:non-hex-char" } else { "hex:80-hex-chars" });
            if s.bytes().any(|c| c.is_ascii_uppercase()) {
                st.hit("hex:has-uppercase");
            }
            let ok = match &r {
                Ok(d) => s.len() == 80 && is_hex && d.to_hex() == s.to_ascii_lowercase(),
                Err(_) => {
                    // every canonical hex form (either case) must be accepted
                    !(s.len() == 80 && is_hex && (0..5).all(|i| u64::from_str_radix(&le_hex_word(&s[16 * i..16 * i + 16]), 16).map(|w| w < P).unwrap_or(false)))
                }
            };
            Out::ok(ok_d(&r)).with_oracle(ok, "hex parser: accepts exactly 80 hex characters encoding canonical elements, losslessly")
        }
        ("d_hex_roundtrip", [x]) => {
            let d = arg_digest(x)?;
            let r = Digest::try_from_hex(d.to_hex());
            Out::ok(ok_d(&r)).with_oracle(r.as_ref().ok() == Some(&d), "hex round trip")
        }
        ("d_to_string", [x]) => {
            let d = arg_digest(x)?;
            let s = d.to_string();
            let want = d.values().iter().map(|e| e.value().to_string()).collect::<Vec<_>>().join(",");
            if d.values().iter().any(|e| e.value() >= P - 256) {
                st.hit("string:element-within-256-of-p");
            }
            Out::ok(format!("ok:{}", fmt_str(&s)))
                .with_oracle(s == want, "Display is not the comma separated canonical decimal values")
                .with_oracle(Digest::from_str(&s).ok() == Some(d), "to_string does not parse back (F8)")
        }
        ("d_from_str", [x]) => {
            let s = arg_str(x)?;
            let r = Digest::from_str(&s);
            let items: Vec<&str> = s.split(',').collect();
            let plain: Option<Vec<BigUint>> = items.iter().map(|t| plain_decimal(t)).collect();
            let canonical = items.len() == 5 && plain.as_ref().map(|v| v.iter().all(|x| *x < BigUint::from(P))).unwrap_or(false);
            st.hit(if canonical { "str:canonical" } else if items.len() != 5 { "str:count!=5" } else if plain.is_none() { "str:non-plain-item" } else { "str:value>=P" });
            let ok = match &r {
                Ok(d) => {
                    let lib: Option<Vec<BigUint>> = items.iter().map(|t| liberal_decimal(t)).collect();
                    items.len() == 5
                        && lib.map(|v| v.iter().zip(d.values()).all(|(x, e)| *x == BigUint::from(e.value()) && *x < BigUint::from(P))).unwrap_or(false)
                }
                Err(_) => !canonical,
            };
            Out::ok(ok_d(&r)).with_oracle(ok, "string parser: five items, each the decimal numeral of a value < P, no reduction")
        }
        ("d_str_roundtrip", [x]) => {
            let d = arg_digest(x)?;
            let r = Digest::from_str(&d.to_string());
            Out::ok(ok_d(&r)).with_oracle(r.as_ref().ok() == Some(&d), "string round trip (F8)")
        }
        ("d_to_big", [x]) => {
            let d = arg_digest(x)?;
            let b: BigUint = d.into();
            Out::ok(format!("ok:{b}")).with_oracle(b == big_of(&d), "Into<BigUint> is not the base-p positional value").with_oracle(b < p5(), "value >= p^5")
        }
        ("d_from_big", [x]) => {
            let ds: Vec<u32> = x.u64s()?.into_iter().map(|v| u32::try_from(v).ok()).collect::<Option<_>>()?;
            let b = BigUint::new(ds);
            let r = Digest::try_from(b.clone());
            st.hit(if b < p5() { "big:<p^5" } else if b == p5() { "big:=p^5" } else { "big:>p^5" });
            let ok = match &r {
                Ok(d) => b < p5() && big_of(d) == b,
                Err(_) => b >= p5(),
            };
            Out::ok(ok_d(&r)).with_oracle(ok, "big-integer parser: accepts exactly values < p^5, losslessly")
        }
        ("d_big_roundtrip", [x]) => {
            let d = arg_digest(x)?;
            let r = Digest::try_from(BigUint::from(d));
            Out::ok(ok_d(&r)).with_oracle(r.as_ref().ok() == Some(&d), "big-integer round trip")
        }
        ("d_cmp", [x, y]) => {
            let (d1, d2) = (arg_digest(x)?, arg_digest(y)?);
            let o = d1.cmp(&d2);
            let want = big_of(&d1).cmp(&big_of(&d2));
            // which is the most significant differing position
            let top = (0..5).rev().find(|&i| d1.values()[i] != d2.values()[i]);
            st.hit(&format!("cmp:top-difference-at-{}", top.map(|i| i.to_string()).unwrap_or("none".into())));
            let s = match o {
                std::cmp::Ordering::Less => "lt",
                std::cmp::Ordering::Equal => "eq",
                std::cmp::Ordering::Greater => "gt",
            };
            Out::ok(format!("ok:{s}"))
                .with_oracle(o == want, "digest order differs from the order of the big-integer values")
                .with_oracle(d1.partial_cmp(&d2) == Some(o) && (d1 < d2) == (o == std::cmp::Ordering::Less), "partial_cmp inconsistent")
        }
        ("d_reversed", [x]) => {
            let d = arg_digest(x)?;
            let r = d.reversed();
            let v = d.values();
            Out::ok(format!("ok:{}", fmt_digest(&r)))
                .with_oracle((0..5).all(|i| r.values()[i] == v[4 - i]), "reversed: element i is not element 4-i")
                .with_oracle(r.reversed() == d, "reversed is not an involution")
        }
        ("d_default", []) => {
            let d = Digest::default();
            Out::ok(format!("ok:{}", fmt_digest(&d)))
                .with_oracle(d.values().iter().all(|e| e.value() == 0 && e.raw_u64() == 0), "default digest is not all-zero")
                .with_oracle(BigUint::from(d).is_zero(), "default digest is not the least digest")
        }
        ("d_to_vec", [x]) => {
            let d = arg_digest(x)?;
            let v: Vec<BFieldElement> = d.into();
            Out::ok(format!("ok:{}", fmt_bfes(&v)))
                .with_oracle(v.len() == Digest::LEN && v == d.values().to_vec() && Digest::new(d.values()) == d, "Vec / values / new disagree")
                .with_oracle(Digest::try_from(v.clone()).ok() == Some(d), "Vec round trip")
        }
        ("d_consts", []) => Out::ok(format!("ok:[{},{}]", Digest::LEN, Digest::BYTES))
            .with_oracle(Digest::BYTES == 40 && Digest::LEN == 5 && std::mem::size_of::<Digest>() == 40, "Digest::LEN / BYTES"),
        ("bfe_to_bytes", [v]) => {
            let e = BFieldElement::new(v.u64()?);
            let b: [u8; 8] = e.into();
            Out::ok(format!("ok:{}", fmt_bytes(&b)))
                .with_oracle(b == e.value().to_le_bytes(), "element bytes are not the LE canonical value")
                .with_oracle(BFieldElement::try_from(b).ok() == Some(e) && BFieldElement::try_from(&b[..]).ok() == Some(e), "element byte round trip")
        }
        ("bfe_from_bytes", [x]) | ("bfe_from_array", [x]) => {
            let b = arg_bytes(x)?;
            let r = if op == "bfe_from_array" {
                let arr: [u8; 8] = b.clone().try_into().ok()?;
                BFieldElement::try_from(arr)
            } else {
                BFieldElement::try_from(&b[..])
            };
            let canonical = b.len() == 8 && u64::from_le_bytes(b.clone().try_into().unwrap()) < P;
            st.hit(if b.len() != 8 { "bfe-bytes:bad-length" } else if canonical { "bfe-bytes:canonical" } else { "bfe-bytes:>=P" });
            let ok = match &r {
                Ok(e) => canonical && e.value().to_le_bytes()[..] == b[..],
                Err(_) => !canonical,
            };
            let s = match &r {
                Ok(e) => format!("ok:{}", e.value()),
                Err(_) => "err".into(),
            };
            Out::ok(s).with_oracle(ok, "element byte parser: exactly 8 bytes of a value < P")
        }
        ("bfe_from_str", [x]) => {
            let s = arg_str(x)?;
            let r = BFieldElement::from_str(&s);
            let plain = plain_decimal(&s);
            let canonical = plain.as_ref().map(|v| *v < BigUint::from(P)).unwrap_or(false);
            st.hit(if canonical { "bfe-str:canonical" } else if plain.is_some() { "bfe-str:value>=P" } else { "bfe-str:non-plain" });
            let ok = match &r {
                Ok(e) => liberal_decimal(&s).map(|v| v == BigUint::from(e.value())).unwrap_or(false),
                Err(_) => !canonical,
            };
            let out = match &r {
                Ok(e) => format!("ok:{}", e.value()),
                Err(_) => "err".into(),
            };
            Out::ok(out).with_oracle(ok, "element string parser: decimal numeral of a value < P, no reduction")
        }
        ("bfe_str_roundtrip", [v]) => {
            let e = BFieldElement::new(v.u64()?);
            let r = BFieldElement::from_str(&e.value().to_string());
            let out = match &r {
                Ok(e) => format!("ok:{}", e.value()),
                Err(_) => "err".into(),
            };
            Out::ok(out).with_oracle(r.ok() == Some(e), "element canonical-string round trip")
        }
        ("u64_to_string", [v]) => Out::ok(format!("ok:{}", fmt_str(&v.u64()?.to_string()))),
        ("x_to_digest", [x]) => {
            let x = x.xfe()?;
            let d: Digest = x.into();
            Out::ok(format!("ok:{}", fmt_digest(&d))).with_oracle(XFieldElement::try_from(d).ok() == Some(x), "XFieldElement -> Digest -> XFieldElement")
        }
        ("x_from_digest", [x]) => {
            let d = arg_digest(x)?;
            let r = XFieldElement::try_from(d);
            let tail_zero = d.values()[3].value() == 0 && d.values()[4].value() == 0;
            st.hit(if tail_zero { "xfe:tail-zero" } else { "xfe:tail-nonzero" });
            let ok = match &r {
                Ok(x) => tail_zero && Digest::from(*x) == d,
                Err(_) => !tail_zero,
            };
            let out = match &r {
                Ok(x) => format!("ok:{}", fmt_xfe(x)),
                Err(_) => "err".into(),
            };
            Out::ok(out).with_oracle(ok, "embedding invertible exactly on digests whose last two elements are zero")
        }
        ("json_d", [x]) => {
            let d = arg_digest(x)?;
            let s = serde_json::to_string(&d).ok()?;
            let back: Option<Digest> = serde_json::from_str(&s).ok();
            // every entry point of the deserializer must agree: borrowed input (from_str / from_slice), a reader (no
            // borrowing possible), a Value tree, an escaped string (forces an owned string), and inside containers
            let via_slice: Option<Digest> = serde_json::from_slice(s.as_bytes()).ok();
            let via_reader: Option<Digest> = serde_json::from_reader(std::io::Cursor::new(s.as_bytes().to_vec())).ok();
            let via_value: Option<Digest> = serde_json::to_value(d).ok().and_then(|v| serde_json::from_value(v).ok());
            let escaped = format!("\"\\u00{:02x}{}", s.as_bytes()[1], &s[2..]);
            let via_escaped: Option<Digest> = serde_json::from_str(&escaped).ok();
            let in_vec: Option<Vec<Digest>> = serde_json::from_reader(std::io::Cursor::new(format!("[{s},{s}]").into_bytes())).ok();
            let in_map: Option<std::collections::BTreeMap<String, Digest>> = serde_json::from_str(&format!("{{\"k\":{s}}}")).ok();
            let all = via_slice == Some(d) && via_reader == Some(d) && via_value == Some(d) && via_escaped == Some(d)
                && in_vec == Some(vec![d, d]) && in_map.map(|m| m.get("k").copied()) == Some(Some(d));
            Out::ok(format!("ok:{}", fmt_str(&s)))
                .with_oracle(back == Some(d), "serde_json round trip of a digest")
                .with_oracle(all, "serde_json: from_slice / from_reader / from_value / escaped string / inside Vec or map do not all give the digest back")
        }
        ("json_d_de", [x]) => {
            let s = arg_str(x)?;
            if s.bytes().any(|c| c == b'"' || c == b'\\' || c < 0x20) {
                return None;
            }
            let r: Result<Digest, _> = serde_json::from_str(&format!("\"{s}\""));
            let ok = match &r {
                Ok(d) => d.to_hex() == s.to_ascii_lowercase(),
                Err(_) => Digest::try_from_hex(&s).is_err(),
            };
            Out::ok(ok_d(&r)).with_oracle(ok, "serde_json digest parser differs from try_from_hex")
        }
        ("bincode_d", [x]) => {
            let d = arg_digest(x)?;
            let b = bincode::serialize(&d).ok()?;
            let back: Option<Digest> = bincode::deserialize(&b).ok();
            Out::ok(format!("ok:{}", fmt_bytes(&b))).with_oracle(back == Some(d), "bincode round trip of a digest")
        }
        ("bincode_d_de", [x]) => {
            let b = arg_bytes(x)?;
            let r: Result<Digest, _> = bincode::deserialize(&b);
            Out::ok(ok_d(&r))
        }
        ("json_bfe", [v]) => {
            let e = BFieldElement::new(v.u64()?);
            let s = serde_json::to_string(&e).ok()?;
            let back: Option<BFieldElement> = serde_json::from_str(&s).ok();
            let via_reader: Option<BFieldElement> = serde_json::from_reader(std::io::Cursor::new(s.as_bytes().to_vec())).ok();
            let via_value: Option<BFieldElement> = serde_json::to_value(e).ok().and_then(|v| serde_json::from_value(v).ok());
            Out::ok(format!("ok:{}", fmt_str(&s)))
                .with_oracle(back == Some(e), "serde_json round trip of an element")
                .with_oracle(via_reader == Some(e) && via_value == Some(e), "serde_json: from_reader / from_value do not give the element back")
        }
        ("json_bfe_de", [x]) => {
            let ds: Vec<u32> = x.u64s()?.into_iter().map(|v| u32::try_from(v).ok()).collect::<Option<_>>()?;
            let v = BigUint::new(ds);
            let r: Result<BFieldElement, _> = serde_json::from_str(&v.to_string());
            st.hit(if v < BigUint::from(P) { "json-bfe:canonical" } else if v <= BigUint::from(u64::MAX) { "json-bfe:>=P(reduced)" } else { "json-bfe:>u64" });
            Out::ok(match &r {
                Ok(e) => format!("ok:{}", e.value()),
                Err(_) => "err".into(),
            })
        }
        ("bincode_bfe", [v]) => {
            let e = BFieldElement::new(v.u64()?);
            let b = bincode::serialize(&e).ok()?;
            let back: Option<BFieldElement> = bincode::deserialize(&b).ok();
            Out::ok(format!("ok:{}", fmt_bytes(&b))).with_oracle(back == Some(e), "bincode round trip of an element")
        }
        ("bincode_bfe_de", [x]) => {
            let b = arg_bytes(x)?;
            let r: Result<BFieldElement, _> = bincode::deserialize(&b);
            Out::ok(match &r {
                Ok(e) => format!("ok:{}", e.value()),
                Err(_) => "err".into(),
            })
        }
        _ => return None,
    })
}

/// 16 hex characters of a little-endian u64 -> big-endian hex numeral
fn le_hex_word(s: &str) -> String {
    let b = s.as_bytes();
    let mut out = String::new();
    for i in (0..8).rev() {
        out.push(b[2 * i] as char);
        out.push(b[2 * i + 1] as char);
    }
    out
}

// ---- generators ------------------------------------------------------------------------------------------------

/// canonical element value, boundary directed (many within 256 of p: the F8 class)
fn cval(rng: &mut Rng) -> u64 {
    match rng.below(8) {
        0 => P - 1 - rng.below(300),
        1 => rng.below(300),
        2 => *rng.pick(&[0u64, 1, P - 1, P - 2, P - 256, P - 257, 255, 256, 257, 0xffff_ffff, 1 << 32, (1 << 32) + 1, 1 << 63]),
        _ => rng.fval(),
    }
}
/// u64 word around the canonical boundary
fn wword(rng: &mut Rng) -> u64 {
    match rng.below(6) {
        0 => *rng.pick(&[P - 1, P, P + 1, u64::MAX, u64::MAX - 1, 0xffff_ffff_0000_0000, 0xffff_ffff_ffff_0000]),
        1 => P + rng.below(0xffff_ffff),
        _ => cval(rng),
    }
}
fn cdigest(rng: &mut Rng) -> Vec<u64> {
    match rng.below(6) {
        0 => vec![0; 5],
        1 => vec![P - 1; 5],
        _ => (0..5).map(|_| cval(rng)).collect(),
    }
}
fn digits32(b: &BigUint) -> Vec<u64> {
    b.to_u32_digits().into_iter().map(|x| x as u64).collect()
}

pub fn gen(rng: &mut Rng, thorough: bool, out: &mut Vec<String>) {
    let f = fmt_list_u64;
    let fs = |s: &str| fmt_str(s);
    // ---- directed: p-1, p, 2^64-1 in each of the five positions, for bytes / hex / strings
    for pos in 0..5 {
        for w in [P - 1, P, P + 1, u64::MAX, 0, P - 256, P - 255] {
            let mut words = vec![1u64, 2, 3, 4, 5];
            words[pos] = w;
            let bytes: Vec<u8> = words.iter().flat_map(|x| x.to_le_bytes()).collect();
            out.push(format!("conv d_from_bytes {}", fmt_bytes(&bytes)));
            out.push(format!("conv d_from_array {}", fmt_bytes(&bytes)));
            out.push(format!("conv d_from_hex {}", fs(&hex::encode(&bytes))));
            out.push(format!("conv d_from_hex {}", fs(&hex::encode_upper(&bytes))));
            out.push(format!("conv json_d_de {}", fs(&hex::encode(&bytes))));
            out.push(format!("conv bincode_d_de {}", fmt_bytes(&bytes)));
            let s = words.iter().map(|x| x.to_string()).collect::<Vec<_>>().join(",");
            out.push(format!("conv d_from_str {}", fs(&s)));
            if w < P {
                for op in ["d_to_bytes", "d_to_hex", "d_to_hex_upper", "d_to_string", "d_str_roundtrip", "d_to_big", "d_big_roundtrip", "json_d", "bincode_d"] {
                    out.push(format!("conv {} {}", op, f(&words)));
                }
            }
        }
    }
    // accessors / constructors (C20 audit)
    out.push("conv d_default".into());
    out.push("conv d_consts".into());
    for words in [[0u64, 0, 0, 0, 0], [1, 2, 3, 4, 5], [P - 1, 0, 0, 0, 0], [0, 0, 0, 0, P - 1], [P - 1, P - 2, P - 3, 1, 0], [7, 7, 7, 7, 7]] {
        out.push(format!("conv d_reversed {}", f(&words)));
        out.push(format!("conv d_to_vec {}", f(&words)));
    }
    for _ in 0..(if thorough { 400 } else { 40 }) {
        let d = rng.digest();
        let w: Vec<u64> = d.values().iter().map(|e| e.value()).collect();
        out.push(format!("conv {} {}", if rng.coin(1, 2) { "d_reversed" } else { "d_to_vec" }, f(&w)));
    }
    // big integers around p^5 and p^k
    let p = BigUint::from(P);
    for k in 0..=5u32 {
        for d in [-2i32, -1, 0, 1, 2] {
            let base = p.pow(k);
            let v = if d < 0 {
                if base < BigUint::from((-d) as u32) { continue } else { &base - (-d) as u32 }
            } else {
                &base + d as u32
            };
            out.push(format!("conv d_from_big {}", f(&digits32(&v))));
        }
    }
    out.push(format!("conv d_from_big {}", f(&digits32(&(BigUint::one() << 320)))));
    out.push(format!("conv d_from_big {}", f(&digits32(&((BigUint::one() << 320) - 1u32)))));
    out.push(format!("conv d_from_big {}", f(&digits32(&(p.pow(5) * 3u32 + 7u32)))));
    // strings: the malformed catalogue
    for s in [
        "", ",", ",,,,", "1,2,3,4", "1,2,3,4,5,6", "1,2,3,4,5,", ",1,2,3,4,5", "1,2,3,4,5", "+1,2,3,4,5", "1,2,3,4,+5", "-1,2,3,4,5",
        "1,2,3,4,-0", " 1,2,3,4,5", "1, 2,3,4,5", "1,2,3,4,5 ", "1,2,3,4,5\n", "01,002,0003,00004,000000000000000000000000000005",
        "1,,3,4,5", "1,2,3,4,+", "1,2,3,4,-", "1,2,3,4,++5", "1,2,3,4,5a", "1,2,3,4,0x5", "1,2,3,4,５", "1,2,3,4,٥",
        "18446744069414584320,0,0,0,0", "18446744069414584321,0,0,0,0", "0,0,0,0,18446744073709551615", "0,0,0,0,18446744073709551616",
        "0,0,0,0,99999999999999999999999999", "-1,-2,-3,-4,-5", "1;2;3;4;5", "1.0,2,3,4,5", "1e3,2,3,4,5", "1_000,2,3,4,5",
    ] {
        out.push(format!("conv d_from_str {}", fs(s)));
    }
    for s in ["", "0", "+0", "-0", "+", "-", "00", "007", " 7", "7 ", "18446744069414584320", "18446744069414584321", "+18446744069414584320",
        "018446744069414584320", "18446744073709551615", "18446744073709551616", "1８", "0x10", "1e2", "-1", "++1", "+-1", "12a", "a12"] {
        out.push(format!("conv bfe_from_str {}", fs(s)));
    }
    // hex: the malformed catalogue
    let good = hex::encode([7u8; 40]);
    for s in [
        "".to_string(), "0".to_string(), good[..79].to_string(), good[..78].to_string(), format!("{good}0"), format!("{good}00"), format!("0x{good}"),
        format!("0x{}", &good[2..]), good.replace('7', "g"), format!("{}G", &good[..79]), format!(" {}", &good[1..]), good.to_uppercase(),
        format!("{}é", &good[..78]), format!("{}+", &good[..79]),
    ] {
        out.push(format!("conv d_from_hex {}", fs(&s)));
        if !s.contains('"') {
            out.push(format!("conv json_d_de {}", fs(&s)));
        }
    }
    for len in [0usize, 1, 7, 8, 9, 39, 40, 41, 80] {
        out.push(format!("conv d_from_bytes {}", fmt_bytes(&vec![1u8; len])));
        out.push(format!("conv bfe_from_bytes {}", fmt_bytes(&vec![1u8; len])));
        out.push(format!("conv bincode_d_de {}", fmt_bytes(&vec![1u8; len])));
        out.push(format!("conv bincode_bfe_de {}", fmt_bytes(&vec![1u8; len])));
        out.push(format!("conv d_from_vec {}", f(&vec![1u64; len.min(9)])));
    }
    for w in [0u64, 1, P - 1, P, P + 1, u64::MAX] {
        out.push(format!("conv bfe_from_bytes {}", fmt_bytes(&w.to_le_bytes())));
        out.push(format!("conv bfe_from_array {}", fmt_bytes(&w.to_le_bytes())));
        out.push(format!("conv bincode_bfe_de {}", fmt_bytes(&w.to_le_bytes())));
        out.push(format!("conv json_bfe_de {}", f(&digits32(&BigUint::from(w)))));
        out.push(format!("conv u64_to_string {}", w));
    }
    out.push(format!("conv json_bfe_de {}", f(&digits32(&(BigUint::one() << 64)))));
    out.push(format!("conv json_bfe_de {}", f(&digits32(&(BigUint::one() << 70)))));

    let n = if thorough { 2_000_000 } else { 5_000 };
    for _ in 0..n {
        let d = cdigest(rng);
        match rng.below(30) {
            0 => out.push(format!("conv {} {}", rng.pick(&["d_to_bytes", "d_bytes_roundtrip", "bincode_d"]), f(&d))),
            1 => out.push(format!("conv {} {}", rng.pick(&["d_to_hex", "d_to_hex_upper", "d_hex_roundtrip", "json_d"]), f(&d))),
            2 | 3 => out.push(format!("conv {} {}", rng.pick(&["d_to_string", "d_str_roundtrip"]), f(&d))),
            4 => out.push(format!("conv {} {}", rng.pick(&["d_to_big", "d_big_roundtrip"]), f(&d))),
            5 | 6 | 7 => {
                // order: ties in the most significant elements
                let mut e = cdigest(rng);
                let k = rng.below(6) as usize; // copy the top k elements
                for i in (5 - k)..5 {
                    e[i] = d[i];
                }
                if k < 5 && rng.coin(1, 2) {
                    // adjacent values in the top differing element
                    let i = 4 - k;
                    e[i] = if d[i] + 1 < P && rng.coin(1, 2) { d[i] + 1 } else { d[i].saturating_sub(1) };
                }
                out.push(format!("conv d_cmp {} {}", f(&d), f(&e)));
            }
            8 | 9 | 10 => {
                // bytes: mostly valid, one word replaced around the canonical boundary, or wrong length
                let mut words = d.clone();
                if rng.coin(2, 3) {
                    let i = rng.below(5) as usize;
                    words[i] = wword(rng);
                }
                let mut bytes: Vec<u8> = words.iter().flat_map(|x| x.to_le_bytes()).collect();
                match rng.below(8) {
                    0 => {
                        bytes.pop();
                    }
                    1 => bytes.push(rng.below(256) as u8),
                    2 => bytes.truncate(rng.below(41) as usize),
                    _ => {}
                }
                let op = if bytes.len() == 40 && rng.coin(1, 3) { "d_from_array" } else if rng.coin(1, 6) { "bincode_d_de" } else { "d_from_bytes" };
                out.push(format!("conv {} {}", op, fmt_bytes(&bytes)));
            }
            11 | 12 | 13 => {
                // hex: mutations of a valid (or boundary) encoding
                let mut words = d.clone();
                if rng.coin(1, 2) {
                    let i = rng.below(5) as usize;
                    words[i] = wword(rng);
                }
                let bytes: Vec<u8> = words.iter().flat_map(|x| x.to_le_bytes()).collect();
                let mut s = if rng.coin(1, 3) { hex::encode_upper(&bytes) } else { hex::encode(&bytes) };
                match rng.below(10) {
                    0 => {
                        s.pop();
                    }
                    1 => s.push(*rng.pick(&['0', 'f', 'F', 'g', ' '])),
                    2 => {
                        let i = rng.below(s.len() as u64) as usize;
                        let c = *rng.pick(&["g", "G", " ", "x", "-", "+", ":", "@", "`", "/"]);
                        s.replace_range(i..i + 1, c);
                    }
                    3 => {
                        // mixed case
                        s = s.chars().map(|c| if rng.coin(1, 2) { c.to_ascii_uppercase() } else { c.to_ascii_lowercase() }).collect();
                    }
                    4 => s.truncate(2 * rng.below(41) as usize),
                    5 => s = format!("0x{s}"),
                    _ => {}
                }
                let op = if rng.coin(1, 5) { "json_d_de" } else { "d_from_hex" };
                out.push(format!("conv {} {}", op, fs(&s)));
            }
            14 | 15 | 16 | 17 => {
                // strings: mutations of a valid (or boundary) string
                let mut items: Vec<String> = d.iter().map(|x| x.to_string()).collect();
                match rng.below(14) {
                    0 => {
                        let i = rng.below(5) as usize;
                        items[i] = wword(rng).to_string();
                    }
                    1 => {
                        let i = rng.below(5) as usize;
                        items[i] = format!("{}", (wword(rng) as u128) + (rng.below(3) as u128) * (u64::MAX as u128));
                    }
                    2 => {
                        let i = rng.below(5) as usize;
                        items[i] = format!("+{}", items[i]);
                    }
                    3 => {
                        let i = rng.below(5) as usize;
                        items[i] = format!("-{}", P - d[i].max(1));
                    }
                    4 => {
                        let i = rng.below(5) as usize;
                        items[i] = format!("{}{}", "0".repeat(1 + rng.below(25) as usize), items[i]);
                    }
                    5 => {
                        let i = rng.below(5) as usize;
                        items[i] = format!("{}{}{}", if rng.coin(1, 2) { " " } else { "" }, items[i], if rng.coin(1, 2) { " " } else { "\t" });
                    }
                    6 => {
                        let i = rng.below(5) as usize;
                        items[i] = String::new();
                    }
                    7 => {
                        items.pop();
                    }
                    8 => items.push(cval(rng).to_string()),
                    9 => {
                        let i = rng.below(5) as usize;
                        let j = rng.below(items[i].len() as u64 + 1) as usize;
                        items[i].insert(j, *rng.pick(&['a', '_', '.', 'e', '/', ':', '-', '+']));
                    }
                    _ => {}
                }
                let sep = if rng.coin(1, 40) { ", " } else { "," };
                out.push(format!("conv d_from_str {}", fs(&items.join(sep))));
            }
            18 | 19 => {
                // big integers: p^5 + small, random below / above
                let v = match rng.below(5) {
                    0 => p.pow(5) - 1u32 - rng.below(3),
                    1 => p.pow(5) + rng.below(3),
                    2 => {
                        let mut acc = BigUint::zero();
                        for x in d.iter().rev() {
                            acc = acc * P + *x;
                        }
                        acc
                    }
                    3 => p.pow(rng.below(6) as u32) * wword(rng),
                    _ => BigUint::new((0..rng.below(12)).map(|_| rng.next() as u32).collect()),
                };
                out.push(format!("conv d_from_big {}", f(&digits32(&v))));
            }
            20 => {
                let v = cval(rng);
                out.push(format!("conv {} {}", rng.pick(&["bfe_to_bytes", "bfe_str_roundtrip", "json_bfe", "bincode_bfe"]), v));
            }
            21 => {
                let mut b = wword(rng).to_le_bytes().to_vec();
                match rng.below(6) {
                    0 => {
                        b.pop();
                    }
                    1 => b.push(0),
                    _ => {}
                }
                let op = if b.len() == 8 && rng.coin(1, 3) { "bfe_from_array" } else if rng.coin(1, 5) { "bincode_bfe_de" } else { "bfe_from_bytes" };
                out.push(format!("conv {} {}", op, fmt_bytes(&b)));
            }
            22 | 23 => {
                let w = wword(rng);
                let s = match rng.below(8) {
                    0 => format!("+{w}"),
                    1 => format!("0{w}"),
                    2 => format!("-{}", w),
                    3 => format!("{}", w as u128 + u64::MAX as u128),
                    4 => format!(" {w}"),
                    _ => w.to_string(),
                };
                out.push(format!("conv bfe_from_str {}", fs(&s)));
            }
            24 => {
                let w = wword(rng);
                let v = if rng.coin(1, 6) { BigUint::from(w) + BigUint::from(u64::MAX) } else { BigUint::from(w) };
                out.push(format!("conv json_bfe_de {}", f(&digits32(&v))));
            }
            25 => out.push(format!("conv u64_to_string {}", wword(rng))),
            26 | 27 => {
                let mut e = d.clone();
                if rng.coin(2, 3) {
                    e[3] = 0;
                    e[4] = 0;
                } else if rng.coin(1, 2) {
                    e[3] = 0;
                    e[4] = *rng.pick(&[1u64, P - 1]);
                } else if rng.coin(1, 2) {
                    e[4] = 0;
                    e[3] = *rng.pick(&[1u64, P - 1]);
                }
                out.push(format!("conv x_from_digest {}", f(&e)));
            }
            28 => out.push(format!("conv x_to_digest ({};{};{})", d[0], d[1], d[2])),
            _ => {
                let len = *rng.pick(&[0u64, 4, 5, 5, 5, 6]);
                let v: Vec<u64> = (0..len).map(|_| cval(rng)).collect();
                out.push(format!("conv d_from_vec {}", f(&v)));
            }
        }
    }
}
