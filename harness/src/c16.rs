// PROP: C16  FAMILIES: mmri=run_mmri
//! C16 -- MMR index arithmetic (`shared_basic.rs`, `shared_advanced.rs`) against the explicit forest of perfect trees.
//!
//! Family `mmri`: one op per public function, plus `forest n` (the whole table of an MMR with `n` leaves).
//! Oracles evaluated on the implementation, independent of the Lean model:
//!  * `S0`  -- the forest built by appending leaves and merging equal heights, nodes numbered by a running counter
//!             (no index arithmetic at all); the `forest` op compares every function with it.
//!  * `s1_locate` -- binary descent in the infinite post-order numbered left-spine tree (u128 arithmetic), used for
//!             the single-function ops on values up to 2^64-1.
use crate::util::*;
use twenty_first::util_types::mmr::shared_advanced as sa;
use twenty_first::util_types::mmr::shared_basic as sb;

// ---------------------------------------------------------------------------------------------- S0
#[derive(Clone, Default)]
struct S0Node {
    height: u32,
    parent: u64,
    left: u64,
    right: u64,
    leaf: Option<u64>,
}
struct S0 {
    nodes: Vec<S0Node>, // 1-indexed, nodes[0] unused
    roots: Vec<u64>,    // highest first
    leafs: u64,
}
impl S0 {
    fn new() -> S0 {
        S0 { nodes: vec![S0Node::default()], roots: vec![], leafs: 0 }
    }
    fn append(&mut self) -> Vec<u64> {
        let mut added = vec![];
        let idx = self.nodes.len() as u64;
        self.nodes.push(S0Node { height: 0, parent: 0, left: 0, right: 0, leaf: Some(self.leafs) });
        self.leafs += 1;
        self.roots.push(idx);
        added.push(idx);
        while self.roots.len() >= 2 {
            let r = self.roots[self.roots.len() - 1];
            let l = self.roots[self.roots.len() - 2];
            if self.nodes[l as usize].height != self.nodes[r as usize].height {
                break;
            }
            let p = self.nodes.len() as u64;
            let h = self.nodes[l as usize].height + 1;
            self.nodes.push(S0Node { height: h, parent: 0, left: l, right: r, leaf: None });
            self.nodes[l as usize].parent = p;
            self.nodes[r as usize].parent = p;
            self.roots.pop();
            self.roots.pop();
            self.roots.push(p);
            added.push(p);
        }
        added
    }
    fn build(n: u64) -> S0 {
        let mut s = S0::new();
        for _ in 0..n {
            s.append();
        }
        s
    }
    fn is_right(&self, i: u64) -> bool {
        let p = self.nodes[i as usize].parent;
        p != 0 && self.nodes[p as usize].right == i
    }
    fn sibling(&self, i: u64) -> u64 {
        let p = self.nodes[i as usize].parent;
        if p == 0 {
            0
        } else if self.nodes[p as usize].right == i {
            self.nodes[p as usize].left
        } else {
            self.nodes[p as usize].right
        }
    }
    fn rll(&self, mut i: u64) -> u64 {
        let mut c = 0;
        while self.is_right(i) {
            c += 1;
            i = self.nodes[i as usize].parent;
        }
        c
    }
    /// (merkle tree index, peak index, auth path) of a node
    fn position(&self, mut i: u64) -> (u64, u64, Vec<u64>) {
        let mut bits = vec![];
        let mut auth = vec![];
        while self.nodes[i as usize].parent != 0 {
            bits.push(self.is_right(i));
            auth.push(self.sibling(i));
            i = self.nodes[i as usize].parent;
        }
        let mut mt = 1u64;
        for b in bits.iter().rev() {
            mt = 2 * mt + *b as u64;
        }
        let pk = self.roots.iter().position(|r| *r == i).unwrap() as u64;
        (mt, pk, auth)
    }
    fn table(&self) -> String {
        let n_nodes = self.nodes.len() as u64 - 1;
        let heights: Vec<u64> = self.roots.iter().map(|r| self.nodes[*r as usize].height as u64).collect();
        let mut next = S0 { nodes: self.nodes.clone(), roots: self.roots.clone(), leafs: self.leafs };
        let added = next.append();
        let mut leaf_rows = vec![];
        let mut node_rows = vec![];
        for i in 1..=n_nodes {
            let nd = &self.nodes[i as usize];
            let r = self.rll(i);
            if let Some(li) = nd.leaf {
                let (mt, pk, auth) = self.position(i);
                leaf_rows.push(format!("({};{};{};{};{};{})", li, i, mt, pk, r, fmt_list_u64(&auth)));
            }
            node_rows.push(format!(
                "({};{};{};{};{};{};{};{};{})",
                i,
                nd.height,
                r,
                r,
                nd.parent,
                self.sibling(i),
                nd.left,
                nd.right,
                nd.leaf.map(|l| l + 1).unwrap_or(0)
            ));
        }
        format!(
            "ok:{} {} {} {} [{}] [{}]",
            n_nodes,
            fmt_list_u64(&heights),
            fmt_list_u64(&self.roots),
            fmt_list_u64(&added),
            leaf_rows.join(","),
            node_rows.join(",")
        )
    }
}

/// the same table computed with the real index functions
fn impl_table(n: u64) -> String {
    let n_nodes = sa::num_leafs_to_num_nodes(n);
    let (heights, peak_idx) = sa::get_peak_heights_and_peak_node_indices(n);
    let heights2 = sa::get_peak_heights(n);
    let added = sa::node_indices_added_by_append(n);
    let mut leaf_rows = vec![];
    for li in 0..n {
        let ni = sa::leaf_index_to_node_index(li);
        let (mt, pk) = sb::leaf_index_to_mt_index_and_peak_index(li, n);
        let r = sb::right_lineage_length_from_leaf_index(li);
        let auth = sa::get_authentication_path_node_indices(ni, peak_idx[pk as usize], n_nodes);
        let auth = match auth {
            Some(a) => fmt_list_u64(&a),
            None => "none".into(),
        };
        leaf_rows.push(format!("({};{};{};{};{};{})", li, ni, mt, pk, r, auth));
    }
    let mut node_rows = vec![];
    for i in 1..=n_nodes {
        let (r, h) = sa::right_lineage_length_and_own_height(i);
        let r2 = sa::right_lineage_length_from_node_index(i);
        let is_peak = peak_idx.contains(&i);
        let parent = if is_peak { 0 } else { sa::parent(i) };
        let sibling = if is_peak {
            0
        } else if r != 0 {
            sa::left_sibling(i, h)
        } else {
            sa::right_sibling(i, h)
        };
        let (l, rc) = if h > 0 { (sb::left_child(i, h), sb::right_child(i)) } else { (0, 0) };
        let lf = sa::node_index_to_leaf_index(i).map(|l| l + 1).unwrap_or(0);
        node_rows.push(format!("({};{};{};{};{};{};{};{};{})", i, h, r, r2, parent, sibling, l, rc, lf));
    }
    let hs: Vec<u64> = heights.iter().map(|h| *h as u64).collect();
    let hs2: Vec<u64> = heights2.iter().map(|h| *h as u64).collect();
    let hs_txt = if hs == hs2 { fmt_list_u64(&hs) } else { format!("{}!={}", fmt_list_u64(&hs), fmt_list_u64(&hs2)) };
    format!(
        "ok:{} {} {} {} [{}] [{}]",
        n_nodes,
        hs_txt,
        fmt_list_u64(&peak_idx),
        fmt_list_u64(&added),
        leaf_rows.join(","),
        node_rows.join(",")
    )
}

// ---------------------------------------------------------------------------------------------- S1
#[derive(Debug, Clone)]
struct Loc {
    height: u32,
    parent: u128,  // 0 for the root of the 2^64-1 tree
    sibling: u128, // 0 for that root
    left: u128,
    right: u128,
    is_right: bool,
    rll: u32,
    leaf: Option<u64>,
}
/// binary descent in the perfect tree of height 63 over offset 0 (node indices 1..=2^64-1)
fn s1_locate(n: u64) -> Option<Loc> {
    if n == 0 {
        return None;
    }
    let n = n as u128;
    let mut o: u128 = 0; // nodes before the current subtree
    let mut l: u128 = 0; // leaves before the current subtree
    let mut h: u32 = 63;
    let mut parent = 0u128;
    let mut sibling = 0u128;
    let mut is_right = false;
    let mut rll = 0u32;
    loop {
        let root = o + (1u128 << (h + 1)) - 1;
        if n == root {
            let (left, right) = if h > 0 { (o + (1u128 << h) - 1, root - 1) } else { (0, 0) };
            return Some(Loc { height: h, parent, sibling, left, right, is_right, rll, leaf: if h == 0 { Some(l as u64) } else { None } });
        }
        let left_root = o + (1u128 << h) - 1;
        let right_root = root - 1;
        parent = root;
        if n <= left_root {
            sibling = right_root;
            is_right = false;
            rll = 0;
        } else {
            sibling = left_root;
            is_right = true;
            rll += 1;
            o = left_root;
            l += 1u128 << (h - 1);
        }
        h -= 1;
    }
}

fn class_of(v: u64) -> &'static str {
    if v == 0 {
        "zero"
    } else if v.is_power_of_two() {
        "pow2"
    } else if (v as u128 + 1).is_power_of_two() {
        "pow2-1"
    } else if v > 1 && (v - 1).is_power_of_two() {
        "pow2+1"
    } else if {
        let t = v >> v.trailing_zeros();
        (t as u128 + 1).is_power_of_two()
    } {
        "ones-run"
    } else if v >= 1 << 62 {
        "huge"
    } else if v < 4096 {
        "small"
    } else {
        "other"
    }
}

/// leaf counts / leaf indices: below 2^63, around powers of two, all-ones runs, alternating patterns
fn count_val(rng: &mut Rng) -> u64 {
    let v = match rng.below(12) {
        0 | 1 => {
            let k = rng.below(64);
            let b = if k == 63 { (1u64 << 63) - 1 } else { 1u64 << k };
            match rng.below(5) {
                0 => b.saturating_sub(1),
                1 => b,
                2 => b + 1,
                3 => b.saturating_sub(2),
                _ => b + 2,
            }
        }
        2 => {
            // run of ones 2^a - 2^b
            let a = rng.range(1, 63);
            let b = rng.below(a);
            (1u64 << a) - (1u64 << b)
        }
        3 => {
            // two runs
            let a = rng.range(2, 63);
            let b = rng.below(a);
            let c = rng.below(b + 1);
            ((1u64 << a) - (1u64 << b)) | ((1u64 << c) - 1)
        }
        4 => (0x5555_5555_5555_5555u64 >> rng.below(63)) >> 1,
        5 => 0x2aaa_aaaa_aaaa_aaaau64 >> rng.below(62),
        6 => (1u64 << 63) - 1 - rng.below(70),
        7 => rng.below(300),
        8 => {
            // sparse: two or three set bits
            let mut v = 0u64;
            for _ in 0..rng.range(2, 3) {
                v |= 1 << rng.below(63);
            }
            v
        }
        _ => {
            let bits = rng.range(1, 63);
            rng.next() >> (64 - bits)
        }
    };
    v & ((1 << 63) - 1)
}

/// node indices: 1 ..= 2^64-1, around 2^k-1 (left spine), right spines, node indices of interesting leaves
fn node_val(rng: &mut Rng) -> u64 {
    let v = match rng.below(10) {
        0 | 1 => {
            let k = rng.range(1, 64);
            let b: u64 = if k == 64 { u64::MAX } else { (1u64 << k) - 1 };
            match rng.below(6) {
                0 => b,
                1 => b.wrapping_add(1),
                2 => b - rng.below(k.min(b)).min(b - 1),
                3 => b.wrapping_add(2),
                4 => b.saturating_sub(k),
                _ => b.saturating_sub(k + 1),
            }
        }
        2 | 3 => sa::leaf_index_to_node_index(count_val(rng)),
        4 => {
            // a node on the path above an interesting leaf
            let mut n = sa::leaf_index_to_node_index(count_val(rng));
            for _ in 0..rng.below(64) {
                match s1_locate(n) {
                    Some(l) if l.parent != 0 && l.parent <= u64::MAX as u128 => n = l.parent as u64,
                    _ => break,
                }
            }
            n
        }
        5 => sa::num_leafs_to_num_nodes(count_val(rng)) + rng.below(3),
        6 => u64::MAX - rng.below(200),
        7 => rng.range(1, 300),
        _ => {
            let bits = rng.range(1, 64);
            rng.next() >> (64 - bits)
        }
    };
    v.max(1)
}

pub fn gen(rng: &mut Rng, thorough: bool, out: &mut Vec<String>) {
    // the whole table for every small count, then counts around powers of two up to 2^11 / 2^12
    let small = if thorough { 260 } else { 70 };
    for n in 0..=small {
        out.push(format!("mmri forest {}", n));
    }
    let kmax = if thorough { 12 } else { 10 };
    for k in 7..=kmax {
        for d in [-1i64, 0, 1] {
            out.push(format!("mmri forest {}", (1i64 << k) + d));
        }
    }
    for _ in 0..(if thorough { 60 } else { 8 }) {
        out.push(format!("mmri forest {}", rng.range(70, if thorough { 5000 } else { 1500 })));
    }
    // exhaustive small grid of the single ops (cheap) -- catches an off-by-one of the model's domain guards
    for n in 0..40u64 {
        out.push(format!("mmri rll_own {}", n));
        out.push(format!("mmri rll_node {}", n));
        out.push(format!("mmri parent {}", n));
        out.push(format!("mmri n2l {}", n));
        out.push(format!("mmri leftmost_ancestor {}", n));
        out.push(format!("mmri peaks {}", n));
        out.push(format!("mmri peak_heights {}", n));
        out.push(format!("mmri added {}", n));
        out.push(format!("mmri num_nodes {}", n));
        out.push(format!("mmri l2n {}", n));
        out.push(format!("mmri rll_leaf {}", n));
        for i in 0..=n.min(9) {
            out.push(format!("mmri mt {} {}", i, n));
        }
    }
    // domain edges
    for v in [(1u64 << 63) - 1, (1 << 63) - 2, 1 << 62, (1 << 62) - 1, (1 << 62) + 1] {
        for op in ["peaks", "peak_heights", "added", "num_nodes", "l2n", "rll_leaf"] {
            out.push(format!("mmri {} {}", op, v));
        }
        out.push(format!("mmri mt {} {}", v - 1, v));
        out.push(format!("mmri mt {} {}", 0, v));
        out.push(format!("mmri mt {} {}", v / 2, v));
    }
    for v in [u64::MAX, u64::MAX - 1, u64::MAX - 2, 1 << 63, (1 << 63) + 1, (1 << 63) - 1, u64::MAX - 63, u64::MAX - 64] {
        for op in ["rll_own", "rll_node", "parent", "n2l", "leftmost_ancestor", "peak_heights", "right_child"] {
            out.push(format!("mmri {} {}", op, v));
        }
    }
    out.push(format!("mmri mt {} {}", u64::MAX - 1, u64::MAX));
    out.push(format!("mmri mt {} {}", 1u64 << 63, u64::MAX));
    out.push(format!("mmri mt {} {}", (1u64 << 63) - 1, 1u64 << 63));

    let n = if thorough { 150_000 } else { 5_000 };
    for _ in 0..n {
        match rng.below(21) {
            0 | 19 => {
                // (node, its height) -- mostly valid pairs: an inner node for left_child, a right child for
                // left_sibling, a left child for right_sibling
                let op = *rng.pick(&["left_child", "left_sibling", "right_sibling"]);
                let mut nd = node_val(rng);
                if let Some(l) = s1_locate(nd) {
                    if op == "left_child" && l.height == 0 && l.parent != 0 {
                        nd = l.parent as u64;
                    } else if op != "left_child" && l.parent != 0 && l.is_right != (op == "left_sibling") {
                        nd = l.sibling as u64;
                    }
                }
                let h = s1_locate(nd).map(|l| l.height).unwrap_or(0) as u64;
                let h = if rng.coin(1, 8) { rng.below(66) } else { h };
                out.push(format!("mmri {} {} {}", op, nd, h));
            }
            1 => out.push(format!("mmri right_child {}", node_val(rng))),
            2 | 3 | 4 => {
                let c = count_val(rng).max(1);
                let i = match rng.below(8) {
                    0 => c - 1,
                    1 => 0,
                    2 => c / 2,
                    3 => c.saturating_sub(2),
                    4 => {
                        // first / last leaf of one of the trees
                        let k = rng.below(64);
                        let hi = c >> k << k;
                        if rng.coin(1, 2) { hi.saturating_sub(1).min(c - 1) } else { hi.min(c - 1) }
                    }
                    5 => c & (c - 1),
                    6 => c + rng.below(2), // assert fails
                    _ => rng.below(c),
                };
                out.push(format!("mmri mt {} {}", i, c));
            }
            5 => out.push(format!("mmri rll_leaf {}", count_val(rng))),
            6 => out.push(format!("mmri leftmost_ancestor {}", node_val(rng))),
            7 => out.push(format!("mmri l2n {}", count_val(rng))),
            8 => out.push(format!("mmri num_nodes {}", count_val(rng))),
            9 | 10 => out.push(format!("mmri rll_own {}", node_val(rng))),
            11 => out.push(format!("mmri rll_node {}", node_val(rng))),
            12 | 13 => out.push(format!("mmri parent {}", node_val(rng).min(u64::MAX - 1))),
            14 => out.push(format!("mmri added {}", count_val(rng))),
            15 => {
                // authentication path from a leaf (or an inner node) to its peak / a wrong peak / beyond node_count
                let c = count_val(rng).max(1);
                let nodes = sa::num_leafs_to_num_nodes(c);
                let li = rng.below(c);
                let mut start = sa::leaf_index_to_node_index(li);
                for _ in 0..(if rng.coin(1, 3) { rng.below(5) } else { 0 }) {
                    if let Some(l) = s1_locate(start) {
                        if l.parent != 0 && l.parent <= nodes as u128 {
                            start = l.parent as u64;
                        }
                    }
                }
                let (_, pk) = sb::leaf_index_to_mt_index_and_peak_index(li, c);
                let (_, idx) = sa::get_peak_heights_and_peak_node_indices(c);
                let peak = match rng.below(8) {
                    0 => *rng.pick(&idx),
                    1 => idx[pk as usize].wrapping_add(1),
                    2 => node_val(rng),
                    _ => idx[pk as usize],
                };
                let count = match rng.below(8) {
                    0 => nodes.saturating_sub(rng.below(4)),
                    1 => rng.below(nodes + 1),
                    _ => nodes,
                };
                out.push(format!("mmri auth {} {} {}", start, peak, count));
            }
            16 => out.push(format!("mmri peak_heights {}", if rng.coin(1, 4) { rng.next() } else { count_val(rng) })),
            17 | 18 => out.push(format!("mmri peaks {}", count_val(rng))),
            _ => out.push(format!("mmri n2l {}", node_val(rng))),
        }
    }
}

fn pair(a: u64, b: u64) -> String {
    format!("ok:({};{})", a, b)
}

pub fn run_mmri(op: &str, a: &[Arg], st: &mut Stats) -> Option<Out> {
    for x in a {
        if let Some(v) = x.u64() {
            st.hit(&format!("class:{}:{}", op, class_of(v)));
        }
    }
    Some(match (op, a) {
        ("forest", [n]) => {
            let n = n.u64()?;
            if n > 1 << 16 {
                return None;
            }
            let t = impl_table(n);
            let s0 = S0::build(n).table();
            let ok = t == s0;
            let what = if ok {
                String::new()
            } else {
                let i = t.bytes().zip(s0.bytes()).position(|(x, y)| x != y).unwrap_or(0);
                let lo = i.saturating_sub(30);
                format!("forest {}: impl …{}… vs explicit forest …{}…", n, &t[lo..(i + 30).min(t.len())], &s0[lo..(i + 30).min(s0.len())])
            };
            Out::ok(t).with_oracle(ok, what)
        }
        ("left_child", [n, h]) => {
            let (n, h) = (n.u64()?, h.u64()? as u32);
            let r = sb::left_child(n, h);
            let mut o = Out::ok(format!("ok:{}", r));
            if let Some(l) = s1_locate(n) {
                if l.height == h && h > 0 {
                    st.hit("left_child:valid-pair");
                    o = o.with_oracle(r as u128 == l.left, "left_child: not the left child in the post-order tree");
                }
            }
            o
        }
        ("right_child", [n]) => {
            let n = n.u64()?;
            let r = sb::right_child(n);
            let mut o = Out::ok(format!("ok:{}", r));
            if let Some(l) = s1_locate(n) {
                if l.height > 0 {
                    o = o.with_oracle(r as u128 == l.right, "right_child: not the right child");
                }
            }
            o
        }
        ("mt", [i, n]) => {
            let (i, n) = (i.u64()?, n.u64()?);
            st.hit(if i < n { "mt:in-range" } else { "mt:assert-fails" });
            let (mt, pk) = sb::leaf_index_to_mt_index_and_peak_index(i, n);
            // oracle: walk over the trees of the forest (set bits of n, highest first)
            let mut before = 0u128;
            let mut k = 0u32;
            let mut want = None;
            for h in (0..64).rev() {
                if n >> h & 1 == 1 {
                    if (i as u128) < before + (1u128 << h) {
                        want = Some(((1u128 << h) + (i as u128 - before), k));
                        break;
                    }
                    before += 1u128 << h;
                    k += 1;
                }
            }
            Out::ok(pair(mt, pk as u64)).with_oracle(want == Some((mt as u128, pk)), "mt/peak index differ from the walk over the trees")
        }
        ("rll_leaf", [i]) => {
            let i = i.u64()?;
            let r = sb::right_lineage_length_from_leaf_index(i);
            Out::ok(format!("ok:{}", r)).with_oracle(i == u64::MAX || r == i.trailing_ones(), "rll_from_leaf_index != trailing ones")
        }
        ("leftmost_ancestor", [n]) => {
            let n = n.u64()?;
            let (r, h) = sa::leftmost_ancestor(n);
            let mut k = 0u32;
            while ((1u128 << (k + 1)) - 1) < n as u128 {
                k += 1;
            }
            Out::ok(pair(r, h as u64)).with_oracle(n == 0 || (r as u128 == (1u128 << (k + 1)) - 1 && h == k), "leftmost_ancestor: not the least 2^(h+1)-1 >= n")
        }
        ("l2n", [i]) => {
            let i = i.u64()?;
            let r = sa::leaf_index_to_node_index(i);
            let ok = i >= 1 << 63 || s1_locate(r).map(|l| l.leaf == Some(i)).unwrap_or(false);
            Out::ok(format!("ok:{}", r)).with_oracle(ok, "leaf_index_to_node_index: that node is not the i-th leaf")
        }
        ("left_sibling", [n, h]) | ("right_sibling", [n, h]) => {
            let (n, h) = (n.u64()?, h.u64()? as u32);
            let r = if op == "left_sibling" { sa::left_sibling(n, h) } else { sa::right_sibling(n, h) };
            let mut o = Out::ok(format!("ok:{}", r));
            if let Some(l) = s1_locate(n) {
                if l.height == h && l.parent != 0 && l.is_right == (op == "left_sibling") {
                    st.hit("sibling:valid-pair");
                    o = o.with_oracle(r as u128 == l.sibling, "sibling: not the sibling in the post-order tree");
                }
            }
            o
        }
        ("num_nodes", [n]) => {
            let n = n.u64()?;
            let r = sa::num_leafs_to_num_nodes(n);
            let want: u128 = (0..64).filter(|h| n >> h & 1 == 1).map(|h| (1u128 << (h + 1)) - 1).sum();
            Out::ok(format!("ok:{}", r)).with_oracle(n >= 1 << 63 || r as u128 == want, "num_nodes != sum of tree sizes")
        }
        ("rll_own", [n]) => {
            let n = n.u64()?;
            let (r, h) = sa::right_lineage_length_and_own_height(n);
            let ok = match s1_locate(n) {
                Some(l) => l.rll == r && l.height == h,
                None => true,
            };
            Out::ok(pair(r as u64, h as u64)).with_oracle(ok, "right_lineage_length_and_own_height differs from descent")
        }
        ("rll_node", [n]) => {
            let n = n.u64()?;
            let r = sa::right_lineage_length_from_node_index(n);
            let ok = s1_locate(n).map(|l| l.rll == r).unwrap_or(true);
            Out::ok(format!("ok:{}", r)).with_oracle(ok, "right_lineage_length_from_node_index differs from descent")
        }
        ("parent", [n]) => {
            let n = n.u64()?;
            if n == u64::MAX {
                return None;
            }
            let r = sa::parent(n);
            let ok = s1_locate(n).map(|l| l.parent == r as u128).unwrap_or(true);
            Out::ok(format!("ok:{}", r)).with_oracle(ok, "parent differs from descent")
        }
        ("added", [c]) => {
            let c = c.u64()?;
            if c >= 1 << 63 {
                return None;
            }
            let r = sa::node_indices_added_by_append(c);
            // oracle: the new leaf and its ancestors as long as they are right children
            let mut want = vec![];
            let mut n = 2 * c - c.count_ones() as u64 + 1;
            loop {
                want.push(n);
                let l = s1_locate(n).unwrap();
                if !l.is_right {
                    break;
                }
                n = l.parent as u64;
            }
            st.hit(&format!("added:len={}", r.len().min(8)));
            Out::ok(format!("ok:{}", fmt_list_u64(&r))).with_oracle(r == want, "added nodes differ from right-child chain")
        }
        ("auth", [s, p, c]) => {
            let (s, p, c) = (s.u64()?, p.u64()?, c.u64()?);
            if c == u64::MAX || s == 0 {
                return None;
            }
            let r = sa::get_authentication_path_node_indices(s, p, c);
            let mut want = vec![];
            let mut n = s as u128;
            while n <= c as u128 && n != p as u128 {
                let l = s1_locate(n as u64).unwrap();
                want.push(l.sibling as u64);
                n = l.parent;
            }
            let want = if n == p as u128 { Some(want) } else { None };
            st.hit(if r.is_some() { "auth:some" } else { "auth:none" });
            let txt = match &r {
                Some(v) => format!("ok:some:{}", fmt_list_u64(v)),
                None => "ok:none".into(),
            };
            Out::ok(txt).with_oracle(r == want, "authentication path node indices differ from sibling chain")
        }
        ("peak_heights", [c]) => {
            let c = c.u64()?;
            let r: Vec<u64> = sa::get_peak_heights(c).into_iter().map(|h| h as u64).collect();
            let want: Vec<u64> = (0..64).rev().filter(|h| c >> h & 1 == 1).collect();
            Out::ok(format!("ok:{}", fmt_list_u64(&r))).with_oracle(r == want, "peak heights != set bits")
        }
        ("peaks", [c]) => {
            let c = c.u64()?;
            if c >= 1 << 63 {
                return None;
            }
            let (hs, idx) = sa::get_peak_heights_and_peak_node_indices(c);
            let hs: Vec<u64> = hs.into_iter().map(|h| h as u64).collect();
            let want_h: Vec<u64> = (0..64).rev().filter(|h| c >> h & 1 == 1).collect();
            let mut acc = 0u64;
            let want_i: Vec<u64> = want_h.iter().map(|h| { acc += (1u64 << (h + 1)) - 1; acc }).collect();
            st.hit(&format!("peaks:count={}", hs.len().min(8) / 2 * 2));
            Out::ok(format!("ok:{} {}", fmt_list_u64(&hs), fmt_list_u64(&idx)))
                .with_oracle(hs == want_h, "peak heights != set bits")
                .with_oracle(idx == want_i, "peak node indices != running sums of tree sizes")
        }
        ("n2l", [n]) => {
            let n = n.u64()?;
            let r = sa::node_index_to_leaf_index(n);
            let ok = s1_locate(n).map(|l| l.leaf == r).unwrap_or(true);
            st.hit(if r.is_some() { "n2l:leaf" } else { "n2l:inner" });
            let txt = match r {
                Some(v) => format!("ok:some:{}", v),
                None => "ok:none".into(),
            };
            Out::ok(txt).with_oracle(ok, "node_index_to_leaf_index differs from descent")
        }
        _ => return None,
    })
}
