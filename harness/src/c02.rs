// PROP: C02  FAMILIES: tip5=run_tip5
//! C02 -- Tip5 permutation, trace and fixed-length hashes.  Family `tip5`; field elements travel as canonical values.
//!
//! The harness carries its own paper-level Tip5 (`spec_*`, plain `u128 % P` arithmetic, the byte map by its formula,
//! the circulant matrix from `MDS_MATRIX_FIRST_COLUMN`) -- independent of the Lean model -- and uses it
//!  * as the property oracle on the implementation (every round of every trace, canonicity of every stored word),
//!  * to *invert* rounds (inverse matrix, inverse byte map, 7th roots), so that the generator can place a chosen
//!    raw word pattern at the input of the linear layer of any round: 32-bit-limb accumulations that overflow 2^64,
//!    recombinations landing in [P, 2^64), the `over` branch, bytes 00/ff in the lookup lanes, elements 0, 1, P-1.
use crate::util::*;
use std::sync::OnceLock;
use twenty_first::math::mds::generated_function;
use twenty_first::math::tip5::{
    CAPACITY, LOOKUP_TABLE, MDS_MATRIX_FIRST_COLUMN, NUM_ROUNDS, NUM_SPLIT_AND_LOOKUP, RATE, ROUND_CONSTANTS, STATE_SIZE,
};
use twenty_first::prelude::*;

const R64: u64 = 0xffff_ffff; // 2^64 mod P

fn mulp(a: u64, b: u64) -> u64 {
    ((a as u128 * b as u128) % P as u128) as u64
}
fn addp(a: u64, b: u64) -> u64 {
    ((a as u128 + b as u128) % P as u128) as u64
}
fn subp(a: u64, b: u64) -> u64 {
    ((a as u128 + P as u128 - b as u128) % P as u128) as u64
}
fn powp(a: u64, mut e: u64) -> u64 {
    let mut base = a % P;
    let mut acc = 1u64;
    while e > 0 {
        if e & 1 == 1 {
            acc = mulp(acc, base);
        }
        base = mulp(base, base);
        e >>= 1;
    }
    acc
}
fn invp(a: u64) -> u64 {
    powp(a, P - 2)
}
/// Montgomery word of a value, and back
fn mont(v: u64) -> u64 {
    mulp(v, R64)
}
fn unmont(w: u64) -> u64 {
    static RINV: OnceLock<u64> = OnceLock::new();
    mulp(w % P, *RINV.get_or_init(|| invp(R64)))
}

// ---- paper-level Tip5 on canonical values ------------------------------------------------------------
fn fermat_cube(b: u64) -> u64 {
    ((b + 1) * (b + 1) * (b + 1) + 256) % 257
}
fn inv_fermat_cube() -> &'static [u8; 256] {
    static T: OnceLock<[u8; 256]> = OnceLock::new();
    T.get_or_init(|| {
        let mut t = [0u8; 256];
        let mut seen = [false; 256];
        for b in 0..256u64 {
            let y = fermat_cube(b) as usize;
            assert!(y < 256 && !seen[y]);
            seen[y] = true;
            t[y] = b as u8;
        }
        t
    })
}
fn map_bytes(w: u64, f: impl Fn(u8) -> u8) -> u64 {
    let mut b = w.to_le_bytes();
    for x in b.iter_mut() {
        *x = f(*x);
    }
    u64::from_le_bytes(b)
}
fn col(k: usize) -> u64 {
    MDS_MATRIX_FIRST_COLUMN[k % 16] as u64
}
/// M[i][j] = col[(i - j) mod 16]
fn mds_entry(i: usize, j: usize) -> u64 {
    col((i + 16 - j) % 16)
}
fn spec_sbox(v: &[u64; 16]) -> [u64; 16] {
    let mut u = [0u64; 16];
    for i in 0..16 {
        u[i] = if i < 4 { unmont(map_bytes(mont(v[i]), |b| fermat_cube(b as u64) as u8)) } else { powp(v[i], 7) };
    }
    u
}
fn spec_mds(u: &[u64; 16]) -> [u64; 16] {
    let mut o = [0u64; 16];
    for i in 0..16 {
        let mut acc: u128 = 0;
        for j in 0..16 {
            acc += mds_entry(i, j) as u128 * u[j] as u128;
        }
        o[i] = (acc % P as u128) as u64;
    }
    o
}
fn rc(r: usize, i: usize) -> u64 {
    ROUND_CONSTANTS[r * 16 + i].value()
}
fn spec_round(r: usize, v: &[u64; 16]) -> [u64; 16] {
    let m = spec_mds(&spec_sbox(v));
    let mut o = [0u64; 16];
    for i in 0..16 {
        o[i] = addp(m[i], rc(r, i));
    }
    o
}
fn spec_perm(v: &[u64; 16]) -> [u64; 16] {
    let mut s = *v;
    for r in 0..5 {
        s = spec_round(r, &s);
    }
    s
}

// ---- inverses (generator only) -------------------------------------------------------------------------
fn inv_matrix() -> &'static [[u64; 16]; 16] {
    static T: OnceLock<[[u64; 16]; 16]> = OnceLock::new();
    T.get_or_init(|| {
        let mut a = [[0u64; 32]; 16];
        for i in 0..16 {
            for j in 0..16 {
                a[i][j] = mds_entry(i, j);
            }
            a[i][16 + i] = 1;
        }
        for c in 0..16 {
            let p = (c..16).find(|&r| a[r][c] != 0).expect("MDS matrix singular");
            a.swap(c, p);
            let inv = invp(a[c][c]);
            for k in 0..32 {
                a[c][k] = mulp(a[c][k], inv);
            }
            for r in 0..16 {
                if r != c && a[r][c] != 0 {
                    let f = a[r][c];
                    for k in 0..32 {
                        a[r][k] = subp(a[r][k], mulp(f, a[c][k]));
                    }
                }
            }
        }
        let mut m = [[0u64; 16]; 16];
        for i in 0..16 {
            for j in 0..16 {
                m[i][j] = a[i][16 + j];
            }
        }
        m
    })
}
/// 7^-1 mod (P-1)
fn seventh_root_exponent() -> u64 {
    static D: OnceLock<u64> = OnceLock::new();
    *D.get_or_init(|| {
        let n = (P - 1) as i128;
        // extended Euclid
        let (mut r0, mut r1, mut s0, mut s1) = (n, 7i128, 0i128, 1i128);
        while r1 != 0 {
            let q = r0 / r1;
            (r0, r1) = (r1, r0 - q * r1);
            (s0, s1) = (s1, s0 - q * s1);
        }
        assert!(r0 == 1);
        let d = s0.rem_euclid(n) as u64;
        assert!((d as u128 * 7) % (n as u128) == 1);
        d
    })
}
/// values before the S-box layer from values after it
fn inv_sbox(u: &[u64; 16]) -> [u64; 16] {
    let t = inv_fermat_cube();
    let mut v = [0u64; 16];
    for i in 0..16 {
        v[i] = if i < 4 { unmont(map_bytes(mont(u[i]), |b| t[b as usize])) } else { powp(u[i], seventh_root_exponent()) };
    }
    v
}
fn inv_round(r: usize, out: &[u64; 16]) -> [u64; 16] {
    let mut y = [0u64; 16];
    for i in 0..16 {
        y[i] = subp(out[i], rc(r, i));
    }
    let mi = inv_matrix();
    let mut u = [0u64; 16];
    for i in 0..16 {
        let mut acc = 0u64;
        for j in 0..16 {
            acc = addp(acc, mulp(mi[i][j], y[j]));
        }
        u[i] = acc;
    }
    inv_sbox(&u)
}
/// initial state (values) such that the state *entering* round `r` is `v`
fn pull_back(r: usize, v: &[u64; 16]) -> [u64; 16] {
    let mut s = *v;
    for rr in (0..r).rev() {
        s = inv_round(rr, &s);
    }
    s
}

// ---- classification of what a round's linear layer went through (evidence distribution) -----------------
/// exact accumulations of lane i for raw S-box outputs t: (S, s_hi, over, result)
fn mds_lane(t: &[u64; 16], i: usize) -> (u128, u64, bool, u64) {
    let mut s: u128 = 0;
    for j in 0..16 {
        s += mds_entry(i, j) as u128 * t[j] as u128;
    }
    let s_hi = (s >> 64) as u64;
    let s_lo = s as u64;
    let (res, over) = s_lo.overflowing_add(s_hi * 0xffff_ffff);
    (s, s_hi, over, if over { res.wrapping_add(0xffff_ffff) } else { res })
}
fn classify_round(v: &[u64; 16], st: &mut Stats) {
    for i in 0..4 {
        let w = mont(v[i]);
        let b = w.to_le_bytes();
        if b.iter().any(|&x| x == 0) {
            st.hit("lookup:byte00");
        }
        if b.iter().any(|&x| x == 0xff) {
            st.hit("lookup:byteff");
        }
        if w >> 32 == 0xffff_ffff {
            st.hit("lookup:raw-top-limb-all-ones");
        }
    }
    for &x in v.iter() {
        match x {
            0 => st.hit("sbox-input:0"),
            1 => st.hit("sbox-input:1"),
            x if x == P - 1 => st.hit("sbox-input:P-1"),
            _ => {}
        }
    }
    let u = spec_sbox(v);
    let mut t = [0u64; 16];
    for i in 0..16 {
        t[i] = mont(u[i]);
    }
    for i in 0..16 {
        let (_, s_hi, over, res) = mds_lane(&t, i);
        if over {
            st.hit("mds:over-branch");
            if res == 0xffff_ffff {
                st.hit("mds:over-branch-smallest");
            }
        } else if res >= P {
            st.hit("mds:result-in-[P,2^64)");
            if res == u64::MAX {
                st.hit("mds:result=2^64-1");
            }
            if res == P {
                st.hit("mds:result=P");
            }
        } else {
            st.hit("mds:plain");
        }
        st.hit(if s_hi == 0 { "mds:sum-fits-64-bits" } else { "mds:sum-exceeds-64-bits" });
    }
}

// ---- generator -----------------------------------------------------------------------------------------
fn gcd(a: u64, b: u64) -> u64 {
    if b == 0 {
        a
    } else {
        gcd(b, a % b)
    }
}
/// a raw canonical word with boundary-directed limbs/bytes
fn raw_word(rng: &mut Rng) -> u64 {
    const B: [u64; 14] = [
        0, 1, 0xff, 0xffff_ffff, 0x1_0000_0000, 0xffff_ffff_0000_0000, 0xffff_fffe_ffff_ffff, 0xffff_fffe_0000_0000,
        0x0000_0001_ffff_ffff, 0x00ff_00ff_00ff_00ff, 0xff00_ff00_ff00_ff00, 0xffff_fffe_ffff_ff00, 0x8000_0000_8000_0000,
        0x7fff_ffff_ffff_ffff,
    ];
    match rng.below(5) {
        0 | 1 => *rng.pick(&B),
        2 => {
            let hi = *rng.pick(&[0u64, 1, 0xffff_fffe, 0xffff_ffff, 0x8000_0000, 0xff00_00ff]);
            let lo = *rng.pick(&[0u64, 1, 0xffff_fffe, 0xffff_ffff, 0x8000_0000, 0x00ff_ff00]);
            let w = (hi << 32) | lo;
            if w < P {
                w
            } else {
                P - 1
            }
        }
        _ => rng.below(P),
    }
}
#[derive(Clone, Copy, PartialEq)]
enum Corner {
    ResGeP,
    Over,
    PlainEdge,
}
/// raw S-box outputs `t` (all canonical) such that lane `i` of the linear layer meets the corner
fn corner_mds_input(rng: &mut Rng, i: usize, c: Corner) -> Option<[u64; 16]> {
    let mut t = [0u64; 16];
    let heavy = rng.coin(1, 3);
    for x in t.iter_mut() {
        *x = if heavy { *rng.pick(&[0xffff_ffff_0000_0000u64, 0xffff_fffe_ffff_ffff, 0xffff_fffe_ffff_fffe]) } else { raw_word(rng) };
    }
    let j0 = rng.below(16) as usize;
    let mut j1 = rng.below(16) as usize;
    let mut tries = 0;
    while j1 == j0 || gcd(mds_entry(i, j0), mds_entry(i, j1)) != 1 {
        j1 = (j1 + 1) % 16;
        tries += 1;
        if tries > 32 {
            return None;
        }
    }
    let (m0, m1) = (mds_entry(i, j0) as i128, mds_entry(i, j1) as i128);
    t[j0] = rng.range(1 << 62, 1 << 63);
    t[j1] = rng.range(1 << 62, 1 << 63);
    let (s0, k, _, _) = mds_lane(&t, i);
    let k = k as u128;
    let w = 1u128 << 64;
    let span = k * 0xffff_ffff; // width of the `over` window
    let delta: u128 = match c {
        Corner::ResGeP => match rng.below(6) {
            0 => P as u128,
            1 => P as u128 + 1,
            2 => w - 1,
            3 => w - 2,
            _ => P as u128 + rng.below(0xffff_ffff) as u128,
        },
        Corner::Over => {
            if span < 2 {
                return None;
            }
            match rng.below(5) {
                0 => w,
                1 => w + 1,
                2 => w + span - 1,
                _ => w + rng.below(span as u64) as u128,
            }
        }
        Corner::PlainEdge => match rng.below(3) {
            0 => span,            // s_lo = 0
            1 => P as u128 - 1,   // largest canonical result
            _ => span + 1,
        },
    };
    let target = k * P as u128 + delta;
    if (target >> 64) != k {
        return None;
    }
    let d = target as i128 - s0 as i128;
    // m0*da + m1*db = d  with 0 <= db < m0
    let m1_inv = {
        // inverse of m1 mod m0 by brute extended Euclid
        let (mut r0, mut r1, mut s0_, mut s1_) = (m0, m1.rem_euclid(m0), 0i128, 1i128);
        while r1 != 0 {
            let q = r0 / r1;
            (r0, r1) = (r1, r0 - q * r1);
            (s0_, s1_) = (s1_, s0_ - q * s1_);
        }
        if r0 != 1 {
            return None;
        }
        s0_.rem_euclid(m0)
    };
    let db = (d.rem_euclid(m0) * m1_inv).rem_euclid(m0);
    let rest = d - m1 * db;
    if rest % m0 != 0 {
        return None;
    }
    let da = rest / m0;
    let a = t[j0] as i128 + da;
    let b = t[j1] as i128 + db;
    if a < 0 || a >= P as i128 || b < 0 || b >= P as i128 {
        return None;
    }
    t[j0] = a as u64;
    t[j1] = b as u64;
    let (s, _, _, _) = mds_lane(&t, i);
    if s != target {
        return None;
    }
    Some(t)
}
/// values of a state that enters round r such that the linear layer of round r sees raw words `t`
fn state_for_mds_input(r: usize, t: &[u64; 16]) -> [u64; 16] {
    let mut u = [0u64; 16];
    for i in 0..16 {
        u[i] = unmont(t[i]);
    }
    pull_back(r, &inv_sbox(&u))
}
fn state_values(rng: &mut Rng) -> [u64; 16] {
    let mut s = [0u64; 16];
    let mode = rng.below(6);
    for x in s.iter_mut() {
        *x = match mode {
            0 => rng.below(P),
            1 => *rng.pick(&[0u64, 1, P - 1]),
            2 => unmont(raw_word(rng)),
            _ => rng.fval(),
        };
    }
    s
}

// ---- directed stream: algebraic relations between lanes ---------------------------------------------------
const P7: u64 = 7;
const P49: u64 = 49;
/// a value whose Montgomery word has only bytes 00 / ff (and is canonical)
fn mont_bytes_00ff(rng: &mut Rng) -> u64 {
    loop {
        let mut w = 0u64;
        for k in 0..8 {
            if rng.coin(1, 2) {
                w |= 0xffu64 << (8 * k);
            }
        }
        if w < P {
            return unmont(w);
        }
    }
}
fn relation_base(rng: &mut Rng) -> [u64; 16] {
    let mut s = [0u64; 16];
    let mode = rng.below(4);
    for x in s.iter_mut() {
        *x = match mode {
            0 => rng.below(P),
            1 => rng.fval(),
            2 => *rng.pick(&[0u64, 1, P - 1, 2, 7, P - 2]),
            _ => unmont(raw_word(rng)),
        };
    }
    s
}
/// impose relation `kind` between lanes `i` (source) and `j` (target) of `s` (canonical values)
fn impose_relation(rng: &mut Rng, s: &mut [u64; 16], kind: u64, i: usize, j: usize) {
    match kind {
        0 => s[j] = s[i],
        1 => s[j] = powp(s[i], P7),
        2 => s[j] = powp(s[i], P49),
        3 => {
            // lane j = lookup image of lane i's Montgomery word (the lookup-lane analogue of "already mapped")
            let lut = |b: u8| LOOKUP_TABLE[b as usize];
            s[j] = unmont(map_bytes(mont(s[i]), lut));
        }
        4 => {
            s[i] = *rng.pick(&[0u64, 1, P - 1]);
            s[j] = *rng.pick(&[0u64, 1, P - 1]);
        }
        5 => {
            s[i] = mont_bytes_00ff(rng);
            s[j] = if rng.coin(1, 2) { s[i] } else { mont_bytes_00ff(rng) };
        }
        _ => {
            // a whole chain: every following lane is the 7th power of its predecessor
            for k in i + 1..16 {
                s[k] = powp(s[k - 1], P7);
            }
        }
    }
}
fn push_relation_ops(rng: &mut Rng, s: &[u64; 16], which: u64, out: &mut Vec<String>) {
    match which {
        0 => out.push(format!("tip5 trace {}", fmt_list_u64(s))),
        1 => out.push(format!("tip5 perm {}", fmt_list_u64(s))),
        2 => out.push(format!("tip5 hash10 {}", fmt_list_u64(&s[..10]))),
        3 => out.push(format!("tip5 hashpair {} {}", fmt_list_u64(&s[..5]), fmt_list_u64(&s[5..10]))),
        _ => {
            let r = 1 + rng.below(4) as usize;
            out.push(format!("tip5 trace {}", fmt_list_u64(&pull_back(r, s))));
        }
    }
}
fn relation_stream(rng: &mut Rng, thorough: bool, out: &mut Vec<String>) {
    // (a) every adjacent pair (both directions) x {equal, ^7, ^49, lookup image}: at round 0 through trace
    for i in 0..15usize {
        for kind in 0..4u64 {
            for rev in [false, true] {
                if kind == 3 && i >= 4 {
                    continue;
                }
                let mut s = relation_base(rng);
                let (a, b) = if rev { (i + 1, i) } else { (i, i + 1) };
                impose_relation(rng, &mut s, kind, a, b);
                push_relation_ops(rng, &s, 0, out);
            }
        }
    }
    // (b) 7th-power chains from every start lane, specials and 00/ff words in every lane pair class
    for i in 0..15usize {
        let mut s = relation_base(rng);
        impose_relation(rng, &mut s, 6, i, i);
        push_relation_ops(rng, &s, if i % 2 == 0 { 0 } else { 1 }, out);
    }
    // (c) random relation, random lanes (adjacent or not; power lanes, lookup lanes or across), several relations per state,
    //     through every entry point, also at the input of a later round
    let n = if thorough { 20_000 } else { 165 };
    for t in 0..n {
        let mut s = relation_base(rng);
        let which = [0u64, 0, 1, 2, 3, 4][t % 6];
        let top = if which == 2 || which == 3 { 10 } else { 16 };
        for _ in 0..1 + rng.below(3) {
            let kind = rng.below(6);
            let i = rng.below(top as u64) as usize;
            let j = match rng.below(3) {
                0 => (i + 1) % top,
                1 => (i + top - 1) % top,
                _ => rng.below(top as u64) as usize,
            };
            if i != j {
                impose_relation(rng, &mut s, kind, i, j);
            }
        }
        if which == 2 && rng.coin(1, 3) {
            // hash_10: the capacity lanes are ONE -- make the neighbouring rate lane relate to them
            s[9] = *rng.pick(&[1u64, 0, P - 1]);
        }
        push_relation_ops(rng, &s, which, out);
    }
}
/// evidence: which relations between lanes the S-box layer of a round actually saw
fn classify_relations(v: &[u64; 16], st: &mut Stats) {
    let zone = |i: usize, j: usize| {
        if i < 4 && j < 4 {
            "lookup"
        } else if i >= 4 && j >= 4 {
            "power"
        } else {
            "across"
        }
    };
    for i in 0..16 {
        if v[i] == 0 || v[i] == 1 || v[i] == P - 1 {
            st.hit(if i < 4 { "rel:lane in {0,1,P-1}:lookup" } else { "rel:lane in {0,1,P-1}:power" });
        }
        let w = mont(v[i]);
        if (0..8).all(|k| matches!((w >> (8 * k)) & 0xff, 0 | 0xff)) {
            st.hit(if i < 4 { "rel:mont bytes 00/ff:lookup" } else { "rel:mont bytes 00/ff:power" });
        }
    }
    for i in 0..16 {
        let p7 = powp(v[i], P7);
        let p49 = powp(p7, P7);
        let li = unmont(map_bytes(mont(v[i]), |b: u8| LOOKUP_TABLE[b as usize]));
        for j in 0..16 {
            if i == j || v[i] <= 1 || v[i] == P - 1 {
                continue;
            }
            let adj = if j == i + 1 { "next" } else if i == j + 1 { "prev" } else { "nonadjacent" };
            if v[j] == v[i] && i < j {
                st.hit(&format!("rel:equal:{}:{}", if adj == "nonadjacent" { adj } else { "adjacent" }, zone(i, j)));
            }
            if v[j] == p7 {
                st.hit(&format!("rel:{}=lane^7:{}", adj, zone(i, j)));
            }
            if v[j] == p49 {
                st.hit(&format!("rel:{}=lane^49:{}", adj, zone(i, j)));
            }
            if i < 4 && j < 4 && v[j] == li {
                st.hit(&format!("rel:{}=lookup image", adj));
            }
        }
    }
}

pub fn gen(rng: &mut Rng, thorough: bool, out: &mut Vec<String>) {
    for c in ["lookup_table", "round_constants", "mds_first_column", "sizes"] {
        out.push(format!("tip5 const {}", c));
    }
    out.push("tip5 newstate fixed".into());
    out.push("tip5 newstate varlen".into());
    for b in 0..256u64 {
        out.push(format!("tip5 lut {}", b));
        out.push(format!("tip5 fermat {}", b));
    }
    for b in [256u64, 257, 1000, 65534] {
        out.push(format!("tip5 fermat {}", b));
    }
    // generated_function: unit vectors and limb extremes on every input position, then random
    for j in 0..16 {
        for v in [1u64, 0xffff_ffff, u64::MAX, 1 << 63] {
            let mut x = [0u64; 16];
            x[j] = v;
            out.push(format!("tip5 genfn {}", fmt_list_u64(&x)));
        }
    }
    out.push(format!("tip5 genfn {}", fmt_list_u64(&[0xffff_ffff; 16])));
    out.push(format!("tip5 genfn {}", fmt_list_u64(&[u64::MAX; 16])));
    let n_gen = if thorough { 10_000 } else { 150 };
    for _ in 0..n_gen {
        let wide = rng.coin(1, 4);
        let x: Vec<u64> = (0..16)
            .map(|_| match rng.below(4) {
                0 => *rng.pick(&[0u64, 1, 0xffff_ffff, 0xffff_fffe, 0x8000_0000]),
                _ => {
                    if wide {
                        rng.next()
                    } else {
                        rng.below(1 << 32)
                    }
                }
            })
            .collect();
        out.push(format!("tip5 genfn {}", fmt_list_u64(&x)));
    }
    // fixed states
    for v in [0u64, 1, P - 1, unmont(0xffff_ffff_0000_0000), unmont(0xffff_fffe_ffff_ffff), unmont(0xffff_ffff), unmont(0x1_0000_0000)] {
        out.push(format!("tip5 trace {}", fmt_list_u64(&[v; 16])));
        out.push(format!("tip5 perm {}", fmt_list_u64(&[v; 16])));
        out.push(format!("tip5 hash10 {}", fmt_list_u64(&[v; 10])));
        out.push(format!("tip5 hashpair {} {}", fmt_list_u64(&[v; 5]), fmt_list_u64(&[v; 5])));
        out.push(format!("tip5 digesthash {}", fmt_list_u64(&[v; 5])));
    }
    // directed: every round x every lane x every corner of the linear layer
    let reps = if thorough { 40 } else { 1 };
    for _ in 0..reps {
        for r in 0..5 {
            for i in 0..16 {
                for c in [Corner::ResGeP, Corner::Over, Corner::PlainEdge] {
                    for _attempt in 0..8 {
                        if let Some(t) = corner_mds_input(rng, i, c) {
                            out.push(format!("tip5 trace {}", fmt_list_u64(&state_for_mds_input(r, &t))));
                            break;
                        }
                    }
                }
            }
        }
    }
    // directed: chosen raw words (bytes 00/ff, limb extremes) and elements 0,1,P-1 entering the S-boxes of round r,
    // and chosen raw words entering the linear layer of round r
    let n_dir = if thorough { 20_000 } else { 250 };
    for _ in 0..n_dir {
        let r = rng.below(5) as usize;
        let mut v = [0u64; 16];
        for (i, x) in v.iter_mut().enumerate() {
            *x = if i < 4 || rng.coin(1, 2) { unmont(raw_word(rng)) } else { *rng.pick(&[0u64, 1, P - 1, 2, P - 2]) };
        }
        if rng.coin(1, 2) {
            out.push(format!("tip5 trace {}", fmt_list_u64(&pull_back(r, &v))));
        } else {
            let mut t = [0u64; 16];
            for x in t.iter_mut() {
                *x = raw_word(rng);
            }
            out.push(format!("tip5 trace {}", fmt_list_u64(&state_for_mds_input(r, &t))));
        }
    }
    // directed: algebraic RELATIONS between lanes that uniform sampling never produces (probability 2^-64 each) --
    // equal lanes (adjacent / non-adjacent), lane j = (lane i)^7 / ^49 (and the reverse), lanes 0/1/P-1, lanes whose
    // Montgomery word consists of bytes 00/ff, the lookup image of a neighbour in the lookup lanes, whole 7th-power
    // chains -- in the power-map lanes 4..15 and in the lookup lanes 0..3, at the input of round 0 and (pulled back
    // through the inverse rounds) at the input of a later round; through trace, perm, hash10 and hashpair
    relation_stream(rng, thorough, out);
    // random / boundary states through every public entry point
    let n = if thorough { 200_000 } else { 1200 };
    for _ in 0..n {
        let s = state_values(rng);
        match rng.below(10) {
            0..=3 => out.push(format!("tip5 trace {}", fmt_list_u64(&s))),
            4 | 5 => out.push(format!("tip5 perm {}", fmt_list_u64(&s))),
            6 => out.push(format!("tip5 hash10 {}", fmt_list_u64(&s[..10]))),
            7 => out.push(format!("tip5 hashpair {} {}", fmt_list_u64(&s[..5]), fmt_list_u64(&s[5..10]))),
            8 => out.push(format!("tip5 digesthash {}", fmt_list_u64(&s[..5]))),
            _ => {
                let len = rng.below(25) as usize;
                let xs: Vec<u64> = (0..len).map(|_| rng.fval()).collect();
                out.push(format!("tip5 varlen {}", fmt_list_u64(&xs)));
            }
        }
    }
    // malformed stream: wrong arity / non-canonical "values" (both sides must refuse or agree)
    out.push(format!("tip5 trace {}", fmt_list_u64(&[1; 15])));
    out.push(format!("tip5 trace {}", fmt_list_u64(&[1; 17])));
    out.push(format!("tip5 hash10 {}", fmt_list_u64(&[1; 9])));
    out.push(format!("tip5 hashpair {} {}", fmt_list_u64(&[1; 5]), fmt_list_u64(&[1; 4])));
    out.push(format!("tip5 perm {}", fmt_list_u64(&[P; 16])));
}

// ---- runner --------------------------------------------------------------------------------------------
/// canonical value, or `nc<raw>` for a word that is not stored canonically
fn fmt_state(xs: &[BFieldElement]) -> String {
    let v: Vec<String> =
        xs.iter().map(|x| if x.raw_u64() < P { x.value().to_string() } else { format!("nc{}", x.raw_u64()) }).collect();
    format!("[{}]", v.join(","))
}
fn canon_vals(a: &Arg, n: usize) -> Option<Vec<u64>> {
    let v = a.u64s()?;
    if v.len() != n || v.iter().any(|&x| x >= P) {
        return None;
    }
    Some(v)
}
fn vals(xs: &[BFieldElement]) -> Vec<u64> {
    xs.iter().map(|x| x.value()).collect()
}
fn all_canon(xs: &[BFieldElement]) -> bool {
    xs.iter().all(|x| x.raw_u64() < P)
}
fn spec_hash10(input: &[u64]) -> Vec<u64> {
    let mut s = [1u64; 16];
    s[..10].copy_from_slice(input);
    spec_perm(&s)[..5].to_vec()
}

pub fn run_tip5(op: &str, a: &[Arg], st: &mut Stats) -> Option<Out> {
    Some(match (op, a) {
        ("trace", [xs]) => {
            let v: [u64; 16] = canon_vals(xs, 16)?.try_into().ok()?;
            let state = v.map(BFieldElement::new);
            let mut traced = Tip5 { state };
            let tr = traced.trace();
            let mut p = Tip5 { state };
            p.permutation();
            let mut ok_round = true;
            let mut ok_canon = true;
            for r in 0..NUM_ROUNDS {
                let before: [u64; 16] = vals(&tr[r]).try_into().unwrap();
                classify_round(&before, st);
                classify_relations(&before, st);
                ok_round &= vals(&tr[r + 1]) == spec_round(r, &before).to_vec();
                ok_canon &= all_canon(&tr[r + 1]);
            }
            let body: Vec<String> = tr.iter().map(|s| fmt_state(s)).collect();
            Out::ok(format!("ok:[{}]", body.join(",")))
                .with_oracle(tr[0] == state, "trace[0] is not the initial state")
                .with_oracle(ok_canon, "a traced state holds a non-canonical word")
                .with_oracle(ok_round, "a traced round differs from the Tip5 specification round")
                .with_oracle(tr[NUM_ROUNDS] == p.state, "trace's last state differs from permutation()")
                .with_oracle(traced.state == p.state, "trace() does not leave the sponge in the permuted state")
        }
        ("perm", [xs]) => {
            let v: [u64; 16] = canon_vals(xs, 16)?.try_into().ok()?;
            let mut p = Tip5 { state: v.map(BFieldElement::new) };
            p.permutation();
            Out::ok(format!("ok:{}", fmt_state(&p.state)))
                .with_oracle(all_canon(&p.state), "permutation output not canonical")
                .with_oracle(vals(&p.state) == spec_perm(&v).to_vec(), "permutation differs from the Tip5 specification")
        }
        ("hash10", [xs]) => {
            let v = canon_vals(xs, 10)?;
            let input: [BFieldElement; 10] = v.iter().map(|&x| BFieldElement::new(x)).collect::<Vec<_>>().try_into().ok()?;
            let d = Tip5::hash_10(&input);
            Out::ok(format!("ok:{}", fmt_state(&d)))
                .with_oracle(all_canon(&d), "hash_10 output not canonical")
                .with_oracle(vals(&d) == spec_hash10(&v), "hash_10 differs from the specification")
        }
        ("hashpair", [l, r]) => {
            let (lv, rv) = (canon_vals(l, 5)?, canon_vals(r, 5)?);
            let (ld, rd) = (l.digest()?, r.digest()?);
            let d = Tip5::hash_pair(ld, rd);
            let both: Vec<u64> = lv.iter().chain(rv.iter()).cloned().collect();
            let input: [BFieldElement; 10] = both.iter().map(|&x| BFieldElement::new(x)).collect::<Vec<_>>().try_into().ok()?;
            if lv == rv {
                st.hit("hashpair:left=right");
            }
            Out::ok(format!("ok:{}", fmt_state(&d.values())))
                .with_oracle(all_canon(&d.values()), "hash_pair output not canonical")
                .with_oracle(vals(&d.values()) == spec_hash10(&both), "hash_pair differs from the specification")
                .with_oracle(d.values() == Tip5::hash_10(&input), "hash_pair(l, r) != hash_10(l ++ r)")
        }
        ("digesthash", [x]) => {
            let v = canon_vals(x, 5)?;
            let d = x.digest()?.hash();
            let mut both = v.clone();
            both.extend([0u64; 5]);
            Out::ok(format!("ok:{}", fmt_state(&d.values())))
                .with_oracle(all_canon(&d.values()), "Digest::hash output not canonical")
                .with_oracle(vals(&d.values()) == spec_hash10(&both), "Digest::hash differs from hash_pair(self, 0)")
        }
        ("varlen", [xs]) => {
            let v = xs.u64s()?;
            if v.iter().any(|&x| x >= P) {
                return None;
            }
            let input: Vec<BFieldElement> = v.iter().map(|&x| BFieldElement::new(x)).collect();
            let d = Tip5::hash_varlen(&input);
            // reference sponge on the specification permutation
            let mut padded = v.clone();
            padded.push(1);
            while padded.len() % RATE != 0 {
                padded.push(0);
            }
            let mut s = [0u64; 16];
            for ch in padded.chunks(RATE) {
                s[..RATE].copy_from_slice(ch);
                s = spec_perm(&s);
            }
            st.hit(&format!("varlen:len%10={}", v.len() % 10));
            Out::ok(format!("ok:{}", fmt_state(&d.values())))
                .with_oracle(vals(&d.values()) == s[..5].to_vec(), "hash_varlen differs from the sponge over the specification permutation")
        }
        // pinned vectors of the repository's test-suite (corpus): the reply is the comparison with the pinned value
        ("hash10is", [xs, want]) => {
            let v = canon_vals(xs, 10)?;
            let w = canon_vals(want, 5)?;
            let input: [BFieldElement; 10] = v.iter().map(|&x| BFieldElement::new(x)).collect::<Vec<_>>().try_into().ok()?;
            let d = Tip5::hash_10(&input);
            Out::ok(format!("ok:{}", vals(&d) == w)).with_oracle(vals(&d) == w, "hash_10 differs from the pinned vector")
        }
        ("varlensumis", [n, want]) => {
            let n = n.u64()?;
            let w = canon_vals(want, 5)?;
            let mut sum = [0u64; 5];
            for i in 0..n {
                let pre: Vec<BFieldElement> = (0..i).map(BFieldElement::new).collect();
                let d = Tip5::hash_varlen(&pre);
                for k in 0..5 {
                    sum[k] = addp(sum[k], d.values()[k].value());
                }
            }
            Out::ok(format!("ok:{}", sum.to_vec() == w)).with_oracle(sum.to_vec() == w, "sum of hash_varlen digests differs from the pinned vector")
        }
        ("genfn", [xs]) => {
            let v = xs.u64s()?;
            if v.len() != 16 {
                return None;
            }
            let o = generated_function(&v);
            // 16 * circulant row, modulo 2^64
            let mut ok = true;
            for i in 0..16 {
                let mut acc = 0u64;
                for j in 0..16 {
                    acc = acc.wrapping_add(mds_entry(i, j).wrapping_mul(v[j]));
                }
                ok &= o[i] == acc.wrapping_mul(16);
            }
            st.hit(if v.iter().all(|&x| x < 1 << 32) { "genfn:32-bit-inputs" } else { "genfn:wide-inputs" });
            Out::ok(format!("ok:{}", fmt_list_u64(&o))).with_oracle(ok, "generated_function is not 16 x circulant (mod 2^64)")
        }
        ("fermat", [b]) => {
            let b = b.u64()?;
            if b >= 65535 {
                return None;
            }
            let r = Tip5::offset_fermat_cube_map(b as u16) as u64;
            Out::ok(format!("ok:{}", r)).with_oracle(r == fermat_cube(b), "offset_fermat_cube_map differs from ((b+1)^3+256) % 257")
        }
        ("lut", [b]) => {
            let b = b.usize()?;
            if b >= 256 {
                return None;
            }
            let r = LOOKUP_TABLE[b] as u64;
            Out::ok(format!("ok:{}", r)).with_oracle(r == fermat_cube(b as u64), "LOOKUP_TABLE entry differs from the offset Fermat cube map")
        }
        ("newstate", [d]) => {
            let t = match d.sym()? {
                "fixed" => Tip5::new(twenty_first::util_types::sponge::Domain::FixedLength),
                "varlen" => Tip5::new(twenty_first::util_types::sponge::Domain::VariableLength),
                _ => return None,
            };
            Out::ok(format!("ok:{}", fmt_state(&t.state))).with_oracle(all_canon(&t.state), "initial state not canonical")
        }
        ("const", [c]) => match c.sym()? {
            "lookup_table" => Out::ok(format!("ok:{}", fmt_list_u64(&LOOKUP_TABLE.map(|x| x as u64)))),
            "round_constants" => {
                let small = ROUND_CONSTANTS.iter().all(|c| c.raw_u64() <= P - 0xffff_ffff);
                Out::ok(format!("ok:{}", fmt_bfes(&ROUND_CONSTANTS)))
                    .with_oracle(small, "a round constant's raw word exceeds P - 2^32 + 1 (adding it to a word in [P,2^64) would not be canonical)")
            }
            "mds_first_column" => Out::ok(format!("ok:{}", fmt_list_u64(&MDS_MATRIX_FIRST_COLUMN.map(|x| x as u64)))),
            "sizes" => Out::ok(format!(
                "ok:{}",
                fmt_list_u64(&[STATE_SIZE as u64, NUM_SPLIT_AND_LOOKUP as u64, NUM_ROUNDS as u64, RATE as u64, CAPACITY as u64, Digest::LEN as u64])
            )),
            _ => return None,
        },
        _ => return None,
    })
}
