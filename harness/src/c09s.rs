// PROP: C09  FAMILIES: polyds=run_polyds
//! C09, structure-aware stream.  Family `polyds` (implementation-side oracles only; the Lean driver has no handler for
//! the family and answers `skip`):
//!   polyds <op> <class-label> <b|x> args...          (clean_divide: no field tag, as in `polyd`)
//! * `<class-label>` = `<family>:<class>:...`, recorded as `class:<family>:<class>` in the distribution;
//! * a polynomial is an explicit list or a symbol in the segment language of c08s.rs (`Z:k`, `E:v`, `C:v:k`, `R:seed:k`,
//!   `N:seed:k`, ... joined by `.`), lowest degree first, *stored exactly as written* (stored high-order zeros included);
//! * `<op>` is either an op of the family `polyd` (c09.rs) -- then the expanded line is executed by `c09::run_polyd` with
//!   all of its oracles (schoolbook remainder, a = q*d + r, strategies-agree, Bezout, P*G = 1 mod X^n, ...) -- or one of
//!   the multi-step ops below, in which the stored high-order zeros are *produced by operations of the crate* and every
//!   reduction / division strategy is then run on the result and compared with schoolbook arithmetic on the inputs:
//!     sub_reduce p q m        a = p - q (cancelling top terms)                 then all reduction strategies of a mod m
//!     rem_reduce p d m        a = p % d (a remainder)                          then all reduction strategies of a mod m
//!     smul0_reduce p r m      a = p.scalar_mul(0) + r                          then all reduction strategies of a mod m
//!     sub_divide p q d        a = p - q                                        then divide / naive_divide / div / rem
//!     mul_sub_xgcd p q y      a = p - q                                        then xgcd(a, y): monic gcd, divides both, Bezout
use super::c08s::{expand_arg, hit_label, label_family};
use super::c09::Fld;
use crate::util::*;
use twenty_first::prelude::*;

// ---- independent schoolbook arithmetic on coefficient vectors (field + - * inverse only) ------------------------
fn trim<FF: Fld>(v: &[FF]) -> Vec<FF> {
    let mut n = v.len();
    while n > 0 && v[n - 1] == FF::ZERO {
        n -= 1;
    }
    v[..n].to_vec()
}
fn sb_sub<FF: Fld>(a: &[FF], b: &[FF]) -> Vec<FF> {
    let mut r = vec![FF::ZERO; a.len().max(b.len())];
    for (i, c) in a.iter().enumerate() {
        r[i] = r[i] + *c;
    }
    for (i, c) in b.iter().enumerate() {
        r[i] = r[i] - *c;
    }
    trim(&r)
}
fn sb_add<FF: Fld>(a: &[FF], b: &[FF]) -> Vec<FF> {
    let mut r = vec![FF::ZERO; a.len().max(b.len())];
    for (i, c) in a.iter().enumerate() {
        r[i] = r[i] + *c;
    }
    for (i, c) in b.iter().enumerate() {
        r[i] = r[i] + *c;
    }
    trim(&r)
}
fn sb_mul<FF: Fld>(a: &[FF], b: &[FF]) -> Vec<FF> {
    let (a, b) = (trim(a), trim(b));
    if a.is_empty() || b.is_empty() {
        return vec![];
    }
    let mut r = vec![FF::ZERO; a.len() + b.len() - 1];
    for (i, x) in a.iter().enumerate() {
        if *x == FF::ZERO {
            continue;
        }
        for (j, y) in b.iter().enumerate() {
            r[i + j] = r[i + j] + *x * *y;
        }
    }
    trim(&r)
}
fn sb_divmod<FF: Fld>(a: &[FF], d: &[FF]) -> Option<(Vec<FF>, Vec<FF>)> {
    let mut r = trim(a);
    let d = trim(d);
    if d.is_empty() {
        return None;
    }
    if r.len() < d.len() {
        return Some((vec![], r));
    }
    let lc_inv = d[d.len() - 1].inverse();
    let mut q = vec![FF::ZERO; r.len() - d.len() + 1];
    for i in (0..q.len()).rev() {
        let c = r[i + d.len() - 1] * lc_inv;
        q[i] = c;
        if c == FF::ZERO {
            continue;
        }
        for (j, y) in d.iter().enumerate() {
            r[i + j] = r[i + j] - c * *y;
        }
    }
    r.truncate(d.len() - 1);
    Some((trim(&q), trim(&r)))
}
fn spoly<FF: Fld>(v: &[FF]) -> String {
    let s: Vec<String> = v.iter().map(|c| c.show()).collect();
    format!("[{}]", s.join(","))
}
fn ppoly<FF: Fld>(a: &Arg) -> Option<Vec<FF>> {
    a.list()?.iter().map(FF::parse).collect()
}

/// every reduction strategy on `a` (as produced by the crate, storage untouched) against the schoolbook remainder
fn reduce_everywhere<FF: Fld>(what: &str, a: &Polynomial<'static, FF>, mv: &[FF], want: &[FF]) -> Out {
    let m = Polynomial::new(mv.to_vec());
    let r = a.reduce(&m);
    let mut o = Out::ok(format!("ok:{}", spoly(r.coefficients())));
    let t = |s: &str| format!("{what}: {s} differs from the schoolbook remainder of the inputs");
    o = o.with_oracle(r.coefficients() == want, t("reduce"));
    o = o.with_oracle(a.fast_reduce(&m).coefficients() == want, t("fast_reduce"));
    o = o.with_oracle((a.clone() % m.clone()).coefficients() == want, t("rem"));
    o = o.with_oracle(a.divide(&m).1.coefficients() == want, t("divide"));
    if trim(mv).len() >= 2 {
        // stage 1 alone: the result must be congruent to a, i.e. have the same schoolbook remainder
        let (v, tail) = m.shift_factor_ntt_with_tail_length();
        let s1 = a.reduce_by_ntt_friendly_modulus(&v, tail);
        let back = sb_divmod(s1.coefficients(), mv).map(|(_, r)| r);
        o = o.with_oracle(back.as_deref() == Some(want), t("reduce_by_ntt_friendly_modulus (then schoolbook)"));
    }
    o
}

fn run_multi<FF: Fld>(op: &str, a: &[Arg], st: &mut Stats, fam: &str) -> Option<Out> {
    let l = |i: usize| -> Option<Vec<FF>> { ppoly::<FF>(a.get(i)?) };
    match op {
        "sub_reduce" | "rem_reduce" | "smul0_reduce" => {
            let (p, q, m) = (l(0)?, l(1)?, l(2)?);
            if trim(&m).is_empty() || (op == "rem_reduce" && trim(&q).is_empty()) {
                return None;
            }
            let (pp, pq) = (Polynomial::new(p.clone()), Polynomial::new(q.clone()));
            let (acc, base): (Polynomial<'static, FF>, Vec<FF>) = match op {
                "sub_reduce" => (pp - pq, sb_sub(&p, &q)),
                "rem_reduce" => (pp % pq, sb_divmod(&p, &q)?.1),
                _ => (pp.scalar_mul::<FF, FF>(FF::ZERO) + pq, trim(&q)),
            };
            let want = sb_divmod(&base, &m)?.1;
            st.hit(&format!("class:{}:numerator-degree={}", fam, if base.is_empty() { "zero" } else if base.len() < trim(&m).len() { "lt-modulus" } else { "ge-modulus" }));
            st.hit(&format!("class:{}:stored-len>={}", fam, [1024usize, 512, 256, 0].iter().find(|&&t| p.len().max(q.len()) >= t).unwrap()));
            Some(reduce_everywhere(op, &acc, &m, &want))
        }
        "sub_divide" => {
            let (p, q, d) = (l(0)?, l(1)?, l(2)?);
            let a0 = Polynomial::new(p.clone()) - Polynomial::new(q.clone());
            let base = sb_sub(&p, &q);
            let (wq, wr) = sb_divmod(&base, &d)?;
            let pd = Polynomial::new(d.clone());
            let (q1, r1) = a0.divide(&pd);
            let mut o = Out::ok(format!("ok:[{},{}]", spoly(q1.coefficients()), spoly(r1.coefficients())));
            o = o.with_oracle(q1.coefficients() == wq && r1.coefficients() == wr, "sub_divide: divide differs from schoolbook long division of p - q");
            let (q2, r2) = a0.naive_divide(&pd);
            o = o.with_oracle(q2.coefficients() == wq && r2.coefficients() == wr, "sub_divide: naive_divide differs from schoolbook long division of p - q");
            o = o.with_oracle((a0.clone() / pd.clone()).coefficients() == wq, "sub_divide: div differs from the schoolbook quotient of p - q");
            o = o.with_oracle((a0.clone() % pd.clone()).coefficients() == wr, "sub_divide: rem differs from the schoolbook remainder of p - q");
            let recomposed = sb_add(&sb_mul(q1.coefficients(), &d), r1.coefficients());
            o = o.with_oracle(recomposed == base && r1.coefficients().len() < trim(&d).len(), "sub_divide: a != q*d + r with deg r < deg d");
            Some(o)
        }
        "mul_sub_xgcd" => {
            let (p, q, y) = (l(0)?, l(1)?, l(2)?);
            let a0 = Polynomial::new(p.clone()) - Polynomial::new(q.clone());
            let base = sb_sub(&p, &q);
            let (g, ca, cb) = Polynomial::xgcd(a0, Polynomial::new(y.clone()));
            let (gv, cav, cbv) = (g.coefficients().to_vec(), ca.coefficients().to_vec(), cb.coefficients().to_vec());
            let mut o = Out::ok(format!("ok:[{},{},{}]", spoly(&gv), spoly(&cav), spoly(&cbv)));
            o = o.with_oracle(gv.is_empty() || gv.last() == Some(&FF::ONE), "xgcd(p - q, y): gcd neither zero nor monic");
            o = o.with_oracle(sb_add(&sb_mul(&cav, &base), &sb_mul(&cbv, &y)) == gv, "xgcd(p - q, y): g != a*x + b*y");
            if base.is_empty() && trim(&y).is_empty() {
                o = o.with_oracle(gv.is_empty(), "xgcd(0, 0) != 0");
            } else {
                o = o
                    .with_oracle(!gv.is_empty(), "xgcd(p - q, y): gcd zero for a non-zero input")
                    .with_oracle(sb_divmod(&base, &gv).is_some_and(|(_, r)| r.is_empty()), "xgcd(p - q, y): g does not divide p - q")
                    .with_oracle(sb_divmod(&y, &gv).is_some_and(|(_, r)| r.is_empty()), "xgcd(p - q, y): g does not divide y");
            }
            Some(o)
        }
        _ => None,
    }
}

pub fn run_polyds(op: &str, args: &[Arg], st: &mut Stats) -> Option<Out> {
    let label = args.first()?.sym()?.to_string();
    hit_label(st, &label);
    let fam = label_family(&label).to_string();
    if op == "clean_divide" {
        let rest: Vec<Arg> = args[1..].iter().map(|a| expand_arg("b", a)).collect();
        return super::c09::run_polyd(op, &rest, st);
    }
    let tag = args.get(1)?.sym()?.to_string();
    let rest: Vec<Arg> = args[2..].iter().map(|a| expand_arg(&tag, a)).collect();
    match op {
        "sub_reduce" | "rem_reduce" | "smul0_reduce" | "sub_divide" | "mul_sub_xgcd" => match tag.as_str() {
            "b" => run_multi::<BFieldElement>(op, &rest, st, &fam),
            "x" => run_multi::<XFieldElement>(op, &rest, st, &fam),
            _ => None,
        },
        _ => {
            let mut full = vec![Arg::Sym(tag)];
            full.extend(rest);
            super::c09::run_polyd(op, &full, st)
        }
    }
}

// ---- generator ---------------------------------------------------------------------------------------------
fn ex(tag: &str, s: &str) -> String {
    super::c08s::explicit(tag, s)
}
fn seed(r: &mut Rng) -> u64 {
    r.below(1 << 40)
}
fn nz(r: &mut Rng) -> u64 {
    1 + r.below(P - 1)
}
/// modulus / divisor of degree `dm` of the given shape
pub const MOD_CLASSES: [&str; 12] = ["dense", "monic", "lead_m1", "xk", "xk_plus_c", "xk_minus_1", "xk_times_g", "trinomial", "stored_zeros", "sparse_low", "binomial_mid", "lead_2"];
fn modulus(kind: &str, dm: usize, r: &mut Rng) -> String {
    if dm == 0 {
        return format!("E:{}", nz(r));
    }
    match kind {
        "monic" => format!("R:{}:{}.E:1", seed(r), dm),
        "lead_m1" => format!("R:{}:{}.E:{}", seed(r), dm, P - 1),
        "lead_2" => format!("R:{}:{}.E:2", seed(r), dm),
        "xk" => format!("Z:{}.E:1", dm),
        "xk_plus_c" => format!("E:{}.Z:{}.E:1", nz(r), dm - 1),
        "xk_minus_1" => format!("E:{}.Z:{}.E:1", P - 1, dm - 1),
        "xk_times_g" if dm >= 3 => format!("Z:{}.N:{}:{}", dm - dm / 3, seed(r), dm / 3 + 1),
        "trinomial" if dm >= 4 => format!("E:{}.Z:1.E:{}.Z:{}.E:{}", nz(r), nz(r), dm - 3, nz(r)),
        "stored_zeros" => format!("R:{}:{}.E:{}.Z:{}", seed(r), dm, nz(r), 1 + r.below(5)),
        "sparse_low" if dm >= 4 => format!("N:{}:2.Z:{}.E:{}", seed(r), dm - 2, nz(r)),
        "binomial_mid" if dm >= 4 => format!("Z:{}.E:{}.Z:{}.E:{}", dm / 2, nz(r), dm - dm / 2 - 1, nz(r)),
        _ => format!("R:{}:{}.E:{}", seed(r), dm, nz(r)),
    }
}
/// numerator with `len` stored coefficients of the given shape
pub const NUM_CLASSES: [&str; 14] = [
    "top_half_zero", "top_quarter_zero", "only_low_8", "zero_window_mid", "xa_xb_c", "monomial", "xk_minus_1", "all_zero_stored", "dense", "one_top_zero", "low_zero_top_dense",
    "every_other_zero", "top_3_quarters_zero", "const_stored",
];
fn numerator(kind: &str, len: usize, tag: &str, r: &mut Rng) -> String {
    if len == 0 {
        return "Z:0".into();
    }
    let s = seed(r);
    match kind {
        "top_half_zero" => format!("N:{}:{}.Z:{}", s, len - len / 2, len / 2),
        "top_quarter_zero" => format!("N:{}:{}.Z:{}", s, len - len / 4, len / 4),
        "top_3_quarters_zero" => format!("N:{}:{}.Z:{}", s, len - 3 * (len / 4), 3 * (len / 4)),
        "only_low_8" => format!("N:{}:{}.Z:{}", s, len.min(8), len - len.min(8)),
        "one_top_zero" if len >= 2 => format!("N:{}:{}.Z:1", s, len - 1),
        "zero_window_mid" if len >= 8 => format!("N:{}:{}.Z:{}.N:{}:{}", s, len / 8, len - 2 * (len / 8), s + 1, len / 8),
        "low_zero_top_dense" if len >= 4 => format!("Z:{}.N:{}:{}", len / 2, s, len - len / 2),
        "xa_xb_c" if len >= 5 => format!("E:{}.Z:2.E:1.Z:{}.E:1", nz(r), len - 5),
        "monomial" => format!("Z:{}.E:{}", len - 1, nz(r)),
        "xk_minus_1" if len >= 2 => format!("E:{}.Z:{}.E:1", P - 1, len - 2),
        "all_zero_stored" => format!("Z:{}", len),
        "const_stored" => format!("E:{}.Z:{}", nz(r), len - 1),
        "every_other_zero" => {
            let mut rr = Rng::new(s);
            let v: Vec<String> = (0..len)
                .map(|i| {
                    if i % 2 == 1 {
                        if tag == "x" { "(0;0;0)".to_string() } else { "0".to_string() }
                    } else if tag == "x" {
                        format!("({};{};{})", rr.below(P), rr.below(P), 1 + rr.below(P - 1))
                    } else {
                        (1 + rr.below(P - 1)).to_string()
                    }
                })
                .collect();
            format!("[{}]", v.join(","))
        }
        _ => format!("R:{}:{}.E:{}", s, len - 1, nz(r)),
    }
}
fn ntt_n(dm: usize) -> usize {
    usize::max(256, dm * 2).next_power_of_two()
}
struct G<'a> {
    r: &'a mut Rng,
    out: &'a mut Vec<String>,
    /// remaining model work (stored length x modulus length) for explicit `polyd` lines
    budget: u64,
}
impl G<'_> {
    fn tag(&mut self, work: usize) -> &'static str {
        if work <= 40_000 && self.r.coin(1, 5) {
            "x"
        } else {
            "b"
        }
    }
    /// emit the structured line and, within the model budget, the same operands as an explicit `polyd` line
    fn both(&mut self, op: &str, label: &str, tag: &str, a: &str, b: &str, work: u64, always: bool) {
        self.out.push(format!("polyds {} {} {} {} {}", op, label, tag, a, b));
        let w = work * if tag == "x" { 6 } else { 1 };
        if always || (w <= self.budget && w <= 400_000) {
            self.budget = self.budget.saturating_sub(w);
            self.out.push(format!("polyd {} {} {} {}", op, tag, ex(tag, a), ex(tag, b)));
        }
    }
}

pub fn gen(rng: &mut Rng, thorough: bool, out: &mut Vec<String>) {
    let mut g = G { r: rng, out, budget: if thorough { 400_000_000 } else { 7_000_000 } };
    let mut fps_lines = if thorough { 60 } else { 10 };
    let mut clean_lines = if thorough { 12 } else { 2 };
    const RED: [&str; 3] = ["reduce", "fast_reduce", "reduce_ntt"];
    let mut k = 0usize;
    // -------- reduction: numerator shape x stored length around the window sizes x modulus shape --------------
    // n = max(256, 2 deg m) rounded up to a power of two is the NTT window; stored lengths n-1, n, n+1, one / two / three
    // chunks above, 4x the modulus degree, and well beyond (1000+)
    let dms: Vec<usize> = if thorough { vec![1, 2, 3, 10, 20, 64, 100, 127, 128, 129, 200, 255, 256, 257, 300] } else { vec![1, 3, 10, 20, 64, 127, 128, 129, 200, 256, 257] };
    for &dm in &dms {
        let n = ntt_n(dm);
        let chunk = n - dm;
        let mut lens: Vec<usize> = vec![dm + 1, 4 * dm, 4 * dm + 1, 4 * dm + 2, n - 1, n, n + 1, n + chunk - 1, n + chunk, n + chunk + 1, n + 2 * chunk, n + 2 * chunk + 1, 2 * n, 1001, 1100];
        if thorough {
            lens.extend([3 * n + 5, 2048, 2049, 4 * n]);
        }
        lens.sort();
        lens.dedup();
        for &len in &lens {
            for (ni, nk) in NUM_CLASSES.iter().enumerate() {
                // quick tier: every numerator class at every length for the small windows; a third of them for n >= 512
                if !thorough && n >= 512 && (ni + k) % 3 != 0 {
                    continue;
                }
                if !thorough && len > 1200 {
                    continue;
                }
                k += 1;
                let mk = MOD_CLASSES[(k * 5) % MOD_CLASSES.len()];
                let tag = g.tag(len * dm);
                let a = numerator(nk, len, tag, g.r);
                let m = modulus(mk, dm, g.r);
                let op = RED[k % 3];
                g.both(op, &format!("red:num_{}:mod_{}", nk, mk), tag, &a, &m, (len * (dm + 1)) as u64, false);
            }
        }
    }
    // powers of X and other sparse moduli against sparse numerators (X^1000 + X^3 + 5 mod X^10, ...)
    for &(a_deg, m_deg) in &[(1000usize, 10usize), (1000, 1), (255, 10), (256, 10), (257, 10), (511, 100), (512, 128), (1023, 200), (300, 3), (2000, 10), (700, 20), (1024, 256)] {
        if !thorough && a_deg > 1100 {
            continue;
        }
        for mk in ["xk", "xk_plus_c", "xk_minus_1", "trinomial", "dense", "xk_times_g"] {
            for nk in ["xa_xb_c", "monomial", "xk_minus_1", "const_stored", "only_low_8"] {
                k += 1;
                if !thorough && k % 2 == 0 {
                    continue;
                }
                let a = numerator(nk, a_deg + 1, "b", g.r);
                let m = modulus(mk, m_deg, g.r);
                g.both(RED[k % 3], &format!("red:sparse_{}:mod_{}", nk, mk), "b", &a, &m, ((a_deg + 1) * (m_deg + 1)) as u64, (a_deg, m_deg) == (1000, 10) && nk == "xa_xb_c");
            }
        }
    }
    // -------- stored zeros produced by operations: subtract-then-reduce, remainder-then-reduce, 0 * p + r ----------
    let sub_dms: Vec<usize> = if thorough { vec![1, 5, 20, 64, 128, 129, 200, 256, 257] } else { vec![1, 5, 20, 64, 128, 200, 257] };
    for &dm in &sub_dms {
        let n = ntt_n(dm);
        let chunk = n - dm;
        for &len in &[n - 1, n, n + 1, n + chunk, n + chunk + 1, 700, 1100] {
            // number of cancelling top coefficients: one, a chunk (+-1), half, all but the modulus length, all but one, all
            let mut cancels: Vec<usize> = vec![1, chunk.saturating_sub(1), chunk, chunk + 1, len / 2, len.saturating_sub(dm), len.saturating_sub(dm + 1), len - 1, len];
            cancels.retain(|&c| c >= 1 && c <= len);
            cancels.sort();
            cancels.dedup();
            for &c in &cancels {
                k += 1;
                if !thorough && (n >= 512 || len > 700) && k % 3 != 0 {
                    continue;
                }
                let tag = g.tag(len * dm * 4);
                let mk = MOD_CLASSES[k % MOD_CLASSES.len()];
                let m = modulus(mk, dm, g.r);
                let top = seed(g.r);
                // p and q share their top c coefficients
                let p = format!("R:{}:{}.N:{}:{}", seed(g.r), len - c, top, c);
                let q = format!("R:{}:{}.N:{}:{}", seed(g.r), len - c, top, c);
                g.out.push(format!("polyds sub_reduce ops:sub_reduce:cancel_{}:mod_{} {} {} {} {}", if c == len { "all".to_string() } else if c == len - 1 { "all_but_1".into() } else if c >= chunk { "ge_chunk".into() } else { "lt_chunk".into() }, mk, tag, p, q, m));
                if k % 4 == 0 {
                    // the same numerator, zeros written out, for the model
                    let pe = ex(tag, &format!("R:{}:{}.Z:{}", seed(g.r), len - c, c));
                    let w = (len * (dm + 1)) as u64 * if tag == "x" { 6 } else { 1 };
                    if w <= g.budget && w <= 400_000 {
                        g.budget -= w;
                        g.out.push(format!("polyd {} {} {} {}", RED[k % 3], tag, pe, ex(tag, &m)));
                    }
                }
                if k % 3 == 0 {
                    // 0 * p + r: stored length of p, degree of r
                    let rr = format!("R:{}:{}", seed(g.r), (len - c).max(1));
                    g.out.push(format!("polyds smul0_reduce ops:smul0_reduce:mod_{} {} {} {} {}", mk, tag, p, rr, m));
                }
                if k % 3 == 1 && dm >= 5 {
                    // a remainder modulo something of degree len - c, then reduced by m
                    let d = modulus(MOD_CLASSES[(k / 3) % MOD_CLASSES.len()], (len - c).max(dm + 1).min(300), g.r);
                    let big = format!("R:{}:{}", seed(g.r), (len - c).max(dm + 1).min(300) + 40);
                    g.out.push(format!("polyds rem_reduce ops:rem_reduce:mod_{} {} {} {} {}", mk, tag, big, d, m));
                }
            }
        }
    }
    // -------- division: structured dividends / divisors, degree pairs exactly at 4x, ops-produced dividends -----------
    let div_ops = ["divide", "naive_divide", "div", "rem"];
    g.budget = if thorough { 100_000_000 } else { 1_500_000 };
    for &dd in &[1usize, 2, 5, 16, 64, 100] {
        for da in [dd.saturating_sub(1), dd, dd + 1, 2 * dd, 4 * dd - 1, 4 * dd, 4 * dd + 1, 8 * dd] {
            for (ni, nk) in NUM_CLASSES.iter().enumerate() {
                k += 1;
                if !thorough && (da * dd > 3000 && k % 4 != 0) {
                    continue;
                }
                let dk = MOD_CLASSES[(k * 5) % MOD_CLASSES.len()];
                let tag = g.tag(da * dd * 4);
                let a = numerator(nk, da + 1, tag, g.r);
                let d = modulus(dk, dd, g.r);
                g.both(div_ops[k % 4], &format!("div:num_{}:div_{}", nk, dk), tag, &a, &d, ((da + 1) * (dd + 1)) as u64, false);
                if k % 5 == 0 {
                    let c = 1 + g.r.below(da as u64 + 1) as usize;
                    let top = seed(g.r);
                    let p = format!("R:{}:{}.N:{}:{}", seed(g.r), da + 1 - c, top, c);
                    let q = format!("R:{}:{}.N:{}:{}", seed(g.r), da + 1 - c, top, c);
                    g.out.push(format!("polyds sub_divide ops:sub_divide:div_{} {} {} {} {}", dk, tag, p, q, d));
                }
            }
        }
    }
    // -------- xgcd: sparse / cyclotomic-like operands with a known gcd shape, cancelling operands ------------------
    for &(i, j) in &[(6usize, 4usize), (12, 18), (16, 24), (35, 21), (64, 48), (7, 5), (1, 9), (30, 30)] {
        let tag = g.tag(i * j * 40);
        // gcd(X^i - 1, X^j - 1) = X^gcd(i,j) - 1
        let (a, b) = (format!("E:{}.Z:{}.E:1", P - 1, i - 1), format!("E:{}.Z:{}.E:1", P - 1, j - 1));
        g.both("xgcd", "gcd:xi_minus_1:xj_minus_1", tag, &a, &b, (40 * (i + j) * (i + j)) as u64, true);
        // powers of X (gcd = X^min), with stored zeros
        let (a, b) = (format!("Z:{}.E:{}.Z:2", i, nz(g.r)), format!("Z:{}.E:{}", j, nz(g.r)));
        g.both("xgcd", "gcd:xi:xj_stored_zeros", tag, &a, &b, (40 * (i + j) * (i + j)) as u64, true);
        // sparse against dense, trinomials
        let (a, b) = (numerator("xa_xb_c", i + 5, tag, g.r), modulus("dense", j, g.r));
        g.both("xgcd", "gcd:sparse:dense", tag, &a, &b, (40 * (i + j + 5) * (i + j + 5)) as u64, true);
        // first operand produced by a cancelling subtraction
        let top = seed(g.r);
        let c = 1 + g.r.below(i as u64) as usize;
        let p = format!("R:{}:{}.N:{}:{}", seed(g.r), i + 1 - c, top, c);
        let q = format!("R:{}:{}.N:{}:{}", seed(g.r), i + 1 - c, top, c);
        let y = modulus(MOD_CLASSES[k % MOD_CLASSES.len()], j, g.r);
        k += 1;
        g.out.push(format!("polyds mul_sub_xgcd ops:sub_xgcd {} {} {} {}", tag, p, q, y));
        g.out.push(format!("polyds mul_sub_xgcd ops:sub_xgcd_equal {} {} {} {}", tag, p, p, y));
    }
    // -------- power-series inverse: sparse series with a closed-form inverse, stored zeros, precision around 2^k ---------
    for &(dp, prec) in &[(1usize, 8usize), (1, 64), (1, 257), (2, 100), (8, 33), (16, 256), (64, 17), (128, 5), (255, 3), (256, 2), (256, 9), (257, 4), (300, 2)] {
        for sk in ["one_minus_x_k", "one_plus_top", "stored_zeros", "low_8_then_top"] {
            k += 1;
            if !thorough && dp >= 255 && k % 2 == 0 {
                continue;
            }
            let p = match sk {
                "one_minus_x_k" => format!("E:1.Z:{}.E:{}", dp - 1, P - 1),
                "one_plus_top" => format!("E:{}.Z:{}.E:{}", nz(g.r), dp - 1, nz(g.r)),
                "stored_zeros" => format!("N:{}:{}.Z:{}", seed(g.r), dp + 1, 1 + g.r.below(300)),
                _ => format!("N:{}:{}.Z:{}.E:{}", seed(g.r), (dp).min(8), dp - dp.min(8), nz(g.r)),
            };
            g.out.push(format!("polyds fps_newton fps:{} b {} {}", sk, p, prec));
            let full = ((1usize << (prec.next_power_of_two().ilog2() + 1)) * dp).next_power_of_two();
            if full <= 8192 && fps_lines > 0 {
                fps_lines -= 1;
                g.out.push(format!("polyd fps_newton b {} {}", ex("b", &p), prec));
            }
        }
    }
    // -------- structured multiple of sparse polynomials ----------------------------------------------------------
    for &dp in &[1usize, 4, 17, 64, 200] {
        for mk in ["xk", "xk_plus_c", "xk_minus_1", "trinomial", "xk_times_g", "stored_zeros"] {
            for nn in [dp, dp + 1, 3 * dp + 1, 256, 300] {
                k += 1;
                if !thorough && k % 3 != 0 {
                    continue;
                }
                let p = modulus(mk, dp, g.r);
                g.out.push(format!("polyds struct_mult smu:{} b {} {}", mk, p, nn));
                if nn <= 64 {
                    g.out.push(format!("polyd struct_mult b {} {}", ex("b", &p), nn));
                }
            }
        }
    }
    // -------- clean_divide: sparse quotients / divisors above the cut-off 512, dividend degree around 2^k ---------------
    for &(dd, dq) in &[(512usize, 1usize), (512, 511), (512, 512), (513, 510), (600, 424), (700, 300), (1024, 3)] {
        for (qk, dk) in [("xa_xb_c", "xk_plus_c"), ("monomial", "dense"), ("dense", "xk_minus_1"), ("xk_minus_1", "trinomial"), ("every_other_zero", "sparse_low"), ("dense", "xk")] {
            k += 1;
            if !thorough && (k % 2 == 0 || dd > 700) {
                continue;
            }
            // the dividend is the schoolbook product q * d (computed here), stored with 0..2 extra zeros
            let q: Vec<BFieldElement> = ppoly(&expand_arg("b", &parse_arg(&numerator(qk, dq + 1, "b", g.r)).unwrap())).unwrap();
            let ds = modulus(dk, dd, g.r);
            let d: Vec<BFieldElement> = ppoly(&expand_arg("b", &parse_arg(&ds).unwrap())).unwrap();
            let mut a = sb_mul(&q, &d);
            a.extend(std::iter::repeat(BFieldElement::new(0)).take(k % 3));
            let astr = spoly(&a);
            g.out.push(format!("polyds clean_divide cdv:quot_{}:div_{} {} {}", qk, dk, astr, ds));
            if clean_lines > 0 && dd <= 600 {
                clean_lines -= 1;
                g.out.push(format!("polyd clean_divide {} {}", astr, ex("b", &ds)));
            }
        }
    }
}
