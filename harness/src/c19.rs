// PROP: C19  FAMILIES: u32s=run_u32s
//! C19 -- `U32s<N>`: exact big-integer arithmetic or panic. Family `u32s`: `u32s <op> N <limbs> ...` for N in 0..=5.
//! Every op is evaluated on the real crate; the expected result is recomputed with `num-bigint` (property oracle,
//! independent of the Lean model).
use crate::util::*;
use num_bigint::BigUint;
use num_traits::{One, Zero};
use std::panic::{catch_unwind, AssertUnwindSafe};
use twenty_first::prelude::*;

const M: u64 = u32::MAX as u64;

fn catch<T>(f: impl FnOnce() -> T) -> Option<T> {
    catch_unwind(AssertUnwindSafe(f)).ok()
}

fn limbs<const N: usize>(a: &Arg) -> Option<U32s<N>> {
    let v = a.u64s()?;
    if v.len() != N || v.iter().any(|&x| x > M) {
        return None;
    }
    let arr: [u32; N] = v.iter().map(|&x| x as u32).collect::<Vec<_>>().try_into().ok()?;
    Some(U32s::new(arr))
}

/// big-integer value of the limbs, computed here (not through the crate's conversion)
fn big<const N: usize>(x: &U32s<N>) -> BigUint {
    BigUint::new(x.as_ref().to_vec())
}

/// the N-limb representation of `v` if it fits
fn fit<const N: usize>(v: &BigUint) -> Option<Vec<u32>> {
    if v.bits() > 32 * N as u64 {
        return None;
    }
    let mut d = v.to_u32_digits();
    d.resize(N, 0);
    Some(d)
}

fn fmt_u32s(xs: &[u32]) -> String {
    fmt_list_u64(&xs.iter().map(|&x| x as u64).collect::<Vec<_>>())
}

fn reply<const N: usize>(r: &Option<U32s<N>>) -> String {
    match r {
        Some(x) => format!("ok:{}", fmt_u32s(x.as_ref())),
        None => "panic".into(),
    }
}

/// compare the implementation's result with the exact-or-panic expectation
fn judge<const N: usize>(op: &str, got: Option<U32s<N>>, want: Option<Vec<u32>>, st: &mut Stats) -> Out {
    st.hit(&format!("{}:N={}:{}", op, N, if want.is_some() { "exact" } else { "panic-expected" }));
    let ok = match (&got, &want) {
        (Some(g), Some(w)) => g.as_ref()[..] == w[..],
        (None, None) => true,
        _ => false,
    };
    let what = match (&got, &want) {
        (Some(_), None) => format!("{op}: result not representable but no panic (wrapped/truncated)"),
        (None, Some(_)) => format!("{op}: panicked although the exact result is representable"),
        _ => format!("{op}: wrong limbs"),
    };
    Out::ok(reply(&got)).with_oracle(ok, what)
}

/// length of the longest run of 0xffffffff limbs (carry chains) -- for the distribution table
fn ones_run<const N: usize>(x: &U32s<N>) -> usize {
    let mut best = 0;
    let mut cur = 0;
    for &l in x.as_ref() {
        if l == u32::MAX {
            cur += 1;
            best = best.max(cur);
        } else {
            cur = 0;
        }
    }
    best
}

fn run_n<const N: usize>(op: &str, a: &[Arg], st: &mut Stats) -> Option<Out> {
    let top = BigUint::one() << (32 * N);
    Some(match (op, a) {
        ("add", [x, y]) | ("sub", [x, y]) | ("mul", [x, y]) | ("div", [x, y]) | ("rem", [x, y]) => {
            let (x, y): (U32s<N>, U32s<N>) = (limbs(x)?, limbs(y)?);
            let (bx, by) = (big(&x), big(&y));
            st.hit(&format!("{}:ones-run={}", op, ones_run(&x).max(ones_run(&y))));
            let (got, want) = match op {
                "add" => {
                    let s = &bx + &by;
                    if s == top {
                        st.hit("add:sum=2^(32N)");
                    }
                    if &s + 1u32 == top {
                        st.hit("add:sum=2^(32N)-1");
                    }
                    (catch(|| x + y), fit::<N>(&s))
                }
                "sub" => {
                    if bx == by {
                        st.hit("sub:equal");
                    }
                    if &bx + 1u32 == by {
                        st.hit("sub:diff=-1");
                    }
                    (catch(|| x - y), if bx >= by { fit::<N>(&(&bx - &by)) } else { None })
                }
                "mul" => {
                    let p = &bx * &by;
                    if p >= top && p < (&top << 1) {
                        st.hit("mul:product-in-[2^(32N),2^(32N+1))");
                    }
                    if p < top && (&p << 1) >= top && N > 0 {
                        st.hit("mul:product-in-[2^(32N-1),2^(32N))");
                    }
                    (catch(|| x * y), fit::<N>(&p))
                }
                "div" => (catch(|| x / y), if by.is_zero() { None } else { fit::<N>(&(&bx / &by)) }),
                _ => (catch(|| x % y), if by.is_zero() { None } else { fit::<N>(&(&bx % &by)) }),
            };
            judge(op, got, want, st)
        }
        ("rem_div", [x, y]) => {
            let (x, y): (U32s<N>, U32s<N>) = (limbs(x)?, limbs(y)?);
            let (bx, by) = (big(&x), big(&y));
            let got = catch(|| x.rem_div(&y));
            st.hit(&format!("rem_div:N={}:{}", N, if by.is_zero() { "zero-divisor" } else if bx < by { "a<d" } else { "a>=d" }));
            let reply = match &got {
                Some((q, r)) => format!("ok:({};{})", fmt_u32s(q.as_ref()), fmt_u32s(r.as_ref())),
                None => "panic".into(),
            };
            let ok = match &got {
                None => by.is_zero(),
                Some((q, r)) => !by.is_zero() && big(q) == &bx / &by && big(r) == &bx % &by,
            };
            Out::ok(reply).with_oracle(ok, "rem_div: not (a div d, a mod d) / panic iff d = 0")
        }
        ("mul_two", [x]) => {
            let x: U32s<N> = limbs(x)?;
            let got = catch(|| {
                let mut t = x;
                t.mul_two();
                t
            });
            judge(op, got, fit::<N>(&(big(&x) << 1)), st)
        }
        ("div_two", [x]) => {
            let x: U32s<N> = limbs(x)?;
            let got = catch(|| {
                let mut t = x;
                t.div_two();
                t
            });
            judge(op, got, fit::<N>(&(big(&x) >> 1)), st)
        }
        ("cmp", [x, y]) => {
            let (x, y): (U32s<N>, U32s<N>) = (limbs(x)?, limbs(y)?);
            let o = x.cmp(&y);
            let want = big(&x).cmp(&big(&y));
            st.hit(&format!("cmp:{:?}", want));
            let s = match o {
                std::cmp::Ordering::Less => "lt",
                std::cmp::Ordering::Equal => "eq",
                std::cmp::Ordering::Greater => "gt",
            };
            let consistent = (x < y) == (o == std::cmp::Ordering::Less)
                && (x >= y) == (o != std::cmp::Ordering::Less)
                && (x > y) == (o == std::cmp::Ordering::Greater)
                && (x <= y) == (o != std::cmp::Ordering::Greater)
                && x.partial_cmp(&y) == Some(o);
            Out::ok(format!("ok:{s}")).with_oracle(o == want, "cmp differs from big-integer order").with_oracle(consistent, "cmp: operators inconsistent with cmp")
        }
        ("eq", [x, y]) => {
            let (x, y): (U32s<N>, U32s<N>) = (limbs(x)?, limbs(y)?);
            Out::ok(format!("ok:{}", x == y)).with_oracle((x == y) == (big(&x) == big(&y)), "eq differs from value equality")
        }
        ("sum", [xs]) => {
            let v: Vec<U32s<N>> = xs.list()?.iter().map(limbs::<N>).collect::<Option<_>>()?;
            let total: BigUint = v.iter().map(big).sum();
            let got = catch(|| v.iter().copied().sum::<U32s<N>>());
            judge(op, got, fit::<N>(&total), st)
        }
        ("zero", []) => {
            let z = U32s::<N>::zero();
            Out::ok(reply(&Some(z))).with_oracle(z.is_zero() && big(&z).is_zero(), "zero is not zero")
        }
        ("one", []) => {
            let got = catch(U32s::<N>::one);
            // N = 0 cannot hold 1: the array index panics (same shape as the pinned From<u32> behaviour)
            judge(op, got, fit::<N>(&BigUint::one()), st)
        }
        ("is_zero", [x]) => {
            let x: U32s<N> = limbs(x)?;
            Out::ok(format!("ok:{}", x.is_zero())).with_oracle(x.is_zero() == big(&x).is_zero(), "is_zero wrong")
        }
        ("from_u32", [v]) => {
            let v = u32::try_from(v.u64()?).ok()?;
            let got = catch(|| U32s::<N>::from(v));
            // pinned by the repository's test `crash`: N = 0 panics (also for v = 0)
            let want = if N == 0 { None } else { fit::<N>(&BigUint::from(v)) };
            judge(op, got, want, st)
        }
        ("try_u64", [v]) => {
            let v = v.u64()?;
            let got = U32s::<N>::try_from(v).ok();
            let want = fit::<N>(&BigUint::from(v));
            st.hit(&format!("try_u64:N={}:{}", N, if want.is_some() { "fits" } else { "too-big" }));
            let ok = match (&got, &want) {
                (Some(g), Some(w)) => g.as_ref()[..] == w[..],
                (None, None) => true,
                _ => false,
            };
            let r = match &got {
                Some(x) => format!("ok:{}", fmt_u32s(x.as_ref())),
                None => "err".into(),
            };
            Out::ok(r).with_oracle(ok, "try_from(u64): succeeds iff value < 2^(32N) violated")
        }
        ("try_u128", [v]) => {
            let v = v.u128()?;
            let got = U32s::<N>::try_from(v).ok();
            let want = fit::<N>(&BigUint::from(v));
            st.hit(&format!("try_u128:N={}:{}", N, if want.is_some() { "fits" } else { "too-big" }));
            let ok = match (&got, &want) {
                (Some(g), Some(w)) => g.as_ref()[..] == w[..],
                (None, None) => true,
                _ => false,
            };
            let r = match &got {
                Some(x) => format!("ok:{}", fmt_u32s(x.as_ref())),
                None => "err".into(),
            };
            Out::ok(r).with_oracle(ok, "try_from(u128): succeeds iff value < 2^(32N) violated")
        }
        ("to_big", [x]) => {
            let x: U32s<N> = limbs(x)?;
            let b: BigUint = x.into();
            Out::ok(format!("ok:{b}")).with_oracle(b == big(&x), "Into<BigUint> wrong value")
        }
        ("display", [x]) => {
            let x: U32s<N> = limbs(x)?;
            Out::ok(format!("ok:{x}")).with_oracle(format!("{x}") == big(&x).to_string(), "Display is not the decimal value")
        }
        ("from_big", [ds]) => {
            let d: Vec<u32> = ds.u64s()?.into_iter().map(|x| u32::try_from(x).ok()).collect::<Option<_>>()?;
            let b = BigUint::new(d);
            let got: U32s<N> = b.clone().into();
            st.hit(if b < top { "from_big:fits" } else { "from_big:too-big(truncates)" });
            // From<BigUint> keeps the N low limbs
            Out::ok(reply(&Some(got))).with_oracle(big(&got) == &b % &top, "From<BigUint>: not value mod 2^(32N)")
        }
        ("big_roundtrip", [x]) => {
            let x: U32s<N> = limbs(x)?;
            let b: BigUint = x.into();
            let back: U32s<N> = b.into();
            Out::ok(reply(&Some(back))).with_oracle(back == x, "BigUint round trip not identity")
        }
        ("to_bfes", [x]) => {
            let x: U32s<N> = limbs(x)?;
            let b: [BFieldElement; N] = x.into();
            let ok = b.iter().zip(x.as_ref()).all(|(e, &l)| e.value() == l as u64);
            Out::ok(format!("ok:{}", fmt_bfes(&b))).with_oracle(ok, "field-element array differs from limbs")
        }
        ("encode", [x]) => {
            let x: U32s<N> = limbs(x)?;
            let e = x.encode();
            let back = U32s::<N>::decode(&e).ok().map(|b| *b);
            Out::ok(format!("ok:{}", fmt_bfes(&e)))
                .with_oracle(back == Some(x), "decode(encode(x)) != x")
                .with_oracle(Some(e.len()) == U32s::<N>::static_length(), "encoding length != static_length")
        }
        ("decode", [s]) => {
            let s = s.bfes()?;
            let got = U32s::<N>::decode(&s).ok().map(|b| *b);
            let valid = s.len() == N && s.iter().all(|e| e.value() <= M);
            st.hit(&format!("decode:N={}:{}", N, if valid { "valid" } else if s.len() != N { "bad-length" } else { "element>u32" }));
            let r = match &got {
                Some(x) => format!("ok:{}", fmt_u32s(x.as_ref())),
                None => "err".into(),
            };
            let ok = match &got {
                Some(x) => valid && x.encode() == s,
                None => !valid,
            };
            Out::ok(r).with_oracle(ok, "decode: accepts exactly N elements <= u32::MAX and re-encodes to the input")
        }
        _ => return None,
    })
}

pub fn run_u32s(op: &str, a: &[Arg], st: &mut Stats) -> Option<Out> {
    let n = a.first()?.usize()?;
    let rest = &a[1..];
    match n {
        0 => run_n::<0>(op, rest, st),
        1 => run_n::<1>(op, rest, st),
        2 => run_n::<2>(op, rest, st),
        3 => run_n::<3>(op, rest, st),
        4 => run_n::<4>(op, rest, st),
        5 => run_n::<5>(op, rest, st),
        6 => run_n::<6>(op, rest, st),
        7 => run_n::<7>(op, rest, st),
        8 => run_n::<8>(op, rest, st),
        _ => None,
    }
}

// ---- generators ------------------------------------------------------------------------------------------------

fn limb(rng: &mut Rng) -> u64 {
    match rng.below(10) {
        0 | 1 => 0,
        2 => 1,
        3 => 1 << 31,
        4 | 5 => M,
        6 => *rng.pick(&[2u64, M - 1, (1 << 31) - 1, (1 << 31) + 1, 1 << 16, 0xffff, 0x1_0001]),
        _ => rng.below(1 << 32),
    }
}

fn operand(rng: &mut Rng, n: usize) -> Vec<u64> {
    match rng.below(8) {
        0 => vec![M; n],
        1 => vec![0; n],
        2 => {
            // 2^k
            let mut v = vec![0; n];
            if n > 0 {
                let k = rng.below(32 * n as u64);
                v[(k / 32) as usize] = 1 << (k % 32);
            }
            v
        }
        3 => {
            // 2^k - 1
            let mut v = vec![0; n];
            if n > 0 {
                let k = rng.below(32 * n as u64 + 1);
                for i in 0..n {
                    let lo = 32 * i as u64;
                    v[i] = if k >= lo + 32 { M } else if k > lo { (1u64 << (k - lo)) - 1 } else { 0 };
                }
            }
            v
        }
        4 => {
            // small value in the low limb(s)
            let mut v = vec![0; n];
            if n > 0 {
                v[0] = limb(rng);
            }
            if n > 1 && rng.coin(1, 2) {
                v[1] = limb(rng);
            }
            v
        }
        _ => (0..n).map(|_| limb(rng)).collect(),
    }
}

fn to_big(v: &[u64]) -> BigUint {
    BigUint::new(v.iter().map(|&x| x as u32).collect())
}
fn from_big(b: &BigUint, n: usize) -> Vec<u64> {
    let mut d: Vec<u64> = b.to_u32_digits().into_iter().map(|x| x as u64).collect();
    d.resize(n.max(d.len()), 0);
    d.truncate(n);
    d
}


/// boundary limb set for the carry-directed streams (non-zero members)
const BL: [u64; 6] = [1, 2, (1 << 31) - 1, 1 << 31, M - 1, M];

fn bl(rng: &mut Rng) -> u64 {
    // biased towards 2^32-1 and 2^32-2 (they create and sustain runs of all-ones limbs in the accumulator)
    match rng.below(8) {
        0 | 1 | 2 => M,
        3 | 4 => M - 1,
        5 => 1 << 31,
        _ => *rng.pick(&BL),
    }
}

/// operand with at most `max_nz` non-zero boundary limbs among the positions `< span`
fn sparse(rng: &mut Rng, n: usize, span: usize, max_nz: u64) -> Vec<u64> {
    let mut v = vec![0u64; n];
    if n == 0 || span == 0 {
        return v;
    }
    let k = 1 + rng.below(max_nz);
    for _ in 0..k {
        let i = rng.below(span.min(n) as u64) as usize;
        v[i] = bl(rng);
    }
    // contiguous low run of boundary limbs is the most productive shape: make it frequent
    if rng.coin(1, 2) {
        let len = 1 + rng.below(span.min(n).min(max_nz as usize) as u64) as usize;
        for (i, x) in v.iter_mut().enumerate() {
            *x = if i < len { bl(rng) } else { *x };
        }
    }
    v
}

/// carry-directed multiplication operands for N >= 3: few non-zero boundary limbs, so that partial products
/// 0xffffffff * 0xfffffffe etc. pile up into runs of all-ones limbs in the accumulator while further partial products
/// (a lone 1 / 2^31 / MAX in a high limb of the other operand) push carries through them; placements both below and
/// across the 2^(32N) boundary
fn mul_carry_pair(rng: &mut Rng, n: usize) -> (Vec<u64>, Vec<u64>) {
    let half = n / 2 + 1;
    let a = match rng.below(4) {
        0 => sparse(rng, n, n, 3),
        _ => sparse(rng, n, half, 3),
    };
    let mut b = match rng.below(4) {
        0 => sparse(rng, n, n, 4),
        _ => sparse(rng, n, half, 3),
    };
    // a lone boundary limb higher up in the second operand: its partial products land on the run
    if n > 2 && rng.coin(2, 3) {
        let i = 2 + rng.below(n as u64 - 2) as usize;
        b[i] = *rng.pick(&[1u64, 1, 2, 1 << 31, M, M - 1]);
    }
    if rng.coin(1, 2) { (a, b) } else { (b, a) }
}


/// template for "a carry leaves the hi-half addition and meets an all-ones accumulator limb":
/// row i' puts MAX at limb i'+j0 (MAX * 1) and a large hi word at limb i+j+1 (a[i'] * b[j+d]); in row i = i'+d the
/// partial product a[i] * b[j] adds its hi word to limb i+j+1, overflows, and the carry enters limb i+j+2 = i'+j0.
fn mul_template_pair(rng: &mut Rng, n: usize) -> (Vec<u64>, Vec<u64>) {
    let mut a = vec![0u64; n];
    let mut b = vec![0u64; n];
    if n < 4 {
        return mul_carry_pair(rng, n);
    }
    let d = 1 + rng.below(2) as usize;
    let j = rng.below(2) as usize;
    let j0 = j + d + 2;
    let ip = rng.below(2) as usize;
    let i = ip + d;
    if j0 >= n || i >= n {
        return mul_carry_pair(rng, n);
    }
    let big = |rng: &mut Rng| *rng.pick(&[M, M, M - 1, M - 1, 1u64 << 31, (1 << 31) + 1, M - 2]);
    a[ip] = if rng.coin(3, 4) { M } else { big(rng) };
    a[i] = big(rng);
    b[j] = big(rng);
    b[j + d] = big(rng);
    b[j0] = *rng.pick(&[1u64, 1, 1, 2, M]);
    // a longer run of ones above: further lone 1s make limbs j0+1.. equal MAX as well
    let mut k = j0 + 1;
    while k < n && rng.coin(1, 3) {
        b[k] = 1;
        k += 1;
    }
    // light noise
    if rng.coin(1, 4) {
        let t = rng.below(n as u64) as usize;
        if a[t] == 0 {
            a[t] = *rng.pick(&BL);
        }
    }
    if rng.coin(1, 2) { (a, b) } else { (b, a) }
}

/// (a, b) such that a + b (mode 0), a - b (mode 1) or 2a (mode 2, b unused) ripples a carry/borrow through a run of
/// `len` limbs starting at limb `p`; the run may reach the top limb (overflow / negative result)
fn ripple_pair(rng: &mut Rng, n: usize, mode: u64) -> (Vec<u64>, Vec<u64>) {
    let mut a: Vec<u64> = (0..n).map(|_| if rng.coin(1, 3) { limb(rng) } else { 0 }).collect();
    let mut b = vec![0u64; n];
    if n == 0 {
        return (a, b);
    }
    let p = rng.below(n as u64) as usize;
    let len = rng.below((n - p) as u64 + 1) as usize; // 0..=n-p: may end exactly at the top
    match mode {
        0 => {
            for x in a.iter_mut().skip(p).take(len) {
                *x = M;
            }
            if p + len < n && rng.coin(1, 2) {
                a[p + len] = *rng.pick(&[0u64, M - 1, M, 1 << 31]);
            }
            b[p] = *rng.pick(&[1u64, 1, 2, 1 << 31, M]);
            if p > 0 && rng.coin(1, 3) {
                // the carry into the run comes from the limb below
                a[p - 1] = M;
                b[p - 1] = *rng.pick(&[1u64, M]);
                b[p] = *rng.pick(&[0u64, 0, 1]);
            }
        }
        1 => {
            for x in a.iter_mut().skip(p).take(len) {
                *x = 0;
            }
            if p + len < n && rng.coin(2, 3) {
                a[p + len] = *rng.pick(&[1u64, 1, 2, 1 << 31, M]);
            }
            b[p] = *rng.pick(&[1u64, 1, 2, 1 << 31, M]);
        }
        _ => {
            // doubling: runs of 0xffffffff / 0x7fffffff / 0x80000000 limbs
            let v = *rng.pick(&[M, M, (1u64 << 31) - 1, 1 << 31, M - 1]);
            for x in a.iter_mut().skip(p).take(len) {
                *x = v;
            }
            if p > 0 && rng.coin(1, 2) {
                a[p - 1] = *rng.pick(&[1u64 << 31, M]);
            }
        }
    }
    let _ = &mut b;
    (a, b)
}

pub fn gen(rng: &mut Rng, thorough: bool, out: &mut Vec<String>) {
    let f = fmt_list_u64;
    // ---- exhaustive small grid: all limb vectors over {0,1,2^31,2^32-1} for N <= 2, every binary operator
    let g = [0u64, 1, 1 << 31, M];
    for n in 0..=2usize {
        let mut vecs: Vec<Vec<u64>> = vec![vec![]];
        for _ in 0..n {
            vecs = vecs.iter().flat_map(|v| g.iter().map(move |&x| { let mut w = v.clone(); w.push(x); w })).collect();
        }
        for a in &vecs {
            for b in &vecs {
                for op in ["add", "sub", "mul", "rem_div", "cmp"] {
                    out.push(format!("u32s {} {} {} {}", op, n, f(a), f(b)));
                }
            }
            for op in ["mul_two", "div_two", "to_big", "big_roundtrip", "encode", "to_bfes", "is_zero", "display"] {
                out.push(format!("u32s {} {} {}", op, n, f(a)));
            }
        }
    }
    for n in 0..=5usize {
        out.push(format!("u32s zero {}", n));
        out.push(format!("u32s one {}", n));
        for v in [0u64, 1, M] {
            out.push(format!("u32s from_u32 {} {}", n, v));
        }
        // conversion boundaries: 2^(32k) - 1, 2^(32k), 2^(32k) + 1
        for k in 0..=4u32 {
            for d in [-1i32, 0, 1] {
                let base: u128 = if k == 4 { u128::MAX } else { 1u128 << (32 * k) };
                let v = if d < 0 { base.wrapping_sub(1) } else if k == 4 { base } else { base + d as u128 };
                if k == 4 && d > 0 {
                    continue;
                }
                out.push(format!("u32s try_u128 {} {}", n, v));
                if v <= u64::MAX as u128 {
                    out.push(format!("u32s try_u64 {} {}", n, v));
                }
            }
        }
        out.push(format!("u32s try_u128 {} {}", n, u128::MAX));
        out.push(format!("u32s try_u64 {} {}", n, u64::MAX));
    }
    // ---- carry-directed streams (N = 3..8): multiplication with runs of all-ones limbs in the accumulator, and
    //      add / sub / mul_two ripples through runs of up to N limbs
    let carry_count = if thorough { 600_000 } else { 6_000 };
    for i in 0..carry_count {
        let n = *rng.pick(&[3usize, 4, 5, 5, 5, 6, 6, 6, 7, 8]);
        match i % 6 {
            0 | 1 | 2 => {
                let (a, b) = if i % 6 == 0 { mul_template_pair(rng, n) } else { mul_carry_pair(rng, n) };
                out.push(format!("u32s mul {} {} {}", n, f(&a), f(&b)));
            }
            3 => {
                let n = *rng.pick(&[1usize, 2, 3, 4, 5, 6, 7, 8]);
                let (a, b) = ripple_pair(rng, n, 0);
                out.push(format!("u32s add {} {} {}", n, f(&a), f(&b)));
            }
            4 => {
                let n = *rng.pick(&[1usize, 2, 3, 4, 5, 6, 7, 8]);
                let (a, b) = ripple_pair(rng, n, 1);
                out.push(format!("u32s sub {} {} {}", n, f(&a), f(&b)));
            }
            _ => {
                let n = *rng.pick(&[1usize, 2, 3, 4, 5, 6, 7, 8]);
                let (a, _) = ripple_pair(rng, n, 2);
                out.push(format!("u32s mul_two {} {}", n, f(&a)));
            }
        }
    }
    let count = if thorough { 1_500_000 } else { 6_000 };
    for _ in 0..count {
        let n = *rng.pick(&[0usize, 1, 1, 2, 2, 3, 3, 3, 4, 4, 4, 5, 5, 5, 6, 6, 7, 8]);
        let top = BigUint::one() << (32 * n);
        let a = operand(rng, n);
        let mut b = operand(rng, n);
        match rng.below(26) {
            0 | 1 | 2 => {
                // add: also pairs whose sum is exactly 2^(32N) - 1 / 2^(32N) / around
                match rng.below(4) {
                    0 => b = from_big(&(&top - 1u32 - to_big(&a)), n),
                    1 => b = from_big(&((&top - to_big(&a)) % &top), n),
                    _ => {}
                }
                out.push(format!("u32s add {} {} {}", n, f(&a), f(&b)));
            }
            3 | 4 | 5 => {
                // sub: equal, off by one in both directions, borrow chains
                let ba = to_big(&a);
                match rng.below(5) {
                    0 => b = a.clone(),
                    1 => b = from_big(&((&ba + 1u32) % &top), n),
                    2 if !ba.is_zero() => b = from_big(&(&ba - 1u32), n),
                    _ => {}
                }
                out.push(format!("u32s sub {} {} {}", n, f(&a), f(&b)));
            }
            6 | 7 | 8 | 9 => {
                // mul: products around 2^(32N): b = floor((2^(32N) - 1 + d) / a)
                let ba = to_big(&a);
                if !ba.is_zero() && rng.coin(1, 2) {
                    let d = rng.below(3);
                    let q = (&top - 1u32 + d) / &ba + rng.below(2);
                    if q < top {
                        b = from_big(&q, n);
                    }
                } else if n > 0 && rng.coin(1, 3) {
                    // 2^k * 2^(32N - k) and neighbours
                    let k = rng.below(32 * n as u64 + 1);
                    let x = (BigUint::one() << k) - rng.below(2);
                    let y = (BigUint::one() << (32 * n as u64 - k)) - rng.below(2);
                    if x < top && y < top {
                        out.push(format!("u32s mul {} {} {}", n, f(&from_big(&x, n)), f(&from_big(&y, n))));
                        continue;
                    }
                }
                out.push(format!("u32s mul {} {} {}", n, f(&a), f(&b)));
            }
            10 | 11 | 12 | 13 => {
                // division: a = q*d + r with r in {0, d-1}, a < d, a = d, d = 1, d = 0 (rarely), d = max
                let op = *rng.pick(&["rem_div", "rem_div", "div", "rem"]);
                let mut a = a;
                let bd = to_big(&b);
                match rng.below(8) {
                    0 => b = vec![0; n],
                    1 if n > 0 => {
                        b = vec![0; n];
                        b[0] = 1;
                    }
                    2 => a = b.clone(),
                    3 if !bd.is_zero() => {
                        let q = to_big(&operand(rng, n)) / &bd;
                        let r = if rng.coin(1, 2) { BigUint::zero() } else { &bd - 1u32 };
                        let v = &q * &bd + r;
                        if v < top {
                            a = from_big(&v, n);
                        }
                    }
                    4 => b = vec![M; n],
                    _ => {}
                }
                out.push(format!("u32s {} {} {} {}", op, n, f(&a), f(&b)));
            }
            14 => out.push(format!("u32s mul_two {} {}", n, f(&a))),
            15 => out.push(format!("u32s div_two {} {}", n, f(&a))),
            16 | 17 => {
                // cmp: equal, differing only in one limb
                match rng.below(4) {
                    0 => b = a.clone(),
                    1 if n > 0 => {
                        b = a.clone();
                        let i = rng.below(n as u64) as usize;
                        b[i] = limb(rng);
                    }
                    _ => {}
                }
                out.push(format!("u32s {} {} {} {}", if rng.coin(1, 5) { "eq" } else { "cmp" }, n, f(&a), f(&b)));
            }
            18 => {
                let k = rng.below(5);
                let mut items: Vec<Vec<u64>> = (0..k).map(|_| operand(rng, n)).collect();
                if rng.coin(1, 2) {
                    // keep the total near the top: items of value ~ 2^(32N)/k
                    items = items.into_iter().map(|v| from_big(&(to_big(&v) / (k.max(1))), n)).collect();
                }
                let s: Vec<String> = items.iter().map(|v| f(v)).collect();
                out.push(format!("u32s sum {} [{}]", n, s.join(",")));
            }
            19 => {
                let v: u128 = match rng.below(4) {
                    0 => (1u128 << (32 * rng.below(4))).wrapping_sub(rng.below(2) as u128),
                    1 => (1u128 << rng.below(128)).wrapping_add(rng.below(3) as u128).wrapping_sub(1),
                    2 => rng.next() as u128,
                    _ => rng.u128(),
                };
                out.push(format!("u32s try_u128 {} {}", n, v));
            }
            20 => {
                let v: u64 = match rng.below(4) {
                    0 => (1u64 << (32 * rng.below(2))).wrapping_sub(rng.below(2)),
                    1 => (1u64 << rng.below(64)).wrapping_add(rng.below(3)).wrapping_sub(1),
                    2 => rng.below(1 << 33),
                    _ => rng.next(),
                };
                out.push(format!("u32s try_u64 {} {}", n, v));
            }
            21 => {
                // big integer with n-1 .. n+2 digits
                let len = (n as u64 + rng.below(4)).saturating_sub(1);
                let d: Vec<u64> = (0..len).map(|_| limb(rng)).collect();
                out.push(format!("u32s from_big {} {}", n, f(&d)));
            }
            22 => out.push(format!("u32s {} {} {}", rng.pick(&["to_big", "big_roundtrip", "display"]), n, f(&a))),
            23 => out.push(format!("u32s {} {} {}", rng.pick(&["encode", "to_bfes", "is_zero"]), n, f(&a))),
            24 => out.push(format!("u32s from_u32 {} {}", n, limb(rng))),
            _ => {
                // decode: mutations of a valid encoding
                let mut s = a.clone();
                match rng.below(6) {
                    0 => {
                        s.pop();
                    }
                    1 => s.push(limb(rng)),
                    2 if n > 0 => {
                        let i = rng.below(n as u64) as usize;
                        s[i] = *rng.pick(&[M + 1, P - 1, 1 << 63, M + 2, 1 << 33]);
                    }
                    3 => s.clear(),
                    _ => {}
                }
                out.push(format!("u32s decode {} {}", n, f(&s)));
            }
        }
    }
}
