// PROP: C18  FAMILIES: lat=run_lat
//! C18 -- lattice ring F_p[X]/(X^64+1), module products, message embedding, samplers and the KEM.
//! Family `lat`; field elements as canonical values, bytes as naturals < 256.
//!
//! Private fields (`ModuleElement::elements`, `SecretKey`, `PublicKey`) are reached through their serde
//! implementations (serde_json values), never by re-implementing them.
//!
//! Oracles evaluated here on the implementation, independent of the model: ring product against the schoolbook
//! negacyclic product, coset_intt(coset_ntt(x)) = x, the three module-multiplication strategies against each other
//! and against a schoolbook matrix product, embed/extract round trip, determinism of keygen/enc/dec by double
//! execution, honest decapsulation returns the encapsulated key, every tampered ciphertext and every unrelated key is
//! rejected, ciphertext <-> array round trip.
use crate::util::*;
use serde_json::json;
use serde_json::Value;
use twenty_first::math::lattice::kem;
use twenty_first::math::lattice::*;
use twenty_first::prelude::*;

fn mulp(a: u64, b: u64) -> u64 {
    ((a as u128 * b as u128) % P as u128) as u64
}
fn addp(a: u64, b: u64) -> u64 {
    ((a as u128 + b as u128) % P as u128) as u64
}
fn subp(a: u64, b: u64) -> u64 {
    ((a as u128 + P as u128 - b as u128) % P as u128) as u64
}

type R64 = [u64; 64];

fn ring_arg(a: &Arg) -> Option<R64> {
    let v = a.u64s()?;
    if v.len() != 64 {
        return None;
    }
    let mut r = [0u64; 64];
    for i in 0..64 {
        r[i] = v[i] % P;
    }
    Some(r)
}
fn to_ring(r: &R64) -> CyclotomicRingElement {
    CyclotomicRingElement::from(r.map(BFieldElement::new))
}
fn from_ring(e: CyclotomicRingElement) -> R64 {
    let a: [BFieldElement; 64] = e.into();
    a.map(|x| x.value())
}
fn fmt_ring(r: &R64) -> String {
    fmt_list_u64(r)
}
fn fmt_rings(rs: &[R64]) -> String {
    let v: Vec<String> = rs.iter().map(fmt_ring).collect();
    format!("[{}]", v.join(","))
}
fn bytes_arg(a: &Arg, n: usize) -> Option<Vec<u8>> {
    let v = a.u64s()?;
    if v.len() != n || v.iter().any(|&b| b > 255) {
        return None;
    }
    Some(v.into_iter().map(|b| b as u8).collect())
}
fn bytes32(a: &Arg) -> Option<[u8; 32]> {
    bytes_arg(a, 32)?.try_into().ok()
}
fn fmt_bytes(b: &[u8]) -> String {
    fmt_list_u64(&b.iter().map(|&x| x as u64).collect::<Vec<_>>())
}
fn rings_arg(a: &Arg, n: usize) -> Option<Vec<R64>> {
    let l = a.list()?;
    if l.len() != n {
        return None;
    }
    l.iter().map(ring_arg).collect()
}

fn module_from<const N: usize>(rs: &[R64]) -> ModuleElement<N> {
    let els: Vec<Value> = rs.iter().map(|r| json!({ "coefficients": r.to_vec() })).collect();
    serde_json::from_value(json!({ "elements": els })).expect("module element from json")
}
fn module_to<const N: usize>(m: &ModuleElement<N>) -> Vec<R64> {
    let v = serde_json::to_value(m).unwrap();
    v["elements"]
        .as_array()
        .unwrap()
        .iter()
        .map(|e| {
            let c: Vec<u64> = e["coefficients"].as_array().unwrap().iter().map(|x| x.as_u64().unwrap()).collect();
            let r: R64 = c.try_into().unwrap();
            r
        })
        .collect()
}

fn schoolbook(a: &R64, b: &R64) -> R64 {
    let mut c = [0u64; 64];
    for i in 0..64 {
        for j in 0..64 {
            let t = mulp(a[i], b[j]);
            if i + j < 64 {
                c[i + j] = addp(c[i + j], t);
            } else {
                c[i + j - 64] = subp(c[i + j - 64], t);
            }
        }
    }
    c
}
fn ring_add(a: &R64, b: &R64) -> R64 {
    let mut c = [0u64; 64];
    for i in 0..64 {
        c[i] = addp(a[i], b[i]);
    }
    c
}
fn schoolbook_module(h: usize, inner: usize, w: usize, l: &[R64], r: &[R64]) -> Vec<R64> {
    let mut out = vec![[0u64; 64]; h * w];
    for hh in 0..h {
        for ww in 0..w {
            for i in 0..inner {
                out[hh * w + ww] = ring_add(&out[hh * w + ww], &schoolbook(&l[hh * inner + i], &r[i * w + ww]));
            }
        }
    }
    out
}

/// the three strategies for one monomorphised shape; returns (multiply, fast_multiply, multiply_hadamard on the
/// NTT images followed by intt, plain multiply_hadamard)
macro_rules! shape {
    ($h:literal, $i:literal, $w:literal, $l:expr, $r:expr) => {{
        const LN: usize = $h * $i;
        const RN: usize = $i * $w;
        const ON: usize = $h * $w;
        let l: ModuleElement<LN> = module_from::<LN>($l);
        let r: ModuleElement<RN> = module_from::<RN>($r);
        let m: ModuleElement<ON> = ModuleElement::<LN>::multiply::<$h, LN, $w, RN, $i, ON>(l, r);
        let f: ModuleElement<ON> = ModuleElement::<LN>::fast_multiply::<$h, LN, $w, RN, $i, ON>(l, r);
        let hd: ModuleElement<ON> = ModuleElement::<LN>::multiply_hadamard::<$h, LN, $w, RN, $i, ON>(l, r);
        let via: ModuleElement<ON> =
            ModuleElement::<LN>::multiply_hadamard::<$h, LN, $w, RN, $i, ON>(l.ntt(), r.ntt()).intt();
        Some((module_to(&m), module_to(&f), module_to(&via), module_to(&hd)))
    }};
}
fn module_products(h: usize, i: usize, w: usize, l: &[R64], r: &[R64]) -> Option<(Vec<R64>, Vec<R64>, Vec<R64>, Vec<R64>)> {
    match (h, i, w) {
        (1, 1, 1) => shape!(1, 1, 1, l, r),
        (1, 4, 1) => shape!(1, 4, 1, l, r),
        (4, 4, 1) => shape!(4, 4, 1, l, r),
        (1, 4, 4) => shape!(1, 4, 4, l, r),
        (2, 2, 2) => shape!(2, 2, 2, l, r),
        (2, 3, 1) => shape!(2, 3, 1, l, r),
        (3, 1, 2) => shape!(3, 1, 2, l, r),
        (1, 2, 3) => shape!(1, 2, 3, l, r),
        _ => None,
    }
}
const SHAPES: [(usize, usize, usize); 8] =
    [(1, 1, 1), (1, 4, 1), (4, 4, 1), (1, 4, 4), (2, 2, 2), (2, 3, 1), (3, 1, 2), (1, 2, 3)];

macro_rules! mod_unary {
    ($n:expr, $rs:expr, $f:ident) => {
        match $n {
            1 => Some(module_to(&module_from::<1>($rs).$f())),
            2 => Some(module_to(&module_from::<2>($rs).$f())),
            3 => Some(module_to(&module_from::<3>($rs).$f())),
            4 => Some(module_to(&module_from::<4>($rs).$f())),
            16 => Some(module_to(&module_from::<16>($rs).$f())),
            _ => None,
        }
    };
}
macro_rules! mod_binary {
    ($n:expr, $a:expr, $b:expr, $op:tt) => {
        match $n {
            1 => Some(module_to(&(module_from::<1>($a) $op module_from::<1>($b)))),
            2 => Some(module_to(&(module_from::<2>($a) $op module_from::<2>($b)))),
            4 => Some(module_to(&(module_from::<4>($a) $op module_from::<4>($b)))),
            16 => Some(module_to(&(module_from::<16>($a) $op module_from::<16>($b)))),
            _ => None,
        }
    };
}

fn sk_from(key: &[u8; 32], seed: &[u8; 32]) -> kem::SecretKey {
    serde_json::from_value(json!({ "key": key.to_vec(), "seed": seed.to_vec() })).expect("secret key from json")
}
fn pk_from(seed: &[u8; 32], ga: &[R64]) -> kem::PublicKey {
    let els: Vec<Value> = ga.iter().map(|r| json!({ "coefficients": r.to_vec() })).collect();
    serde_json::from_value(json!({ "seed": seed.to_vec(), "ga": { "elements": els } })).expect("public key from json")
}
fn sk_parts(sk: &kem::SecretKey) -> (Vec<u8>, Vec<u8>) {
    let v = serde_json::to_value(sk).unwrap();
    let f = |k: &str| v[k].as_array().unwrap().iter().map(|x| x.as_u64().unwrap() as u8).collect::<Vec<u8>>();
    (f("key"), f("seed"))
}
fn pk_parts(pk: &kem::PublicKey) -> (Vec<u8>, Vec<R64>) {
    let v = serde_json::to_value(pk).unwrap();
    let seed = v["seed"].as_array().unwrap().iter().map(|x| x.as_u64().unwrap() as u8).collect::<Vec<u8>>();
    let ga = v["ga"]["elements"]
        .as_array()
        .unwrap()
        .iter()
        .map(|e| {
            let c: Vec<u64> = e["coefficients"].as_array().unwrap().iter().map(|x| x.as_u64().unwrap()).collect();
            let r: R64 = c.try_into().unwrap();
            r
        })
        .collect();
    (seed, ga)
}
fn ct_to_vals(c: kem::Ciphertext) -> Vec<u64> {
    let a: [BFieldElement; kem::CIPHERTEXT_SIZE_IN_BFES] = c.into();
    a.iter().map(|x| x.value()).collect()
}
fn ct_from_vals(v: &[u64]) -> Option<kem::Ciphertext> {
    let a: [BFieldElement; kem::CIPHERTEXT_SIZE_IN_BFES] =
        v.iter().map(|&x| BFieldElement::new(x)).collect::<Vec<_>>().try_into().ok()?;
    Some(kem::Ciphertext::from(a))
}
fn fmt_opt_bytes(o: &Option<[u8; 32]>) -> String {
    match o {
        Some(b) => format!("some:{}", fmt_bytes(b)),
        None => "none".into(),
    }
}

pub fn run_lat(op: &str, a: &[Arg], st: &mut Stats) -> Option<Out> {
    Some(match (op, a) {
        ("cntt", [x]) | ("cintt", [x]) => {
            let r = ring_arg(x)?;
            let mut arr = r.map(BFieldElement::new);
            let mut back = arr;
            if op == "cntt" {
                coset_ntt_noswap_64(&mut arr);
                back = arr;
                coset_intt_noswap_64(&mut back);
            } else {
                coset_intt_noswap_64(&mut arr);
                back = arr;
                coset_ntt_noswap_64(&mut back);
            }
            let out = arr.map(|e| e.value());
            Out::ok(format!("ok:{}", fmt_ring(&out)))
                .with_oracle(back.map(|e| e.value()) == r, format!("{op}: inverse transform does not undo it"))
        }
        ("radd", [x, y]) | ("rsub", [x, y]) | ("rhad", [x, y]) | ("rmul", [x, y]) => {
            let (p, q) = (ring_arg(x)?, ring_arg(y)?);
            let (ea, eb) = (to_ring(&p), to_ring(&q));
            let (res, want) = match op {
                "radd" => (from_ring(ea + eb), ring_add(&p, &q)),
                "rsub" => {
                    let mut w = [0u64; 64];
                    for i in 0..64 {
                        w[i] = subp(p[i], q[i]);
                    }
                    (from_ring(ea - eb), w)
                }
                "rhad" => {
                    let mut w = [0u64; 64];
                    for i in 0..64 {
                        w[i] = mulp(p[i], q[i]);
                    }
                    (from_ring(CyclotomicRingElement::hadamard(ea, eb)), w)
                }
                _ => {
                    let nz = |r: &R64| r.iter().filter(|&&c| c != 0).count();
                    st.hit(&format!("rmul:nonzero-coefficients:{}x{}", nz(&p).min(3), nz(&q).min(3)));
                    (from_ring(ea * eb), schoolbook(&p, &q))
                }
            };
            Out::ok(format!("ok:{}", fmt_ring(&res))).with_oracle(res == want, format!("{op}: differs from the coefficient-wise / schoolbook negacyclic result"))
        }
        ("mmul", [s, h, i, w, x, y]) => {
            let (h, i, w) = (h.usize()?, i.usize()?, w.usize()?);
            let l = rings_arg(x, h * i)?;
            let r = rings_arg(y, i * w)?;
            let (m, f, via, hd) = module_products(h, i, w, &l, &r)?;
            st.hit(&format!("mmul:shape:{h}x{i}x{w}"));
            let school = schoolbook_module(h, i, w, &l, &r);
            let res = match s.sym()? {
                "mul" => &m,
                "fast" => &f,
                "had" => &hd,
                _ => return None,
            };
            Out::ok(format!("ok:{}", fmt_rings(res)))
                .with_oracle(m == f, "multiply != fast_multiply")
                .with_oracle(f == via, "fast_multiply != intt(multiply_hadamard(ntt, ntt))")
                .with_oracle(m == school, "multiply differs from the schoolbook matrix product over F_p[X]/(X^64+1)")
        }
        ("madd", [n, x, y]) | ("msub", [n, x, y]) => {
            let n = n.usize()?;
            let (p, q) = (rings_arg(x, n)?, rings_arg(y, n)?);
            let res = if op == "madd" { mod_binary!(n, &p, &q, +)? } else { mod_binary!(n, &p, &q, -)? };
            Out::ok(format!("ok:{}", fmt_rings(&res)))
        }
        ("mntt", [n, x]) | ("mintt", [n, x]) => {
            let n = n.usize()?;
            let p = rings_arg(x, n)?;
            let res = if op == "mntt" { mod_unary!(n, &p, ntt)? } else { mod_unary!(n, &p, intt)? };
            Out::ok(format!("ok:{}", fmt_rings(&res)))
        }
        ("embed", [m]) => {
            let msg = bytes32(m)?;
            let e = embed_msg(msg);
            let back = extract_msg(e);
            Out::ok(format!("ok:{}", fmt_ring(&from_ring(e)))).with_oracle(back == msg, "extract_msg(embed_msg(m)) != m")
        }
        ("extract", [x]) => {
            let r = ring_arg(x)?;
            Out::ok(format!("ok:{}", fmt_bytes(&extract_msg(to_ring(&r)))))
        }
        ("sshort", [r]) => {
            let b: [u8; 8] = bytes_arg(r, 8)?.try_into().ok()?;
            let v = sample_short_bfield_element(&b).value();
            // |value| <= 8 in every 16-bit lane, as a signed combination
            Out::ok(format!("ok:{v}"))
        }
        ("rshort", [r]) => {
            let b = bytes_arg(r, 512)?;
            Out::ok(format!("ok:{}", fmt_ring(&from_ring(CyclotomicRingElement::sample_short(&b)))))
        }
        ("runiform", [r]) => {
            let b = bytes_arg(r, 576)?;
            Out::ok(format!("ok:{}", fmt_ring(&from_ring(CyclotomicRingElement::sample_uniform(&b)))))
        }
        ("mshort", [n, r]) => {
            let n = n.usize()?;
            let b = bytes_arg(r, 512 * n)?;
            let res = match n {
                1 => module_to(&ModuleElement::<1>::sample_short(&b)),
                4 => module_to(&ModuleElement::<4>::sample_short(&b)),
                _ => return None,
            };
            Out::ok(format!("ok:{}", fmt_rings(&res)))
        }
        ("muniform", [n, r]) => {
            let n = n.usize()?;
            let b = bytes_arg(r, 576 * n)?;
            let res = match n {
                1 => module_to(&ModuleElement::<1>::sample_uniform(&b)),
                2 => module_to(&ModuleElement::<2>::sample_uniform(&b)),
                _ => return None,
            };
            Out::ok(format!("ok:{}", fmt_rings(&res)))
        }
        ("keygen", [r]) => {
            let r = bytes32(r)?;
            let (sk, pk) = kem::keygen(r);
            let (sk2, pk2) = kem::keygen(r);
            let (key, seed) = sk_parts(&sk);
            let (pseed, ga) = pk_parts(&pk);
            Out::ok(format!("ok:[{},{},{}]:{}", fmt_bytes(&key), fmt_bytes(&seed), fmt_bytes(&pseed), fmt_rings(&ga)))
                .with_oracle(sk == sk2 && pk == pk2, "keygen is not deterministic")
                .with_oracle(seed == pseed, "public and secret key carry different seeds")
        }
        ("enc", [s, ga, r]) => {
            let seed = bytes32(s)?;
            let ga = rings_arg(ga, 4)?;
            let r = bytes32(r)?;
            let pk = pk_from(&seed, &ga);
            let (k, c) = kem::enc(pk, r);
            let (k2, c2) = kem::enc(pk, r);
            Out::ok(format!("ok:{}:{}", fmt_bytes(&k), fmt_list_u64(&ct_to_vals(c))))
                .with_oracle(k == k2 && c == c2, "enc is not deterministic")
        }
        ("dec", [k, s, c]) => {
            let (key, seed) = (bytes32(k)?, bytes32(s)?);
            let vals = c.u64s()?;
            if vals.len() != 320 {
                return None;
            }
            let ct = ct_from_vals(&vals)?;
            let sk = sk_from(&key, &seed);
            let d = kem::dec(sk, ct);
            let d2 = kem::dec(sk, ct);
            st.hit(if d.is_some() { "dec:accept" } else { "dec:reject" });
            Out::ok(format!("ok:{}", fmt_opt_bytes(&d))).with_oracle(d == d2, "dec is not deterministic")
        }
        ("kem", [r1, r2]) => {
            let (r1, r2) = (bytes32(r1)?, bytes32(r2)?);
            let (sk, pk) = kem::keygen(r1);
            let (k, c) = kem::enc(pk, r2);
            let d = kem::dec(sk, c);
            // ciphertext survives the conversion to and from its array form
            let arr: [BFieldElement; kem::CIPHERTEXT_SIZE_IN_BFES] = c.into();
            let c_back = kem::Ciphertext::from(arr);
            st.hit("kem:honest-roundtrip");
            Out::ok(format!("ok:{}:{}", fmt_bytes(&k), fmt_opt_bytes(&d)))
                .with_oracle(d == Some(k), "decapsulation of an honest ciphertext does not return the encapsulated key")
                .with_oracle(c_back == c, "ciphertext -> array -> ciphertext is not the identity")
                .with_oracle(kem::dec(sk, c_back) == d, "decapsulation differs after the array round trip")
        }
        ("tamper", [r1, r2, idx, delta]) => {
            let (r1, r2) = (bytes32(r1)?, bytes32(r2)?);
            let idx = idx.usize()?;
            let delta = delta.u64()? % P;
            if idx >= 320 {
                return None;
            }
            let (sk, pk) = kem::keygen(r1);
            let (_, c) = kem::enc(pk, r2);
            let mut vals = ct_to_vals(c);
            vals[idx] = addp(vals[idx], delta);
            let d = kem::dec(sk, ct_from_vals(&vals)?);
            st.hit(&format!("tamper:{}", if idx < 256 { "bg" } else { "bga_m" }));
            st.hit(&format!("tamper:delta:{}", if delta == 0 { "0" } else if delta == 1 || delta == P - 1 { "+-1" } else if delta < 1 << 16 { "small" } else { "large" }));
            Out::ok(format!("ok:{}", fmt_opt_bytes(&d)))
                .with_oracle(delta == 0 || d.is_none(), "a ciphertext differing in one coefficient was accepted")
        }
        ("tampernoise", [r1, r2, which, k, delta]) => {
            // the ciphertext lives in the NTT domain: add the transform of the small element delta*X^k to one ring
            // element, i.e. a modification in the direction of the noise, which leaves the extracted payload unchanged
            let (r1, r2) = (bytes32(r1)?, bytes32(r2)?);
            let (which, k) = (which.usize()?, k.usize()?);
            let delta = delta.u64()? % P;
            if which >= 5 || k >= 64 {
                return None;
            }
            let (sk, pk) = kem::keygen(r1);
            let (_, c) = kem::enc(pk, r2);
            let mut e = [BFieldElement::new(0); 64];
            e[k] = BFieldElement::new(delta);
            coset_ntt_noswap_64(&mut e);
            let mut vals = ct_to_vals(c);
            for i in 0..64 {
                vals[64 * which + i] = addp(vals[64 * which + i], e[i].value());
            }
            let d = kem::dec(sk, ct_from_vals(&vals)?);
            st.hit(&format!("tampernoise:{}", if which < 4 { "bg" } else { "bga_m" }));
            Out::ok(format!("ok:{}", fmt_opt_bytes(&d)))
                .with_oracle(delta == 0 || d.is_none(), "a ciphertext modified in the noise direction (payload unchanged) was accepted")
        }
        ("unrelated", [r1, r2, r3]) => {
            let (r1, r2, r3) = (bytes32(r1)?, bytes32(r2)?, bytes32(r3)?);
            let (_, pk) = kem::keygen(r1);
            let (sk2, _) = kem::keygen(r2);
            let (_, c) = kem::enc(pk, r3);
            let d = kem::dec(sk2, c);
            Out::ok(format!("ok:{}", fmt_opt_bytes(&d))).with_oracle(r1 == r2 || d.is_none(), "decapsulation under an unrelated key succeeded")
        }
        ("ctrt", [c]) => {
            let vals = c.u64s()?;
            if vals.len() != 320 {
                return None;
            }
            let canon: Vec<u64> = vals.iter().map(|v| v % P).collect();
            let out = ct_to_vals(ct_from_vals(&vals)?);
            Out::ok(format!("ok:{}", fmt_list_u64(&out))).with_oracle(out == canon, "array -> ciphertext -> array is not the identity")
        }
        _ => return super::c18bulk::run_lat_more(op, a, st), // bulk / history ops (c18bulk.rs)
    })
}

// ---- generator -----------------------------------------------------------------------------------------------------
fn gen_ring(rng: &mut Rng) -> R64 {
    let mut r = [0u64; 64];
    match rng.below(10) {
        0 => {
            // monomial c * X^i (spanning set)
            r[rng.below(64) as usize] = *rng.pick(&[1u64, P - 1, 2, 1 << 32]);
        }
        1 => {
            r[rng.below(64) as usize] = rng.fval();
            r[rng.below(64) as usize] = rng.fval();
        }
        2 => r = [*rng.pick(&[0u64, 1, P - 1]); 64],
        3 => {
            for c in r.iter_mut() {
                *c = *rng.pick(&[0u64, 1, P - 1, P - 2, 1 << 32, (1 << 32) - 1, 1 << 63]);
            }
        }
        4 => {
            // short element: small signed coefficients
            for c in r.iter_mut() {
                let v = rng.below(17);
                *c = if v <= 8 { v } else { P - (v - 8) };
            }
        }
        5 => {
            // only the top coefficients (wrap-around terms dominate)
            for c in r[56..].iter_mut() {
                *c = rng.fval();
            }
        }
        _ => {
            for c in r.iter_mut() {
                *c = rng.fval();
            }
        }
    }
    r
}
fn gen_bytes(rng: &mut Rng, n: usize) -> Vec<u8> {
    match rng.below(6) {
        0 => vec![*rng.pick(&[0u8, 0xff, 0x0f, 0xf0, 0x55, 0xaa, 1, 0x80]); n],
        _ => (0..n).map(|_| rng.next() as u8).collect(),
    }
}
fn gen_seed(rng: &mut Rng) -> String {
    fmt_bytes(&gen_bytes(rng, 32))
}

pub fn gen(rng: &mut Rng, thorough: bool, out: &mut Vec<String>) {
    let scale = if thorough { 10 } else { 1 };
    // the 64 basis vectors through both transforms and pairwise products of monomials (the whole multiplication table
    // of the basis in the thorough tier, a sample in the quick tier)
    for i in 0..64 {
        let mut e = [0u64; 64];
        e[i] = 1;
        out.push(format!("lat cntt {}", fmt_ring(&e)));
        out.push(format!("lat cintt {}", fmt_ring(&e)));
    }
    for i in 0..64 {
        for j in 0..64 {
            if thorough || (i + j) % 9 == 0 || i + j == 63 || i + j == 64 || i == 63 || j == 63 {
                let mut a = [0u64; 64];
                let mut b = [0u64; 64];
                a[i] = 1;
                b[j] = 1;
                out.push(format!("lat rmul {} {}", fmt_ring(&a), fmt_ring(&b)));
            }
        }
    }
    for _ in 0..300 * scale {
        let (a, b) = (gen_ring(rng), gen_ring(rng));
        let op = *rng.pick(&["rmul", "rmul", "rmul", "radd", "rsub", "rhad"]);
        out.push(format!("lat {op} {} {}", fmt_ring(&a), fmt_ring(&b)));
    }
    for _ in 0..60 * scale {
        let a = gen_ring(rng);
        out.push(format!("lat {} {}", rng.pick(&["cntt", "cintt"]), fmt_ring(&a)));
    }
    // module products, all three strategies, every monomorphised shape
    for _ in 0..12 * scale {
        for &(h, i, w) in SHAPES.iter() {
            let l: Vec<R64> = (0..h * i).map(|_| gen_ring(rng)).collect();
            let r: Vec<R64> = (0..i * w).map(|_| gen_ring(rng)).collect();
            let s = *rng.pick(&["mul", "fast", "had"]);
            out.push(format!("lat mmul {s} {h} {i} {w} {} {}", fmt_rings(&l), fmt_rings(&r)));
        }
    }
    for _ in 0..10 * scale {
        let n = *rng.pick(&[1usize, 2, 4]);
        let a: Vec<R64> = (0..n).map(|_| gen_ring(rng)).collect();
        let b: Vec<R64> = (0..n).map(|_| gen_ring(rng)).collect();
        out.push(format!("lat {} {n} {} {}", rng.pick(&["madd", "msub"]), fmt_rings(&a), fmt_rings(&b)));
        out.push(format!("lat {} {n} {}", rng.pick(&["mntt", "mintt"]), fmt_rings(&a)));
    }
    // embedding: every single-bit message, boundary bytes, random; extraction around the lane thresholds
    for byte in 0..32 {
        for bit in 0..8 {
            if thorough || (byte + bit) % 5 == 0 {
                let mut m = [0u8; 32];
                m[byte] = 1 << bit;
                out.push(format!("lat embed {}", fmt_bytes(&m)));
            }
        }
    }
    for _ in 0..40 * scale {
        out.push(format!("lat embed {}", fmt_bytes(&gen_bytes(rng, 32))));
    }
    let lane_vals: [u64; 14] = [0, 1, (1 << 14) - 1, 1 << 14, (1 << 14) + 1, (1 << 15) - 1, 1 << 15, (1 << 15) + 1,
        (1 << 16) - (1 << 14) - 1, (1 << 16) - (1 << 14), (1 << 16) - (1 << 14) + 1, (1 << 16) - 1, 0x4000, 0xbfff];
    for _ in 0..80 * scale {
        let mut r = [0u64; 64];
        for c in r.iter_mut() {
            *c = match rng.below(4) {
                0 => rng.fval(),
                _ => {
                    let mut v = 0u64;
                    for j in 0..4 {
                        v |= *rng.pick(&lane_vals) << (16 * j);
                    }
                    v % P
                }
            };
        }
        out.push(format!("lat extract {}", fmt_ring(&r)));
    }
    // embed + noise below / at / above the threshold, as an extraction op (model and implementation must agree; the
    // property's noise bound is the theorem embed_extract)
    for _ in 0..40 * scale {
        let m = gen_bytes(rng, 32);
        let e = from_ring(embed_msg(m.clone().try_into().unwrap()));
        let mut r = e;
        for c in r.iter_mut() {
            let mut noise = 0i128;
            for j in 0..4 {
                let mag = *rng.pick(&[0i128, 1, 100, (1 << 14) - 2, (1 << 14) - 1, 1 << 14, (1 << 14) + 1]);
                let sign = if rng.coin(1, 2) { 1 } else { -1 };
                noise += sign * mag << (16 * j);
            }
            let v = (*c as i128 + noise).rem_euclid(P as i128);
            *c = v as u64;
        }
        out.push(format!("lat extract {}", fmt_ring(&r)));
    }
    // samplers
    for b in [[0u8; 8], [0xff; 8], [0xff, 0xff, 0xff, 0xff, 0, 0, 0, 0], [0, 0, 0, 0, 0xff, 0xff, 0xff, 0xff], [1, 2, 4, 8, 16, 32, 64, 128]] {
        out.push(format!("lat sshort {}", fmt_bytes(&b)));
    }
    for _ in 0..60 * scale {
        out.push(format!("lat sshort {}", fmt_bytes(&gen_bytes(rng, 8))));
    }
    for _ in 0..6 * scale {
        out.push(format!("lat rshort {}", fmt_bytes(&gen_bytes(rng, 512))));
        out.push(format!("lat runiform {}", fmt_bytes(&gen_bytes(rng, 576))));
    }
    // sample_uniform around the reduction boundary: 9-byte big-endian values P-1, P, P+1, 2^72-1, multiples of P
    {
        let mut bytes = vec![];
        let specials: [u128; 8] = [P as u128 - 1, P as u128, P as u128 + 1, (1u128 << 72) - 1, 255 * P as u128, 255 * P as u128 + 1, 1u128 << 64, (1u128 << 64) - 1];
        for i in 0..64 {
            let v = specials[i % specials.len()];
            for k in (0..9).rev() {
                bytes.push(((v >> (8 * k)) & 0xff) as u8);
            }
        }
        out.push(format!("lat runiform {}", fmt_bytes(&bytes)));
    }
    out.push(format!("lat mshort 4 {}", fmt_bytes(&gen_bytes(rng, 2048))));
    out.push(format!("lat muniform 2 {}", fmt_bytes(&gen_bytes(rng, 1152))));
    // KEM: key generation, explicit enc/dec with the generated keys, honest round trips, tampering, unrelated keys
    for _ in 0..3 * scale {
        out.push(format!("lat keygen {}", gen_seed(rng)));
    }
    for k in 0..2 * scale {
        let r1: [u8; 32] = gen_bytes(rng, 32).try_into().unwrap();
        let r2: [u8; 32] = gen_bytes(rng, 32).try_into().unwrap();
        let (sk, pk) = kem::keygen(r1);
        let (key, seed) = sk_parts(&sk);
        let (pseed, ga) = pk_parts(&pk);
        out.push(format!("lat enc {} {} {}", fmt_bytes(&pseed), fmt_rings(&ga), fmt_bytes(&r2)));
        let (_, c) = kem::enc(pk, r2);
        let vals = ct_to_vals(c);
        out.push(format!("lat dec {} {} {}", fmt_bytes(&key), fmt_bytes(&seed), fmt_list_u64(&vals)));
        out.push(format!("lat ctrt {}", fmt_list_u64(&vals)));
        // right key, wrong seed (the re-derived public matrix differs): must reject
        let mut seed2 = seed.clone();
        seed2[k % 32] ^= 1;
        out.push(format!("lat dec {} {} {}", fmt_bytes(&key), fmt_bytes(&seed2), fmt_list_u64(&vals)));
        // multi-coefficient modifications and garbage ciphertexts
        let mut v2 = vals.clone();
        for _ in 0..3 {
            let i = rng.below(320) as usize;
            v2[i] = rng.fval();
        }
        out.push(format!("lat dec {} {} {}", fmt_bytes(&key), fmt_bytes(&seed), fmt_list_u64(&v2)));
        let garbage: Vec<u64> = (0..320).map(|_| rng.fval()).collect();
        out.push(format!("lat dec {} {} {}", fmt_bytes(&key), fmt_bytes(&seed), fmt_list_u64(&garbage)));
        out.push(format!("lat dec {} {} {}", fmt_bytes(&key), fmt_bytes(&seed), fmt_list_u64(&vec![0u64; 320])));
        // swap two ring elements of bg
        let mut v3 = vals.clone();
        for i in 0..64 {
            v3.swap(i, 64 + i);
        }
        out.push(format!("lat dec {} {} {}", fmt_bytes(&key), fmt_bytes(&seed), fmt_list_u64(&v3)));
    }
    out.push(format!("lat ctrt {}", fmt_list_u64(&(0..320).map(|i| if i % 7 == 0 { P - 1 } else { i as u64 }).collect::<Vec<_>>())));
    for _ in 0..4 * scale {
        out.push(format!("lat kem {} {}", gen_seed(rng), gen_seed(rng)));
    }
    out.push(format!("lat kem {} {}", fmt_bytes(&[0u8; 32]), fmt_bytes(&[0u8; 32])));
    out.push(format!("lat kem {} {}", fmt_bytes(&[0xffu8; 32]), fmt_bytes(&[0xffu8; 32])));
    for _ in 0..2 * scale {
        out.push(format!("lat unrelated {} {} {}", gen_seed(rng), gen_seed(rng), gen_seed(rng)));
    }
    // modifications in the noise direction (the extracted payload stays the same, only the comparison can reject)
    for _ in 0..(if thorough { 60 } else { 8 }) {
        let (s1, s2) = (gen_seed(rng), gen_seed(rng));
        let which = rng.below(5);
        let k = rng.below(64);
        let delta = *rng.pick(&[1u64, P - 1, 2, 100, 1 << 10, P - (1 << 10)]);
        out.push(format!("lat tampernoise {s1} {s2} {which} {k} {delta}"));
    }
    // single-coefficient modifications: thorough = all 320 positions for a few seeds, quick = a spread of positions
    let seeds = if thorough { 3 } else { 1 };
    for _ in 0..seeds {
        let (s1, s2) = (gen_seed(rng), gen_seed(rng));
        for idx in 0..320usize {
            if thorough || idx % 23 == 0 || idx == 255 || idx == 256 || idx == 319 {
                let delta = match rng.below(4) {
                    0 => 1,
                    1 => P - 1,
                    2 => 1 << (15 + 16 * rng.below(4)),
                    _ => 1 + rng.below(P - 1),
                };
                out.push(format!("lat tamper {s1} {s2} {idx} {delta}"));
            }
        }
        out.push(format!("lat tamper {s1} {s2} 0 0"));
    }
}
