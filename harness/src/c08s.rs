// PROP: C08  FAMILIES: polyis=run_polyis
//! C08, structure-aware stream.  Family `polyis` (implementation-side oracles only; the Lean driver has no handler for
//! the family and answers `skip`):
//!   polyis <op> <class-label> <b|x> args...
//! * `<class-label>` = `<family>:<class>:<class>...`, recorded as `class:<family>:<class>` in the distribution;
//! * a list argument is either explicit (`[..]`) or a symbol of `.`-separated segments
//!     Z:k (k zeros)  C:v:k (k times v)  E:v  R:seed:k (uniform)  N:seed:k (uniform, non-zero)
//!     G:a:r:k (a*r^i, i<k)  A:a:d:k (a+i*d, i<k)          (base-field values, lifted for tag `x`);
//! * `<op>` is either an op of the family `polyi` (c08.rs) -- then the expanded line is executed by `c08::run_polyi`
//!   with its oracles -- or one of the combined ops below, which run *every* strategy of an op family on the same
//!   structured operands and check each against an oracle that uses field arithmetic only:
//!     interp_all t d v         all interpolation strategies: certificate deg < n, f(x_i) = y_i; interpolate-then-evaluate
//!     interp_fast t d v        the same without the quadratic Lagrange arm (`interpolate`, `lagrange_interpolate`)
//!     eval_all t p d           all bulk evaluation strategies = Horner in input order
//!     zerofier_all t roots     all zerofier strategies and the tree zerofier = prod (X - r_i)
//!     coset_all t off cw pts   coset interpolation / evaluation / extrapolation (single, batch, parallel) / fmci
//!     extrap_of_eval t off n p pts   extrapolating the crate's own coset evaluation of p gives Horner(p, pts)
//! The generator emits every structured case as a `polyis` line and, where the executable model is cheap enough, the
//! same operands again as an explicit `polyi` line (answered by the model and by c08.rs's oracles).
use super::c08::Fld;
use crate::util::*;
use num_traits::{ConstOne, ConstZero};
use twenty_first::math::polynomial::Polynomial;
use twenty_first::math::traits::*;
use twenty_first::math::zerofier_tree::ZerofierTree;
use twenty_first::prelude::*;

// ---- the segment language -----------------------------------------------------------------------------
fn elem_arg(tag: &str, v: u64) -> Arg {
    if tag == "x" {
        Arg::Tup(vec![Arg::Nat(v as u128), Arg::Nat(0), Arg::Nat(0)])
    } else {
        Arg::Nat(v as u128)
    }
}
fn uni_arg(tag: &str, r: &mut Rng, nonzero: bool) -> Arg {
    loop {
        if tag == "x" {
            let (a, b, c) = (r.below(P), r.below(P), r.below(P));
            if nonzero && a == 0 && b == 0 && c == 0 {
                continue;
            }
            return Arg::Tup(vec![Arg::Nat(a as u128), Arg::Nat(b as u128), Arg::Nat(c as u128)]);
        }
        let a = r.below(P);
        if nonzero && a == 0 {
            continue;
        }
        return Arg::Nat(a as u128);
    }
}
/// expand a segment symbol into an explicit list; `None` if `s` is not in the segment language
pub fn expand_segments(tag: &str, s: &str) -> Option<Arg> {
    let mut out: Vec<Arg> = vec![];
    for seg in s.split('.') {
        let p: Vec<&str> = seg.split(':').collect();
        let num = |i: usize| -> Option<u64> { p.get(i)?.parse::<u64>().ok() };
        match (p[0], p.len()) {
            ("Z", 2) => out.extend((0..num(1)?).map(|_| elem_arg(tag, 0))),
            ("C", 3) => {
                let v = num(1)? % P;
                out.extend((0..num(2)?).map(|_| elem_arg(tag, v)))
            }
            ("E", 2) => out.push(elem_arg(tag, num(1)? % P)),
            ("R", 3) | ("N", 3) => {
                let mut r = Rng::new(num(1)?);
                for _ in 0..num(2)? {
                    out.push(uni_arg(tag, &mut r, p[0] == "N"));
                }
            }
            ("G", 4) => {
                let (mut a, q) = (BFieldElement::new(num(1)? % P), BFieldElement::new(num(2)? % P));
                for _ in 0..num(3)? {
                    out.push(elem_arg(tag, a.value()));
                    a *= q;
                }
            }
            ("A", 4) => {
                let (mut a, d) = (BFieldElement::new(num(1)? % P), BFieldElement::new(num(2)? % P));
                for _ in 0..num(3)? {
                    out.push(elem_arg(tag, a.value()));
                    a += d;
                }
            }
            _ => return None,
        }
    }
    Some(Arg::List(out))
}
pub fn expand_arg(tag: &str, a: &Arg) -> Arg {
    match a {
        Arg::Sym(s) => expand_segments(tag, s).unwrap_or_else(|| a.clone()),
        _ => a.clone(),
    }
}
pub fn fmt_arg(a: &Arg) -> String {
    match a {
        Arg::Nat(n) => n.to_string(),
        Arg::Neg(n) => format!("-{}", n),
        Arg::Sym(s) => s.clone(),
        Arg::List(v) => format!("[{}]", v.iter().map(fmt_arg).collect::<Vec<_>>().join(",")),
        Arg::Tup(v) => format!("({})", v.iter().map(fmt_arg).collect::<Vec<_>>().join(";")),
    }
}
/// explicit text of a list given in either form
pub fn explicit(tag: &str, s: &str) -> String {
    match parse_arg(s) {
        Some(a) => fmt_arg(&expand_arg(tag, &a)),
        None => s.to_string(),
    }
}
/// `class:<family>:<part>` for every part of the label
pub fn hit_label(st: &mut Stats, label: &str) {
    let mut it = label.split(':');
    let fam = it.next().unwrap_or("?");
    for p in it {
        st.hit(&format!("class:{}:{}", fam, p));
    }
}
pub fn label_family(label: &str) -> &str {
    label.split(':').next().unwrap_or("?")
}
pub fn n_bucket(n: usize) -> String {
    for t in [16usize, 100, 256, 512, 1024, 2048, 4096] {
        if n + 1 == t {
            return format!("{}-1", t);
        }
        if n == t {
            return format!("{}", t);
        }
        if n == t + 1 {
            return format!("{}+1", t);
        }
    }
    match n {
        0..=3 => n.to_string(),
        4..=14 => "4..14".into(),
        18..=98 => "18..98".into(),
        102..=254 => "102..254".into(),
        258..=510 => "258..510".into(),
        514..=1022 => "514..1022".into(),
        1026..=2046 => "1026..2046".into(),
        2050..=4094 => "2050..4094".into(),
        _ => ">4097".into(),
    }
}

// ---- oracles: field arithmetic only (independent copies; nothing here calls a polynomial routine of the crate) ----
fn horner<FF: Fld>(cs: &[FF], x: FF) -> FF {
    let mut acc = FF::ZERO;
    for &c in cs.iter().rev() {
        acc = acc * x + c;
    }
    acc
}
fn normalized<FF: Fld>(cs: &[FF]) -> &[FF] {
    let mut n = cs.len();
    while n > 0 && cs[n - 1] == FF::ZERO {
        n -= 1;
    }
    &cs[..n]
}
fn naive_prod<FF: Fld>(roots: &[FF]) -> Vec<FF> {
    let mut z = vec![FF::ONE];
    for &r in roots {
        let mut nz = vec![FF::ZERO; z.len() + 1];
        for (i, &c) in z.iter().enumerate() {
            nz[i + 1] = nz[i + 1] + c;
            nz[i] = nz[i] - r * c;
        }
        z = nz;
    }
    z
}
fn certificate<FF: Fld>(f: &[FF], xs: &[FF], ys: &[FF]) -> bool {
    let f = normalized(f);
    f.len() <= xs.len() && xs.iter().zip(ys).all(|(&x, &y)| horner(f, x) == y)
}
fn all_distinct<FF: Fld>(xs: &[FF]) -> bool {
    let mut s = std::collections::HashSet::new();
    xs.iter().all(|x| s.insert(*x))
}
fn coset<FF: Fld>(offset: BFieldElement, n: usize) -> Option<Vec<FF>> {
    let omega = BFieldElement::primitive_root_of_unity(n as u64)?;
    let mut d = Vec::with_capacity(n);
    let mut acc = offset;
    for _ in 0..n {
        d.push(FF::lift(acc));
        acc *= omega;
    }
    Some(d)
}
/// value at `x` of the polynomial of degree < n through (offset*omega^i, codeword[i]) -- first barycentric form
fn coset_interpolant_at<FF: Fld>(codeword: &[FF], d: &[FF], offset: BFieldElement, x: FF) -> FF {
    let n = codeword.len();
    if let Some(i) = d.iter().position(|&di| di == x) {
        return codeword[i];
    }
    let inv = FF::batch_inversion(d.iter().map(|&di| x - di).collect());
    let mut s = FF::ZERO;
    for i in 0..n {
        s = s + codeword[i] * d[i] * inv[i];
    }
    let (mut xn, mut on, mut k, mut xb, mut ob) = (FF::ONE, BFieldElement::ONE, n, x, offset);
    while k > 0 {
        if k & 1 == 1 {
            xn = xn * xb;
            on *= ob;
        }
        xb = xb * xb;
        ob *= ob;
        k >>= 1;
    }
    let denom = FF::lift(BFieldElement::new(n as u64) * on);
    (xn - FF::lift(on)) * s * denom.inverse()
}

// ---- thread count control (as in c08.rs: `available_parallelism` follows the affinity mask) ---------------
extern "C" {
    fn sched_setaffinity(pid: i32, cpusetsize: usize, mask: *const u64) -> i32;
    fn sched_getaffinity(pid: i32, cpusetsize: usize, mask: *mut u64) -> i32;
}
struct AffinityGuard {
    old: [u64; 16],
    active: bool,
}
impl Drop for AffinityGuard {
    fn drop(&mut self) {
        if self.active {
            unsafe {
                sched_setaffinity(0, 128, self.old.as_ptr());
            }
        }
    }
}
fn with_threads<T>(t: usize, f: impl FnOnce() -> T) -> T {
    let mut g = AffinityGuard { old: [0; 16], active: false };
    unsafe {
        if sched_getaffinity(0, 128, g.old.as_mut_ptr()) == 0 {
            let mut new = [0u64; 16];
            let mut left = t.max(1);
            for w in 0..16 {
                for b in 0..64 {
                    if left > 0 && (g.old[w] >> b) & 1 == 1 {
                        new[w] |= 1 << b;
                        left -= 1;
                    }
                }
            }
            if sched_setaffinity(0, 128, new.as_ptr()) == 0 {
                g.active = true;
            }
        }
    }
    let r = f();
    drop(g);
    r
}

fn show_list<FF: Fld>(xs: &[FF]) -> String {
    let v: Vec<String> = xs.iter().map(|x| x.show()).collect();
    format!("[{}]", v.join(","))
}
fn plist<FF: Fld>(a: &Arg) -> Option<Vec<FF>> {
    a.list()?.iter().map(FF::parse).collect()
}

// ---- combined ops ----------------------------------------------------------------------------------------
fn run_combined<FF: Fld>(op: &str, a: &[Arg], st: &mut Stats, fam: &str) -> Option<Out> {
    let t = a.first()?.usize()?;
    match op {
        "interp_all" | "interp_fast" => {
            // `interp_fast`: the divide-and-conquer strategies only (quick tier above 300 points, where the quadratic
            // Lagrange arm of `interpolate` would dominate the run time)
            let full = op == "interp_all";
            let d: Vec<FF> = plist(a.get(1)?)?;
            let v: Vec<FF> = plist(a.get(2)?)?;
            let n = d.len();
            if n == 0 || n != v.len() || !all_distinct(&d) {
                return None;
            }
            st.hit(&format!("class:{}:n={}", fam, n_bucket(n)));
            let f0 = if full { Polynomial::interpolate(&d, &v) } else { Polynomial::fast_interpolate(&d, &v) };
            let mut o = Out::ok(format!("ok:{}", show_list(f0.coefficients())));
            let text = |s: &str| format!("{}: interpolant fails certificate deg < n and f(x_i) = y_i", s);
            let ok0 = certificate(f0.coefficients(), &d, &v);
            o = o.with_oracle(ok0, text(if full { "interpolate" } else { "fast_interpolate" }));
            // uniqueness (`interpolant_unique`): once one polynomial of degree < n through the points is certified, another
            // result passes the certificate iff it is that polynomial -- so the remaining strategies cost O(n) each
            let f0c: Vec<FF> = normalized(f0.coefficients()).to_vec();
            let cert = |f: &Polynomial<FF>| if ok0 { normalized(f.coefficients()) == &f0c[..] } else { certificate(f.coefficients(), &d, &v) };
            if full && (n <= 130 || (n > 4096 && n <= 4200)) {
                // (`interpolate` is `lagrange_interpolate` up to the sequential cut-off 4096)
                let f = Polynomial::lagrange_interpolate(&d, &v);
                o = o.with_oracle(cert(&f), text("lagrange_interpolate"));
            }
            if full {
                let f = Polynomial::fast_interpolate(&d, &v);
                o = o.with_oracle(cert(&f), text("fast_interpolate"));
            }
            let f = with_threads(t, || Polynomial::par_interpolate(&d, &v));
            o = o.with_oracle(cert(&f), text("par_interpolate"));
            // interpolate-then-evaluate: the interpolant, evaluated in bulk on its own domain, returns the ordinates
            let back = f.batch_evaluate(&d);
            o = o.with_oracle(back == v, "interpolate-then-evaluate: batch_evaluate(par_interpolate(d, v), d) != v");
            let f = with_threads(t, || Polynomial::par_fast_interpolate(&d, &v));
            o = o.with_oracle(cert(&f), text("par_fast_interpolate"));
            let back = with_threads(t, || f.par_batch_evaluate(&d));
            o = o.with_oracle(back == v, "interpolate-then-evaluate: par_batch_evaluate(par_fast_interpolate(d, v), d) != v");
            // batched: the given ordinates and (up to 130 points) their mirror image and the all-zero row
            let mut rows = vec![v.clone()];
            if n <= 130 {
                rows.push(v.iter().rev().copied().collect::<Vec<_>>());
                rows.push(vec![FF::ZERO; n]);
            }
            let fs = Polynomial::batch_fast_interpolate(&d, &rows, BFieldElement::ONE, 1);
            let okb = fs.len() == rows.len()
                && cert(&fs[0])
                && (rows.len() == 1 || (certificate(fs[1].coefficients(), &d, &rows[1]) && normalized(fs[2].coefficients()).is_empty()));
            o = o.with_oracle(okb, text("batch_fast_interpolate"));
            Some(o)
        }
        "eval_all" => {
            let p: Vec<FF> = plist(a.get(1)?)?;
            let d: Vec<FF> = plist(a.get(2)?)?;
            st.hit(&format!("class:{}:n={}", fam, n_bucket(d.len())));
            let poly = Polynomial::new(p.clone());
            let deg = poly.degree();
            st.hit(&format!("class:{}:deg-vs-n={}", fam, if deg < 0 { "zero".into() } else if deg < d.len() as isize { "lt-n".to_string() } else if deg < 4 * d.len() as isize { "n..4n".into() } else { "ge-4n".into() }));
            let want: Vec<FF> = d.iter().map(|&x| horner(&p, x)).collect();
            let text = |s: &str| format!("{}: bulk evaluation != Horner in input order", s);
            let r = poly.batch_evaluate(&d);
            let mut o = Out::ok(format!("ok:{}", show_list(&r))).with_oracle(r == want, text("batch_evaluate"));
            let r = with_threads(t, || poly.par_batch_evaluate(&d));
            o = o.with_oracle(r == want, text("par_batch_evaluate"));
            let r = poly.iterative_batch_evaluate(&d);
            o = o.with_oracle(r == want, text("iterative_batch_evaluate"));
            let tree = ZerofierTree::new_from_domain(&d);
            let r = poly.divide_and_conquer_batch_evaluate(&tree);
            o = o.with_oracle(r == want, text("divide_and_conquer_batch_evaluate"));
            Some(o)
        }
        "zerofier_all" => {
            let r: Vec<FF> = plist(a.get(1)?)?;
            let n = r.len();
            st.hit(&format!("class:{}:n={}", fam, n_bucket(n)));
            let want = naive_prod(&r);
            let text = |s: &str| format!("{}: zerofier != prod (X - r_i)", s);
            let z = Polynomial::zerofier(&r);
            let mut o = Out::ok(format!("ok:{}", show_list(z.coefficients())));
            let same = |z: &Polynomial<FF>| normalized(z.coefficients()) == &want[..];
            o = o.with_oracle(same(&z), text("zerofier"));
            o = o.with_oracle(same(&Polynomial::smart_zerofier(&r)), text("smart_zerofier"));
            o = o.with_oracle(same(&Polynomial::fast_zerofier(&r)), text("fast_zerofier"));
            if n <= 600 {
                o = o.with_oracle(same(&Polynomial::naive_zerofier(&r)), text("naive_zerofier"));
            }
            let z = with_threads(t, || Polynomial::par_zerofier(&r));
            o = o.with_oracle(same(&z), text("par_zerofier"));
            let tree = ZerofierTree::new_from_domain(&r);
            o = o.with_oracle(same(&tree.zerofier()), text("ZerofierTree::zerofier"));
            Some(o)
        }
        "coset_all" => {
            let off = a.get(1)?.bfe()?;
            let cw: Vec<FF> = plist(a.get(2)?)?;
            let pts: Vec<FF> = plist(a.get(3)?)?;
            let n = cw.len();
            if n == 0 || !n.is_power_of_two() || off == BFieldElement::ZERO {
                return None;
            }
            st.hit(&format!("class:{}:n={} points={}", fam, n, if pts.len() < 100 { "lt100" } else { "ge100" }));
            let dom: Vec<FF> = coset(off, n)?;
            let f = Polynomial::fast_coset_interpolate(off, &cw);
            let mut o = Out::ok(format!("ok:{}", show_list(f.coefficients())));
            o = o.with_oracle(certificate(f.coefficients(), &dom, &cw), "fast_coset_interpolate: coset interpolant fails certificate");
            let back = f.fast_coset_evaluate(off, n);
            o = o.with_oracle(back == cw, "fast_coset_evaluate(fast_coset_interpolate(cw)) != cw");
            let want: Vec<FF> = pts.iter().map(|&x| coset_interpolant_at(&cw, &dom, off, x)).collect();
            let r = Polynomial::coset_extrapolate(off, &cw, &pts);
            o = o.with_oracle(r == want, "coset_extrapolate: extrapolation != evaluate(interpolate on coset)");
            // batch: the codeword, its mirror image, the codeword again
            let cw2: Vec<FF> = cw.iter().rev().copied().collect();
            let want2: Vec<FF> = pts.iter().map(|&x| coset_interpolant_at(&cw2, &dom, off, x)).collect();
            let all: Vec<FF> = [cw.clone(), cw2, cw.clone()].concat();
            let wantb: Vec<FF> = [want.clone(), want2, want.clone()].concat();
            let r = Polynomial::batch_coset_extrapolate(off, n, &all, &pts);
            o = o.with_oracle(r == wantb, "batch_coset_extrapolate: extrapolation != evaluate(interpolate on coset)");
            let r = with_threads(t, || Polynomial::par_batch_coset_extrapolate(off, n, &all, &pts));
            o = o.with_oracle(r == wantb, "par_batch_coset_extrapolate: extrapolation != evaluate(interpolate on coset)");
            if !pts.is_empty() && pts.len() <= 130 && all_distinct(&pts) {
                let modulus = Polynomial::new(naive_prod(&pts));
                let pre = Polynomial::fast_modular_coset_interpolate_preprocess(n, off, &modulus);
                let g = Polynomial::fast_modular_coset_interpolate_with_zerofiers_and_ntt_friendly_multiple(&cw, off, &modulus, &pre);
                let okg = normalized(g.coefficients()).len() <= pts.len() && pts.iter().zip(&want).all(|(&x, &y)| horner(g.coefficients(), x) == y);
                o = o.with_oracle(okg, "fast_modular_coset_interpolate: != interpolant mod prod (X - p_j)");
            }
            Some(o)
        }
        "extrap_of_eval" => {
            let off = a.get(1)?.bfe()?;
            let n = a.get(2)?.usize()?;
            let p: Vec<FF> = plist(a.get(3)?)?;
            let pts: Vec<FF> = plist(a.get(4)?)?;
            if n == 0 || !n.is_power_of_two() || off == BFieldElement::ZERO || normalized(&p).len() > n {
                return None;
            }
            st.hit(&format!("class:{}:n={} points={}", fam, n, if pts.len() < 100 { "lt100" } else { "ge100" }));
            let poly = Polynomial::new(p.clone());
            let cw = poly.fast_coset_evaluate(off, n);
            let dom: Vec<FF> = coset(off, n)?;
            let mut o = Out::ok(format!("ok:{}", show_list(&cw)));
            o = o.with_oracle(cw.len() == n && dom.iter().zip(&cw).all(|(&x, &y)| horner(&p, x) == y), "fast_coset_evaluate: != Horner on offset*omega^i");
            let want: Vec<FF> = pts.iter().map(|&x| horner(&p, x)).collect();
            let r = Polynomial::coset_extrapolate(off, &cw, &pts);
            o = o.with_oracle(r == want, "coset_extrapolate(fast_coset_evaluate(p)) != Horner(p, points)");
            let all: Vec<FF> = [cw.clone(), cw.clone()].concat();
            let wantb: Vec<FF> = [want.clone(), want.clone()].concat();
            let r = Polynomial::batch_coset_extrapolate(off, n, &all, &pts);
            o = o.with_oracle(r == wantb, "batch_coset_extrapolate(fast_coset_evaluate(p)) != Horner(p, points)");
            let r = with_threads(t, || Polynomial::par_batch_coset_extrapolate(off, n, &all, &pts));
            o = o.with_oracle(r == wantb, "par_batch_coset_extrapolate(fast_coset_evaluate(p)) != Horner(p, points)");
            let g = Polynomial::fast_coset_interpolate(off, &cw);
            o = o.with_oracle(normalized(g.coefficients()) == normalized(&p), "fast_coset_interpolate(fast_coset_evaluate(p)) != p");
            Some(o)
        }
        _ => None,
    }
}

pub fn run_polyis(op: &str, args: &[Arg], st: &mut Stats) -> Option<Out> {
    let label = args.first()?.sym()?.to_string();
    let tag = args.get(1)?.sym()?.to_string();
    hit_label(st, &label);
    let fam = label_family(&label).to_string();
    let rest: Vec<Arg> = args[2..].iter().map(|a| expand_arg(&tag, a)).collect();
    match op {
        "interp_all" | "interp_fast" | "eval_all" | "zerofier_all" | "coset_all" | "extrap_of_eval" => match tag.as_str() {
            "b" => run_combined::<BFieldElement>(op, &rest, st, &fam),
            "x" => run_combined::<XFieldElement>(op, &rest, st, &fam),
            _ => None,
        },
        _ => {
            // an op of the family `polyi` on structured operands: c08.rs executes it and evaluates its oracles
            let mut full = vec![Arg::Sym(tag)];
            full.extend(rest);
            super::c08::run_polyi(op, &full, st)
        }
    }
}

// ---- generator ---------------------------------------------------------------------------------------------
fn omega(n: usize) -> BFieldElement {
    BFieldElement::primitive_root_of_unity(n.max(1).next_power_of_two() as u64).unwrap()
}
fn rnd_offset(r: &mut Rng) -> u64 {
    match r.below(6) {
        0 => 7,
        1 => 1 + r.fval() % (P - 1),
        _ => 1 + r.below(P - 1),
    }
}
pub const DOM_CLASSES: [&str; 20] = [
    "coset", "coset_rev", "coset_inv", "coset_s3", "coset_sk", "coset_bitrev", "coset_swap", "subgroup", "subgroup_rev", "coset_rootoff",
    "coset_m1", "two_cosets", "arith1", "arith", "arith_from0", "arith_around0", "planted_0_1_m1", "random", "coset_s5_rootoff", "subgroup_inv",
];
/// `n` pairwise distinct base-field points of the given class (segment form where one exists)
pub fn dom(kind: &str, n: usize, r: &mut Rng) -> String {
    let big_n = n.max(1).next_power_of_two();
    let w = omega(n);
    let off = BFieldElement::new(rnd_offset(r));
    let geo = |a: BFieldElement, q: BFieldElement| format!("G:{}:{}:{}", a.value(), q.value(), n);
    let explicit_of = |v: Vec<BFieldElement>| fmt_list_u64(&v.iter().map(|x| x.value()).collect::<Vec<_>>());
    let natural = |a: BFieldElement| -> Vec<BFieldElement> {
        let mut v = Vec::with_capacity(big_n);
        let mut acc = a;
        for _ in 0..big_n {
            v.push(acc);
            acc *= w;
        }
        v
    };
    match kind {
        "coset" => geo(off, w),
        "coset_rev" => geo(off * w.mod_pow(n.saturating_sub(1) as u64), w.inverse()),
        "coset_inv" => geo(off, w.inverse()),
        "coset_s3" => geo(off, w.mod_pow(3)),
        "coset_sk" => geo(off, w.mod_pow(2 * r.below(big_n as u64 / 2 + 1) + 1)),
        "coset_s5_rootoff" => geo(omega(4 * big_n), w.mod_pow(5)),
        "coset_bitrev" => {
            let nat = natural(off);
            let bits = big_n.trailing_zeros();
            let v: Vec<BFieldElement> = (0..big_n).map(|i| if bits == 0 { nat[0] } else { nat[((i as u32).reverse_bits() >> (32 - bits)) as usize] }).take(n).collect();
            explicit_of(v)
        }
        "coset_swap" => {
            let mut v: Vec<BFieldElement> = natural(off).into_iter().take(n).collect();
            if n >= 3 {
                let i = 1 + r.below(n as u64 - 1) as usize;
                let j = if r.coin(1, 2) { n / 2 } else { 0 };
                if i != j {
                    v.swap(i, j);
                } else {
                    v.swap(0, n - 1);
                }
            }
            explicit_of(v)
        }
        "subgroup" => geo(BFieldElement::ONE, w),
        "subgroup_rev" => geo(w.mod_pow(n.saturating_sub(1) as u64), w.inverse()),
        "subgroup_inv" => geo(BFieldElement::ONE, w.inverse()),
        "coset_rootoff" => geo(omega(2 * big_n), w),
        "coset_m1" => geo(BFieldElement::new(P - 1), w),
        "two_cosets" => {
            let h = n / 2;
            let wh = omega((n - h).max(1));
            let hb = (n - h).max(1).next_power_of_two();
            format!("G:{}:{}:{}.G:{}:{}:{}", off.value(), wh.value(), h, (off * omega(2 * hb)).value(), wh.value(), n - h)
        }
        "arith1" => format!("A:{}:1:{}", r.fval(), n),
        "arith" => format!("A:{}:{}:{}", r.fval(), 1 + r.below(P - 1), n),
        "arith_from0" => format!("A:0:1:{}", n),
        "arith_around0" => format!("A:{}:1:{}", (P - (n as u64 / 2)) % P, n),
        "planted_0_1_m1" => {
            let mut seen = std::collections::HashSet::new();
            let mut v: Vec<u64> = vec![];
            let plant: Vec<(usize, u64)> = vec![(0, 0), (n / 2, 1), (n.saturating_sub(1), P - 1)];
            for (_, x) in &plant {
                seen.insert(*x);
            }
            while v.len() < n {
                let x = r.below(P);
                if seen.insert(x) {
                    v.push(x);
                }
            }
            if n >= 3 {
                for (i, x) in plant {
                    v[i] = x;
                }
            }
            fmt_list_u64(&v)
        }
        _ => format!("N:{}:{}", r.below(1 << 40), n),
    }
}
pub const VAL_CLASSES: [&str; 24] = [
    "zero", "zero_left", "zero_right", "zero_even", "zero_odd", "only_q2", "only_q4", "zero_q3", "ind_first", "ind_last", "ind_mid", "ind_mid_m1",
    "ind_mid_p1", "ind_q3", "const", "lowdeg_1", "lowdeg_q", "lowdeg_h", "lowdeg_nm2", "random", "zero_left_but_one", "only_q3", "zero_pad_tail", "boundary",
];
/// ordinates of the given class on the (expanded) domain `d`
fn vals<FF: Fld>(kind: &str, d: &[FF], tag: &str, r: &mut Rng) -> String {
    let n = d.len();
    let (h, q) = (n / 2, n / 4);
    let s = r.below(1 << 40);
    let c = 1 + r.below(P - 1);
    let ind = |k: usize| if n == 0 { "Z:0".to_string() } else { let k = k.min(n - 1); format!("Z:{}.E:{}.Z:{}", k, c, n - k - 1) };
    let lowdeg = |r: &mut Rng, deg: usize| -> String {
        let p: Vec<FF> = (0..=deg).map(|_| FF::uniform(r)).collect();
        show_list(&d.iter().map(|&x| horner(&p, x)).collect::<Vec<_>>())
    };
    match kind {
        "zero" => format!("Z:{}", n),
        "zero_left" => format!("Z:{}.N:{}:{}", h, s, n - h),
        "zero_right" => format!("N:{}:{}.Z:{}", s, h, n - h),
        "zero_left_but_one" => format!("E:{}.Z:{}.N:{}:{}", c, h.saturating_sub(1), s, n - h.max(1).min(n)),
        "zero_even" | "zero_odd" => {
            let mut rr = Rng::new(s);
            let z = if tag == "x" { "(0;0;0)".to_string() } else { "0".to_string() };
            let v: Vec<String> = (0..n).map(|i| if (i % 2 == 0) == (kind == "zero_even") { z.clone() } else { fmt_arg(&uni_arg(tag, &mut rr, true)) }).collect();
            format!("[{}]", v.join(","))
        }
        "only_q2" => format!("Z:{}.N:{}:{}.Z:{}", q, s, h - q, n - h),
        "only_q3" => format!("Z:{}.N:{}:{}.Z:{}", h, s, (n - h) / 2, n - h - (n - h) / 2),
        "only_q4" => format!("Z:{}.N:{}:{}", h + (n - h) / 2, s, n - h - (n - h) / 2),
        "zero_q3" => format!("N:{}:{}.Z:{}.N:{}:{}", s, h, (n - h) / 2, s + 1, n - h - (n - h) / 2),
        "zero_pad_tail" => format!("N:{}:{}.Z:{}", s, n - n / 8 - usize::from(n > 0 && n < 8), n / 8 + usize::from(n > 0 && n < 8)),
        "ind_first" => ind(0),
        "ind_last" => ind(n.saturating_sub(1)),
        "ind_mid" => ind(h),
        "ind_mid_m1" => ind(h.saturating_sub(1)),
        "ind_mid_p1" => ind(h + 1),
        "ind_q3" => ind(h + (n - h) / 2),
        "const" => format!("C:{}:{}", c, n),
        "lowdeg_1" => lowdeg(r, 1),
        "lowdeg_q" => lowdeg(r, q),
        "lowdeg_h" => lowdeg(r, h.saturating_sub(1)),
        "lowdeg_nm2" => lowdeg(r, n.saturating_sub(2)),
        "boundary" => {
            let v: Vec<String> = (0..n).map(|_| if tag == "x" { fmt_xfe(&r.xfe()) } else { r.fval().to_string() }).collect();
            format!("[{}]", v.join(","))
        }
        _ => format!("R:{}:{}", s, n),
    }
}
fn vals_for(kind: &str, tag: &str, d: &str, r: &mut Rng) -> String {
    let da = expand_arg(tag, &parse_arg(d).expect("domain"));
    if tag == "x" {
        vals::<XFieldElement>(kind, &plist(&da).expect("x list"), tag, r)
    } else {
        vals::<BFieldElement>(kind, &plist(&da).expect("b list"), tag, r)
    }
}
pub const POLY_CLASSES: [&str; 10] = ["dense", "xk_plus_c", "xk_minus_1", "trinomial", "stored_zeros", "monomial", "low_then_gap", "all_ones", "zero", "const"];
/// coefficient list with `ncoef` stored coefficients of the given shape (lowest degree first)
pub fn poly(kind: &str, ncoef: usize, r: &mut Rng) -> String {
    let s = r.below(1 << 40);
    let c = 1 + r.below(P - 1);
    if ncoef == 0 {
        return "Z:0".into();
    }
    let k = ncoef - 1;
    match kind {
        "xk_plus_c" if k >= 1 => format!("E:{}.Z:{}.E:1", c, k - 1),
        "xk_minus_1" if k >= 1 => format!("E:{}.Z:{}.E:1", P - 1, k - 1),
        "trinomial" if k >= 4 => format!("E:{}.Z:2.E:1.Z:{}.E:{}", c, k - 4, 1 + r.below(P - 1)),
        "stored_zeros" => format!("N:{}:{}.Z:{}", s, ncoef - ncoef / 2, ncoef / 2),
        "monomial" => format!("Z:{}.E:{}", k, c),
        "low_then_gap" if k >= 8 => format!("N:{}:{}.Z:{}.E:{}", s, ncoef / 8, k - ncoef / 8, c),
        "all_ones" => format!("C:1:{}", ncoef),
        "zero" => format!("Z:{}", ncoef.min(3)),
        "const" => format!("E:{}", c),
        _ => format!("R:{}:{}.E:{}", s, k, c),
    }
}

struct G<'a> {
    r: &'a mut Rng,
    out: &'a mut Vec<String>,
}
impl G<'_> {
    fn threads(&mut self) -> u64 {
        *self.r.pick(&[1u64, 2, 3, 4, 7, 16, 64])
    }
    fn tag(&mut self, n: usize) -> &'static str {
        if n <= 130 && self.r.coin(1, 5) {
            "x"
        } else {
            "b"
        }
    }
}

pub fn gen(rng: &mut Rng, thorough: bool, out: &mut Vec<String>) {
    let mut g = G { r: rng, out };
    // -------- interpolation: ordinate class x size around every dispatch threshold x all strategies -----------
    // (16: batched cut-off, 100: fast zerofier, 256: parallel cut-off and fast multiplication, 2^k, 2^k +- 1,
    //  >= 514: both half-products of a divide-and-conquer step are NTT products; 4096: sequential cut-off)
    let mut sizes: Vec<usize> = vec![1, 2, 3, 4, 5, 8, 15, 16, 17, 31, 32, 33, 63, 64, 65, 99, 100, 101, 129, 255, 256, 257, 258, 512, 514, 515, 1024, 1025];
    if thorough {
        sizes.extend([127, 128, 513, 200, 300, 511, 516, 600, 768, 1023, 1030, 2047, 2048, 2049, 2060, 4095, 4096, 4097, 4100]);
    }
    let mut model_budget_big = if thorough { 40 } else { 3 }; // explicit `polyi` lines above 300 points (the model needs ~1 s each)
    let mut k = 0usize;
    for &n in &sizes {
        for (vi, vk) in VAL_CLASSES.iter().enumerate() {
            if n > 1100 && !thorough {
                continue;
            }
            // quick tier above 300 points: every class at 514 and 1024, every second / third one at the neighbours
            let zeroish = vk.starts_with("zero") || vk.starts_with("only") || vk.starts_with("ind");
            if !thorough && ((n == 515 || n == 1025) && vi % 2 != 0 || n == 512 && vi % 3 != 0 || n == 1024 && !zeroish) {
                continue;
            }
            if n > 2100 && vi % 3 != k % 3 && !["zero_left", "ind_last", "only_q4", "only_q2"].contains(vk) {
                continue;
            }
            k += 1;
            let dk = DOM_CLASSES[(k * 7) % DOM_CLASSES.len()];
            let tag = g.tag(n);
            let d = dom(dk, n, g.r);
            let v = vals_for(vk, tag, &d, g.r);
            let th = g.threads();
            let op = if n > 300 && !thorough { "interp_fast" } else { "interp_all" };
            g.out.push(format!("polyis {} ipl:{}:{} {} {} {} {}", op, vk, dk, tag, th, d, v));
            // the same operands for the model: one strategy per case, rotating
            let small = n <= 33 || (n <= 129 && k % 4 == 0) || (n <= 258 && k % 16 == 0);
            let big = !small && n >= 300 && n <= 1100 && model_budget_big > 0 && ["zero_left", "ind_last", "only_q4", "lowdeg_q"].contains(vk) && (k % 5 == 0);
            if small || big {
                if big {
                    model_budget_big -= 1;
                }
                let (de, ve) = (explicit(tag, &d), explicit(tag, &v));
                match k % 5 {
                    0 => g.out.push(format!("polyi fast_interpolate {} {} {}", tag, de, ve)),
                    1 => g.out.push(format!("polyi par_interpolate {} {} {} {}", tag, th, de, ve)),
                    2 => g.out.push(format!("polyi par_fast_interpolate {} {} {} {}", tag, th, de, ve)),
                    3 => g.out.push(format!("polyi interpolate {} {} {}", tag, de, ve)),
                    _ => g.out.push(format!("polyi batch_fast_interpolate {} {} [{}]", tag, de, ve)),
                }
            }
        }
    }
    // every abscissa class with dense ordinates, at sizes around the thresholds
    for dk in DOM_CLASSES {
        for &n in &[2usize, 4, 16, 17, 64, 100, 256, 257, 512, 1024] {
            if n > 300 && !thorough && g.r.coin(3, 4) {
                continue;
            }
            let tag = g.tag(n);
            let d = dom(dk, n, g.r);
            let v = vals_for("random", tag, &d, g.r);
            let th = g.threads();
            let op = if n > 300 && !thorough { "interp_fast" } else { "interp_all" };
            g.out.push(format!("polyis {} ipl:random:{} {} {} {} {}", op, dk, tag, th, d, v));
            if n <= 64 {
                g.out.push(format!("polyi lagrange_interpolate {} {} {}", tag, explicit(tag, &d), explicit(tag, &v)));
            }
        }
    }
    // -------- bulk evaluation: abscissa class x polynomial shape x degree relative to the domain size -----------
    let eval_sizes: Vec<usize> = if thorough { vec![1, 2, 3, 4, 8, 16, 17, 32, 64, 100, 128, 256, 257, 512, 1024, 2048] } else { vec![1, 2, 4, 8, 16, 17, 32, 64, 100, 128, 256, 512, 1024] };
    let mut model_budget_eval = if thorough { 60 } else { 10 };
    for dk in DOM_CLASSES {
        for &n in &eval_sizes {
            // degrees below, at and above the domain size and around 4x (reduce-before-evaluate)
            let mut ncoefs: Vec<usize> = vec![1, 2, n / 2 + 1, n.saturating_sub(1).max(1), n, n + 1];
            if n <= 256 {
                ncoefs.extend([4 * n, 4 * n + 1, 4 * n + 2]);
            }
            ncoefs.sort();
            ncoefs.dedup();
            for nc in ncoefs {
                if !thorough && n >= 128 && !g.r.coin(1, 2) {
                    continue;
                }
                k += 1;
                let pk = POLY_CLASSES[k % POLY_CLASSES.len()];
                let tag = g.tag(n);
                let d = dom(dk, n, g.r);
                let p = poly(pk, nc, g.r);
                let th = g.threads();
                g.out.push(format!("polyis eval_all evl:{}:{} {} {} {} {}", dk, pk, tag, th, p, d));
                let small = n <= 17 || (n <= 64 && k % 3 == 0);
                let big = !small && n >= 64 && n <= 256 && nc <= n + 1 && model_budget_eval > 0 && k % 7 == 0;
                if small || big {
                    if big {
                        model_budget_eval -= 1;
                    }
                    let (pe, de) = (explicit(tag, &p), explicit(tag, &d));
                    match k % 3 {
                        0 => g.out.push(format!("polyi batch_evaluate {} {} {}", tag, pe, de)),
                        1 => g.out.push(format!("polyi par_batch_evaluate {} {} {} {}", tag, th, pe, de)),
                        _ => g.out.push(format!("polyi dc_eval {} {} {}", tag, pe, de)),
                    }
                }
            }
        }
    }
    // polynomials vanishing on (part of) the domain: multiples of the zerofier of a coset, X^n - offset^n
    for &n in &[4usize, 16, 64, 256] {
        for dk in ["coset", "coset_inv", "subgroup", "coset_bitrev"] {
            let d = dom(dk, n, g.r);
            let th = g.threads();
            // X^n - 1 and X^(2n) - 1 vanish on the subgroup; on a coset they are constant
            g.out.push(format!("polyis eval_all evl:{}:xn_minus_1 b {} E:{}.Z:{}.E:1 {}", dk, th, P - 1, n - 1, d));
            g.out.push(format!("polyis eval_all evl:{}:x2n_minus_1 b {} E:{}.Z:{}.E:1 {}", dk, th, P - 1, 2 * n - 1, d));
            g.out.push(format!("polyis eval_all evl:{}:x4n_plus_xn b {} Z:{}.E:1.Z:{}.E:1 {}", dk, th, n, 3 * n - 1, d));
        }
    }
    // -------- zerofiers: structured root lists (the zerofier of a coset is X^n - offset^n: massive cancellation) -----
    let zsizes: Vec<usize> = if thorough { vec![1, 2, 3, 16, 17, 64, 99, 100, 101, 128, 199, 200, 201, 256, 257, 400, 512, 513, 1024] } else { vec![1, 2, 16, 17, 64, 99, 100, 101, 128, 200, 256, 257, 512] };
    for dk in DOM_CLASSES {
        for &n in &zsizes {
            if !thorough && n >= 200 && !g.r.coin(1, 3) {
                continue;
            }
            k += 1;
            let tag = g.tag(n.max(200));
            let d = dom(dk, n, g.r);
            let th = g.threads();
            g.out.push(format!("polyis zerofier_all zrf:{} {} {} {}", dk, tag, th, d));
            if n <= 17 || (n <= 128 && k % 6 == 0) {
                let de = explicit(tag, &d);
                match k % 4 {
                    0 => g.out.push(format!("polyi zerofier {} {}", tag, de)),
                    1 => g.out.push(format!("polyi fast_zerofier {} {}", tag, de)),
                    2 => g.out.push(format!("polyi par_zerofier {} {} {}", tag, th, de)),
                    _ => g.out.push(format!("polyi tree {} {}", tag, de)),
                }
            }
        }
    }
    // -------- coset interpolation / evaluation / extrapolation --------------------------------------------------
    // codeword classes (on the coset offset*omega^i): the ordinate classes; samples of a low-degree polynomial make the
    // INTT output carry stored leading zeros, which then goes through the chunk-wise NTT reduction
    let off_classes: [(&str, u64); 5] = [("off_1", 1), ("off_7", 7), ("off_m1", P - 1), ("off_root", 0), ("off_rnd", 0)];
    let pts_classes = ["coset_inv", "coset", "coset_s3", "arith_around0", "planted_0_1_m1", "random", "coset_bitrev", "subgroup", "on_domain"];
    let cw_sizes: Vec<usize> = if thorough { vec![1, 2, 4, 16, 64, 128, 256, 512, 1024, 2048, 4096] } else { vec![1, 2, 4, 16, 64, 128, 256, 512, 1024] };
    let mut model_budget_coset = if thorough { 40 } else { 8 };
    for &n in &cw_sizes {
        for (vi, vk) in VAL_CLASSES.iter().enumerate() {
            if n >= 256 && !thorough && !["zero", "zero_left", "zero_right", "zero_even", "ind_last", "ind_mid", "const", "lowdeg_1", "lowdeg_q", "lowdeg_h", "random", "zero_pad_tail"].contains(vk) {
                continue;
            }
            k += 1;
            let (ok, ov) = off_classes[(k + vi) % off_classes.len()];
            let off = match ok {
                "off_root" => omega(4 * n.max(2)).value(),
                "off_rnd" => rnd_offset(g.r),
                _ => ov,
            };
            let pk = pts_classes[k % pts_classes.len()];
            // point counts around the fast/naive threshold 100; powers of two for the coset-shaped point sets
            let np = match (pk, k % 4) {
                ("on_domain", _) => n.min(130),
                (_, 0) => *g.r.pick(&[1usize, 2, 16, 64]),
                (_, 1) => 128,
                (_, 2) => *g.r.pick(&[99usize, 100, 101]),
                _ => *g.r.pick(&[4usize, 32, 256]),
            };
            let tag = g.tag(n.max(np));
            let cosd = format!("G:{}:{}:{}", off, omega(n).value(), n);
            let cw = vals_for(vk, tag, &cosd, g.r);
            let pts = if pk == "on_domain" { format!("G:{}:{}:{}", off, omega(n).value(), np) } else { dom(pk, np, g.r) };
            let th = g.threads();
            g.out.push(format!("polyis coset_all cst:{}:{}:pts_{} {} {} {} {} {}", vk, ok, pk, tag, th, off, cw, pts));
            let small = n <= 16 && np <= 64;
            let big = !small && n >= 64 && n <= 512 && np <= 130 && model_budget_coset > 0 && ["lowdeg_q", "zero_left", "ind_last", "lowdeg_1"].contains(vk);
            if small || big {
                if big {
                    model_budget_coset -= 1;
                }
                g.out.push(format!("polyi coset_extrapolate {} {} {} {}", tag, off, explicit(tag, &cw), explicit(tag, &pts)));
            }
            if n <= 64 && k % 3 == 0 {
                g.out.push(format!("polyi fast_coset_interpolate {} {} {}", tag, off, explicit(tag, &cw)));
            }
            if off == 1 && n <= 64 {
                // barycentric evaluation of the structured codeword (subgroup, no offset) at a point outside the subgroup
                g.out.push(format!("polyis barycentric_evaluate bar:{} {} {} {}", vk, tag, cw, 3 + g.r.below(1 << 20)));
            }
        }
    }
    // extrapolation of the crate's own coset evaluation of a structured polynomial
    for &n in &cw_sizes {
        for pk in POLY_CLASSES {
            for frac in [1usize, 4, 8] {
                if !thorough && n >= 256 && !g.r.coin(1, 2) {
                    continue;
                }
                k += 1;
                let nc = (n / frac).max(1);
                let p = poly(pk, nc, g.r);
                let ptk = pts_classes[k % (pts_classes.len() - 1)];
                let np = if k % 2 == 0 { *g.r.pick(&[3usize, 17, 64, 99]) } else { *g.r.pick(&[100usize, 128, 101]) };
                let pts = dom(ptk, np, g.r);
                let off = if k % 3 == 0 { 1 } else { rnd_offset(g.r) };
                let tag = g.tag(n.max(np));
                let th = g.threads();
                g.out.push(format!("polyis extrap_of_eval xev:{}:deg_n_over_{}:pts_{} {} {} {} {} {} {}", pk, frac, ptk, tag, th, off, n, p, pts));
                if n <= 16 {
                    g.out.push(format!("polyi fast_coset_evaluate {} {} {} {}", tag, explicit(tag, &p), off, n));
                }
            }
        }
    }
}
