// PROP: C13  FAMILIES: codec13=run_codec13
//! C13 -- decoding is total, strict and resource-bounded.  Family `codec13` (same model handler as `codec`).
//!
//!   codec13 dec <ty> [seq]   -> ok:<val> | err | panic
//!
//! Oracles on the implementation: never panics; an accepted sequence re-encodes to itself (strictness: nothing but
//! the one canonical encoding is accepted); and -- the one thing the Lean model cannot see -- the peak number of bytes
//! allocated *during `T::decode`* is bounded by `K_PER_ELEM * (len + 1) + K_CONST`, whatever the length fields say.
//! The allocation bound is a TEST (counting global allocator), not a theorem.
use crate::util::*;
use std::alloc::{GlobalAlloc, Layout, System};
use std::sync::atomic::{AtomicUsize, Ordering};

use super::c03::{self, TyDesc};

// ---- counting global allocator (crate-global; legal in any module) -------------------------------------------
pub struct Counting;
static CUR: AtomicUsize = AtomicUsize::new(0);
static PEAK: AtomicUsize = AtomicUsize::new(0);
static BASE: AtomicUsize = AtomicUsize::new(0);

unsafe impl GlobalAlloc for Counting {
    unsafe fn alloc(&self, l: Layout) -> *mut u8 {
        let p = System.alloc(l);
        if !p.is_null() {
            let c = CUR.fetch_add(l.size(), Ordering::Relaxed) + l.size();
            PEAK.fetch_max(c, Ordering::Relaxed);
        }
        p
    }
    unsafe fn dealloc(&self, p: *mut u8, l: Layout) {
        System.dealloc(p, l);
        CUR.fetch_sub(l.size(), Ordering::Relaxed);
    }
    unsafe fn alloc_zeroed(&self, l: Layout) -> *mut u8 {
        let p = System.alloc_zeroed(l);
        if !p.is_null() {
            let c = CUR.fetch_add(l.size(), Ordering::Relaxed) + l.size();
            PEAK.fetch_max(c, Ordering::Relaxed);
        }
        p
    }
    unsafe fn realloc(&self, p: *mut u8, l: Layout, new_size: usize) -> *mut u8 {
        let q = System.realloc(p, l, new_size);
        if !q.is_null() {
            if new_size >= l.size() {
                let c = CUR.fetch_add(new_size - l.size(), Ordering::Relaxed) + (new_size - l.size());
                // a moving realloc holds old and new block at the same time
                PEAK.fetch_max(c + l.size(), Ordering::Relaxed);
            } else {
                CUR.fetch_sub(l.size() - new_size, Ordering::Relaxed);
            }
        }
        q
    }
}

#[global_allocator]
static GLOBAL: Counting = Counting;

fn probe_start() {
    let c = CUR.load(Ordering::Relaxed);
    BASE.store(c, Ordering::Relaxed);
    PEAK.store(c, Ordering::Relaxed);
}
fn probe_peak() -> usize {
    PEAK.load(Ordering::Relaxed).saturating_sub(BASE.load(Ordering::Relaxed))
}

pub const K_PER_ELEM: usize = 512;
pub const K_CONST: usize = 4096;

// ---- generator ------------------------------------------------------------------------------------------------
/// every position of a valid encoding replaced, in turn, by each of the boundary values
fn systematic(seq: &[u64], out: &mut Vec<Vec<u64>>) {
    for i in 0..seq.len() {
        let v = seq[i];
        for s in [0u64, v.wrapping_add(1) % P, if v == 0 { P - 1 } else { v - 1 }, 1 << 32, 1 << 63, P - 1] {
            if s != v {
                let mut m = seq.to_vec();
                m[i] = s;
                out.push(m);
            }
        }
    }
    for k in 0..seq.len() {
        out.push(seq[..k].to_vec()); // every proper prefix
    }
    let mut e = seq.to_vec();
    e.push(0);
    out.push(e);
}

pub fn gen(rng: &mut Rng, thorough: bool, out: &mut Vec<String>) {
    let entries = c03::all_entries();
    // random near-valid and malformed sequences
    let per_type = if thorough { (120, 12, 200) } else { (3, 6, 6) };
    c03::gen_for_entries("codec13", &entries, rng, per_type, false, out);
    // systematic single-position mutations of short valid encodings
    let n_sys = if thorough { 40 } else { 1 };
    for (d, e) in &entries {
        for _ in 0..n_sys {
            let mut budget = 8;
            let v = c03::gen_val(&e.desc, rng, &mut budget);
            let Some(seq) = c03::encode_with(e, &v) else { continue };
            if seq.len() > 40 {
                continue;
            }
            let mut ms = vec![];
            systematic(&seq, &mut ms);
            for m in ms {
                out.push(format!("codec13 dec {} {}", d, fmt_list_u64(&m)));
            }
        }
    }
    // long sequences: the bound must hold with the same constants
    let long = if thorough { 300 } else { 6 };
    for _ in 0..long {
        let (d, e) = rng.pick(&entries);
        let mut budget = if thorough { 20000 } else { 400 };
        let v = big_val(&e.desc, rng, &mut budget);
        let Some(seq) = c03::encode_with(e, &v) else { continue };
        out.push(format!("codec13 dec {} {}", d, fmt_list_u64(&seq)));
        let (m, _) = c03::mutate(&seq, rng);
        out.push(format!("codec13 dec {} {}", d, fmt_list_u64(&m)));
    }
}

/// like `gen_val` but lists take most of the remaining budget
fn big_val(t: &TyDesc, rng: &mut Rng, budget: &mut i64) -> c03::Val {
    match t {
        TyDesc::Vec(it) | TyDesc::Poly(it) => {
            let n = ((*budget).max(0) as u64 / 2).min(8000);
            *budget -= n as i64;
            let mut items: Vec<c03::Val> = (0..n).map(|_| c03::gen_val(it, rng, budget)).collect();
            if let TyDesc::Poly(_) = t {
                // keep it normalised or not at random; both are fine for encode
                if rng.coin(1, 2) {
                    items.push(c03::gen_val(it, rng, budget));
                }
            }
            c03::Val::List(items)
        }
        _ => c03::gen_val(t, rng, budget),
    }
}

// ---- runner ---------------------------------------------------------------------------------------------------
pub fn run_codec13(op: &str, args: &[Arg], st: &mut Stats) -> Option<Out> {
    c03::MEM_PROBE.get_or_init(|| c03::MemProbe { start: probe_start, peak: probe_peak });
    if op != "dec" || args.len() != 2 {
        return super::c03bulk::run_codec13_more(op, args, st); // bulk ops (c03bulk.rs)
    }
    let d = TyDesc::parse(&args[0])?;
    let entries = c03::lookup(&d);
    if entries.is_empty() {
        return Some(Out::ok("bad-request"));
    }
    let seq = args[1].bfes()?;
    c03::LAST_DECODE_PEAK.store(0, Ordering::Relaxed);
    let out = c03::run_dec(&entries, &d, &seq, st);
    let peak = c03::LAST_DECODE_PEAK.load(Ordering::Relaxed);
    let bound = K_PER_ELEM * (seq.len() + 1) + K_CONST;
    let per = peak / (seq.len() + 1);
    st.hit(match per {
        0 => "mem:0B/elem",
        1..=15 => "mem:1-15B/elem",
        16..=63 => "mem:16-63B/elem",
        64..=255 => "mem:64-255B/elem",
        _ => "mem:>=256B/elem",
    });
    // which element values does the sequence contain (evidence: the length fields really were attacked)
    if seq.iter().any(|x| x.value() >= 1 << 32) {
        st.hit("seq:has-element>=2^32");
    }
    Some(out.with_oracle(
        peak <= bound,
        format!("decode allocated {} bytes at peak for a sequence of {} elements (bound {})", peak, seq.len(), bound),
    ))
}
