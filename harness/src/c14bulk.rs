// PROP: C14  FAMILIES:
//! C14 growth -- HISTORY: op lines of the EXISTING ops `derive slen` / `derive enc` (the model and both macro twins take
//! part) for the generic corpus types, ordered static instantiation -> dynamic instantiation -> static again, so that a
//! `static_length()` remembered per generic TYPE instead of per instantiation shows in the same process.
use crate::util::*;

pub fn gen(_rng: &mut Rng, _thorough: bool, out: &mut Vec<String>) {
    let pairs = [
        ("G1.u32 (struct;u32;(tup;u32;u32))", "G1.Vec.u8 (struct;(vec;u8);(tup;(vec;u8);(vec;u8)))"),
        ("G2.u64 (struct;u64;(tup;u64;u64))", "G2.Option.u8 (struct;(opt;u8);(tup;(opt;u8);(opt;u8)))"),
        ("G4.u8.u8 (struct;u8;(opt;u8))", "G4.Vec.u8.u64 (struct;(vec;u8);(opt;u64))"),
        ("G5.u32.String (struct;u32)", "G5.Vec.u8.unit (struct;(vec;u8))"),
        ("G6.u16.3 (struct;(arr;3;u16))", "G6.Vec.u8.2 (struct;(arr;2;(vec;u8)))"),
    ];
    for _ in 0..2 {
        for (st, dy) in pairs {
            out.push(format!("derive slen {}", st));
            out.push(format!("derive slen {}", dy));
            out.push(format!("derive slen {}", st));
        }
    }
}
