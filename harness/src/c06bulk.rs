// PROP: C06  FAMILIES:
//! C06 growth -- op lines of the EXISTING ops of family `ntt` (so the model takes part wherever it has a handler) in
//! the orders and at the sizes the main stream does not produce:
//!  * HISTORY: every function, both fields, lengths 64 -> 8 -> 64 -> 4 -> 4096 -> 16 -> 2 -> 1024 -> 8 in ONE process (a
//!    scratch table / cache sized by an earlier, larger call must not change a later, smaller one), a 2^16 call followed
//!    by small ones, same length / different content;
//!  * BULK: the lengths 2^15 and 2^16 (between the `gen` sizes <= 2^14 and the `big` sizes >= 2^17 of the quick tier), all
//!    four transforms, both fields -- the first lengths where a "chunks of 1 MiB" path sees a remainder on 24-byte elements.
use crate::util::*;

pub fn gen(rng: &mut Rng, thorough: bool, out: &mut Vec<String>) {
    const FNS: [&str; 4] = ["ntt", "intt", "ntt_noswap", "intt_noswap"];
    let s = |rng: &mut Rng| rng.next() >> 1;
    for f in FNS {
        for fld in ["b", "x"] {
            for n in [64u64, 8, 64, 4, 4096, 16, 2, 1024, 8] {
                out.push(format!("ntt gen {f} {fld} {} {} {n}", rng.below(3), s(rng)));
            }
            // same length, other content; unit vector right after a dense vector
            out.push(format!("ntt gen {f} {fld} 0 {} 8", s(rng)));
            out.push(format!("ntt gen {f} {fld} 2 {} 8", s(rng)));
        }
    }
    // functions interleaved at descending lengths (a table shared between the variants)
    for n in [256u64, 128, 32, 16, 8, 4] {
        for f in FNS {
            out.push(format!("ntt gen {f} {} 0 {} {n}", if n % 3 == 1 { "x" } else { "b" }, s(rng)));
        }
    }
    for k in (if thorough { vec![15u32, 16, 17] } else { vec![15u32, 16] }) {
        let n = 1u64 << k;
        for fld in ["x", "b"] {
            for f in FNS {
                out.push(format!("ntt big {f} {fld} {} {} {n}", rng.pick(&[0u64, 1]), s(rng)));
            }
            out.push(format!("ntt big ntt {fld} 2 {} {n}", (s(rng) / n) * n + n - 1));
        }
        // a large call, then small ones of every function
        for f in FNS {
            out.push(format!("ntt gen {f} x 0 {} 4", s(rng)));
            out.push(format!("ntt gen {f} b 0 {} 8", s(rng)));
        }
    }
}
