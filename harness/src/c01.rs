// PROP: C01  FAMILIES: bfe=run_bfe xfe=run_xfe
//! C01 -- base and extension field arithmetic.  Families `bfe` (raw Montgomery words in/out) and `xfe`.
use crate::util::*;
use num_traits::Zero;
use twenty_first::math::traits::*;
use twenty_first::prelude::*;

fn mulp(a: u64, b: u64) -> u64 {
    ((a as u128 * b as u128) % P as u128) as u64
}
fn addp(a: u64, b: u64) -> u64 {
    ((a as u128 + b as u128) % P as u128) as u64
}
fn subp(a: u64, b: u64) -> u64 {
    ((a as u128 + P as u128 - b as u128) % P as u128) as u64
}
fn powp(a: u64, mut e: u128) -> u64 {
    let mut base = a % P;
    let mut acc = 1u64;
    while e > 0 {
        if e & 1 == 1 {
            acc = mulp(acc, base);
        }
        base = mulp(base, base);
        e >>= 1;
    }
    acc
}
fn raw(v: u64) -> u64 {
    BFieldElement::new(v).raw_u64()
}

/// which carry/borrow flags of `montyred` fire for input x (for the evidence's coverage table)
fn montyred_flags(x: u128, st: &mut Stats) {
    let xl = x as u64;
    let xh = (x >> 64) as u64;
    let (a, e) = xl.overflowing_add(xl << 32);
    let b = a.wrapping_sub(a >> 32).wrapping_sub(e as u64);
    let (_, c) = xh.overflowing_sub(b);
    st.hit(&format!("montyred:e={} c={}", e as u8, c as u8));
}

pub fn gen(rng: &mut Rng, thorough: bool, out: &mut Vec<String>) {
    let n = if thorough { 40_000 } else { 1_500 };
    // full boundary cross for the binary raw-word operations
    let grid: Vec<u64> = vec![
        0, 1, 2, 0xffff_fffe, 0xffff_ffff, 0x1_0000_0000, 0x1_0000_0001, (1 << 63) - 1, 1 << 63, P - 0x1_0000_0000,
        P - 0xffff_ffff, P - 2, P - 1, P / 2, P / 2 + 1, 0xffff_fffe_0000_0001, 0xffff_ffff_0000_0000 - 1,
    ];
    for &a in &grid {
        for &b in &grid {
            for op in ["add", "sub", "mul"] {
                out.push(format!("bfe {} {} {}", op, a, b));
            }
        }
        out.push(format!("bfe value {}", a));
        out.push(format!("bfe neg {}", a));
        out.push(format!("bfe inv {}", a));
        out.push(format!("bfe inv0 {}", a));
        out.push(format!("bfe to_i64 {}", a));
        for ty in ["u8", "i8", "u16", "i16", "u32", "i32", "usize", "isize"] {
            out.push(format!("bfe try {} {}", ty, a));
        }
    }
    for v in [0u64, 1, P - 1, P, P + 1, u64::MAX, u64::MAX - 1, 0xffff_ffff, 1 << 32, 1 << 63] {
        out.push(format!("bfe new {}", v));
    }
    for v in [0i128, 1, -1, i64::MAX as i128, i64::MIN as i128, -(1 << 32), (1 << 32) - 1, -256, 255] {
        out.push(format!("bfe from_i64 {}", v));
    }
    for v in [0u128, 1, P as u128, (P as u128) << 64, u128::MAX, u128::MAX - 1, (P as u128) * (P as u128), 1 << 64,
        (1u128 << 64) - 1, (1u128 << 96) - 1, 1u128 << 96, 0xffff_ffff_0000_0000_0000_0000_0000_0000,
        0xffff_ffff_ffff_ffff_0000_0000_0000_0000, 0x0000_0000_ffff_ffff_0000_0000_0000_0000] {
        out.push(format!("bfe from_u128 {}", v));
    }
    for _ in 0..n {
        let a = raw(rng.fval());
        let b = raw(rng.fval());
        match rng.below(24) {
            0 => out.push(format!("bfe add {} {}", a, b)),
            1 => out.push(format!("bfe sub {} {}", a, b)),
            2 | 3 => out.push(format!("bfe mul {} {}", a, b)),
            4 => out.push(format!("bfe new {}", rng.word())),
            5 => out.push(format!("bfe value {}", a)),
            6 => {
                // montyred over the whole domain x < P * 2^64, biased to limb boundaries
                let hi = rng.fval();
                let lo = match rng.below(4) {
                    0 => *rng.pick(&[0u64, 1, 0xffff_ffff, 0x1_0000_0000, u64::MAX, u64::MAX - 0xffff_ffff, 0xffff_ffff_0000_0000]),
                    1 => (rng.below(4) << 32) | rng.below(1 << 32),
                    _ => rng.next(),
                };
                out.push(format!("bfe montyred {}", ((hi as u128) << 64) | lo as u128));
            }
            7 => out.push(format!("bfe neg {}", a)),
            8 => out.push(format!("bfe inv {}", a)),
            9 => out.push(format!("bfe div {} {}", a, b)),
            10 => {
                let e = match rng.below(4) {
                    0 => *rng.pick(&[0u64, 1, 2, 3, P - 2, P - 1, P, u64::MAX, 1 << 63, 1 << 32]),
                    1 => rng.below(64),
                    _ => rng.next(),
                };
                out.push(format!("bfe pow {} {}", a, e));
            }
            11 => {
                let x = match rng.below(3) {
                    0 => ((rng.word() as u128) << 64) | rng.word() as u128,
                    1 => (rng.below(1 << 33) as u128) << (32 * rng.below(4)),
                    _ => rng.u128(),
                };
                out.push(format!("bfe from_u128 {}", x));
            }
            12 => {
                let v: i64 = match rng.below(3) {
                    0 => *rng.pick(&[0i64, 1, -1, i64::MAX, i64::MIN, i64::MIN + 1, -(1 << 32), 1 << 32]),
                    1 => (rng.below(1 << 20) as i64) - (1 << 19),
                    _ => rng.next() as i64,
                };
                out.push(format!("bfe from_i64 {}", v));
            }
            13 => out.push(format!("bfe to_i64 {}", a)),
            14 => {
                let ty = *rng.pick(&["u8", "i8", "u16", "i16", "u32", "i32", "usize", "isize"]);
                let v = match rng.below(3) {
                    0 => *rng.pick(&[127u64, 128, 255, 256, 32767, 32768, 65535, 65536, (1 << 31) - 1, 1 << 31, (1 << 32) - 1, 1 << 32, (1 << 63) - 1, 1 << 63]),
                    _ => rng.fval(),
                };
                out.push(format!("bfe try {} {}", ty, raw(v)));
            }
            15 => {
                let len = rng.below(9);
                let with_zero = rng.coin(1, 8);
                let mut xs: Vec<u64> = (0..len).map(|_| raw(1 + rng.fval() % (P - 1))).collect();
                if with_zero && len > 0 {
                    let i = rng.below(len) as usize;
                    xs[i] = raw(0);
                }
                out.push(format!("bfe batchinv {}", fmt_list_u64(&xs)));
            }
            16 => {
                let len = rng.below(6);
                let xs: Vec<u64> = (0..len).map(|_| raw(rng.fval())).collect();
                out.push(format!("bfe sum {}", fmt_list_u64(&xs)));
            }
            17 => out.push(format!("bfe eq {} {}", a, if rng.coin(1, 2) { a } else { b })),
            18 => out.push(format!("bfe pacc {} {} {}", rng.below(5), a, b)),
            _ => {
                let x = rng.xfe();
                let y = rng.xfe();
                let fx = fmt_xfe_raw(&x);
                let fy = fmt_xfe_raw(&y);
                match rng.below(14) {
                    0 => out.push(format!("xfe add {} {}", fx, fy)),
                    1 => out.push(format!("xfe sub {} {}", fx, fy)),
                    2 | 3 | 4 => out.push(format!("xfe mul {} {}", fx, fy)),
                    5 => out.push(format!("xfe neg {}", fx)),
                    6 => out.push(format!("xfe inv {}", fx)),
                    7 => out.push(format!("xfe div {} {}", fx, fy)),
                    8 => {
                        let e = if rng.coin(1, 2) { rng.below(70) } else { rng.next() };
                        out.push(format!("xfe pow {} {}", fx, e))
                    }
                    9 => out.push(format!("xfe addb {} {}", fx, a)),
                    10 => out.push(format!("xfe bsub {} {}", a, fx)),
                    11 => out.push(format!("xfe mulb {} {}", fx, a)),
                    12 => out.push(format!("xfe unlift {}", fx)),
                    _ => {
                        let len = rng.below(9);
                        let cs: Vec<u64> = (0..len).map(|_| rng.fval()).collect();
                        out.push(format!("xfe frompoly {}", fmt_list_u64(&cs)));
                    }
                }
            }
        }
    }
}

pub fn run_bfe(op: &str, a: &[Arg], st: &mut Stats) -> Option<Out> {
    let okn = |r: BFieldElement| format!("ok:{}", r.raw_u64());
    Some(match (op, a) {
        ("new", [v]) => {
            let v = v.u64()?;
            let r = BFieldElement::new(v);
            st.hit(if v >= P { "new:noncanonical-input" } else { "new:canonical-input" });
            Out::ok(okn(r))
                .with_oracle(r.raw_u64() < P, "new: raw word not canonical")
                .with_oracle(r.value() == v % P, "new: value != v mod P")
        }
        ("value", [r]) => {
            let r = r.bfe_raw()?;
            Out::ok(format!("ok:{}", r.value())).with_oracle(r.value() < P, "value not canonical")
        }
        ("montyred", [x]) => {
            let x = x.u128()?;
            montyred_flags(x, st);
            let r = BFieldElement::montyred(x);
            // r * 2^64 = x (mod P) and r < P
            let lhs = mulp(r, ((1u128 << 64) % P as u128) as u64);
            Out::ok(format!("ok:{}", r))
                .with_oracle(r < P, "montyred: result >= P")
                .with_oracle(lhs == (x % P as u128) as u64, "montyred: r*2^64 != x mod P")
        }
        ("add", [x, y]) | ("sub", [x, y]) | ("mul", [x, y]) => {
            let (x, y) = (x.bfe_raw()?, y.bfe_raw()?);
            let (r, want) = match op {
                "add" => (x + y, addp(x.value(), y.value())),
                "sub" => (x - y, subp(x.value(), y.value())),
                _ => {
                    montyred_flags(x.raw_u64() as u128 * y.raw_u64() as u128, st);
                    (x * y, mulp(x.value(), y.value()))
                }
            };
            Out::ok(okn(r))
                .with_oracle(r.raw_u64() < P, format!("{op}: raw result not canonical"))
                .with_oracle(r.value() == want, format!("{op}: wrong value"))
        }
        ("neg", [x]) => {
            let x = x.bfe_raw()?;
            let r = -x;
            Out::ok(okn(r)).with_oracle(r.value() == subp(0, x.value()), "neg: wrong value")
        }
        ("inv", [x]) => {
            let x = x.bfe_raw()?;
            st.hit(if x.is_zero() { "inv:zero" } else { "inv:nonzero" });
            let r = x.inverse();
            Out::ok(okn(r))
                .with_oracle(mulp(r.value(), x.value()) == 1, "inverse * x != 1")
                .with_oracle(r.raw_u64() < P, "inverse not canonical")
        }
        ("inv0", [x]) => {
            let x = x.bfe_raw()?;
            let r = x.inverse_or_zero();
            let ok = if x.is_zero() { r.is_zero() } else { mulp(r.value(), x.value()) == 1 };
            Out::ok(okn(r)).with_oracle(ok, "inverse_or_zero wrong")
        }
        ("div", [x, y]) => {
            let (x, y) = (x.bfe_raw()?, y.bfe_raw()?);
            let r = x / y;
            Out::ok(okn(r)).with_oracle(mulp(r.value(), y.value()) == x.value(), "div: r*y != x")
        }
        ("pow", [x, e]) => {
            let (x, e) = (x.bfe_raw()?, e.u64()?);
            let r = x.mod_pow(e);
            let r2 = x.mod_pow_u64(e);
            let mut o = Out::ok(okn(r))
                .with_oracle(r.value() == powp(x.value(), e as u128), "mod_pow: wrong value")
                .with_oracle(r == r2, "mod_pow_u64 differs from mod_pow");
            if e <= u32::MAX as u64 {
                o = o.with_oracle(x.mod_pow_u32(e as u32) == r, "mod_pow_u32 differs");
            }
            o
        }
        ("from_u128", [x]) => {
            let x = x.u128()?;
            let r = BFieldElement::from(x);
            Out::ok(okn(r))
                .with_oracle(r.value() == (x % P as u128) as u64, "From<u128>: wrong value")
                .with_oracle(r.raw_u64() < P, "From<u128>: not canonical")
        }
        ("from_i64", [x]) => {
            let v = i64::try_from(x.i128()?).ok()?;
            let r = BFieldElement::from(v);
            let want = (v as i128).rem_euclid(P as i128) as u64;
            let mut o = Out::ok(okn(r)).with_oracle(r.value() == want, "From<i64>: wrong value");
            if let Ok(v32) = i32::try_from(v) {
                o = o.with_oracle(BFieldElement::from(v32) == r, "From<i32> differs");
            }
            o = o.with_oracle(BFieldElement::from(v as isize) == r, "From<isize> differs");
            o
        }
        ("to_i64", [x]) => {
            let x = x.bfe_raw()?;
            let r: i64 = x.into();
            let v = x.value();
            let want = if v <= i64::MAX as u64 { v as i128 } else { v as i128 - P as i128 };
            Out::ok(format!("ok:{}", r))
                .with_oracle(r as i128 == want, "to i64 wrong")
                .with_oracle(BFieldElement::from(r) == x, "i64 round trip")
        }
        ("try", [ty, x]) => {
            let x = x.bfe_raw()?;
            let v = x.value();
            macro_rules! t {
                ($t:ty) => {{
                    let r = <$t>::try_from(x);
                    let r2 = <$t>::try_from(&x);
                    let fits = (v as u128) <= <$t>::MAX as u128;
                    let o = match r {
                        Ok(n) => Out::ok(format!("ok:{}", n)).with_oracle(fits && n as u128 == v as u128, "TryFrom accepted a value that does not fit"),
                        Err(_) => Out::ok("err").with_oracle(!fits, "TryFrom rejected a value that fits"),
                    };
                    o.with_oracle(r.is_ok() == r2.is_ok(), "TryFrom<&BFieldElement> differs")
                }};
            }
            match ty.sym()? {
                "u8" => t!(u8),
                "i8" => t!(i8),
                "u16" => t!(u16),
                "i16" => t!(i16),
                "u32" => t!(u32),
                "i32" => t!(i32),
                "usize" => t!(usize),
                "isize" => t!(isize),
                _ => return None,
            }
        }
        ("batchinv", [xs]) => {
            let xs: Vec<BFieldElement> = xs.u64s()?.into_iter().map(BFieldElement::from_raw_u64).collect();
            st.hit(&format!("batchinv:len={} zero={}", xs.len().min(3), xs.iter().any(|x| x.is_zero())));
            let r = BFieldElement::batch_inversion(xs.clone());
            let ok = r.len() == xs.len() && r.iter().zip(&xs).all(|(a, b)| mulp(a.value(), b.value()) == 1);
            Out::ok(format!("ok:{}", fmt_bfes_raw(&r))).with_oracle(ok, "batch inversion wrong")
        }
        ("sum", [xs]) => {
            let xs: Vec<BFieldElement> = xs.u64s()?.into_iter().map(BFieldElement::from_raw_u64).collect();
            let r: BFieldElement = xs.iter().copied().sum();
            let want = xs.iter().fold(0u64, |acc, x| addp(acc, x.value()));
            Out::ok(okn(r)).with_oracle(r.value() == want, "sum wrong")
        }
        ("pacc", [m, b, t]) => {
            let (m, b, t) = (m.u64()?, b.bfe_raw()?, t.bfe_raw()?);
            let r = match m {
                0 => BFieldElement::power_accumulator::<1, 0>([b], [t])[0],
                1 => BFieldElement::power_accumulator::<1, 1>([b], [t])[0],
                2 => BFieldElement::power_accumulator::<1, 2>([b], [t])[0],
                3 => BFieldElement::power_accumulator::<1, 3>([b], [t])[0],
                4 => BFieldElement::power_accumulator::<1, 4>([b], [t])[0],
                _ => return None,
            };
            let want = mulp(powp(b.value(), 1u128 << m), t.value());
            Out::ok(okn(r)).with_oracle(r.value() == want, "power_accumulator wrong")
        }
        ("eq", [x, y]) => {
            use std::hash::{Hash, Hasher};
            let (x, y) = (x.bfe_raw()?, y.bfe_raw()?);
            let h = |e: &BFieldElement| {
                let mut s = std::collections::hash_map::DefaultHasher::new();
                e.hash(&mut s);
                s.finish()
            };
            let eq = x == y;
            Out::ok(format!("ok:{}", eq))
                .with_oracle(eq == (x.value() == y.value()), "Eq differs from value equality")
                .with_oracle(!eq || h(&x) == h(&y), "equal elements hash differently")
        }
        _ => return super::c01more::run_bfe_more(op, a, st), // C01 growth ops (c01more.rs)
    })
}

/// reference product in F_p[X]/(X^3 - X + 1) on canonical values
fn xmul_ref(a: [u64; 3], b: [u64; 3]) -> [u64; 3] {
    let mut t = [0u64; 5];
    for i in 0..3 {
        for j in 0..3 {
            t[i + j] = addp(t[i + j], mulp(a[i], b[j]));
        }
    }
    // X^4 = X^2 - X ; X^3 = X - 1
    let (t4, t3) = (t[4], t[3]);
    let c2 = addp(t[2], t4);
    let c1 = addp(subp(t[1], t4), t3);
    let c0 = subp(t[0], t3);
    [c0, c1, c2]
}
fn xv(x: &XFieldElement) -> [u64; 3] {
    x.coefficients.map(|c| c.value())
}

pub fn run_xfe(op: &str, a: &[Arg], st: &mut Stats) -> Option<Out> {
    let okx = |r: &XFieldElement| format!("ok:{}", fmt_xfe_raw(r));
    let one = [1u64, 0, 0];
    Some(match (op, a) {
        ("add", [x, y]) => {
            let (x, y) = (x.xfe_raw()?, y.xfe_raw()?);
            let r = x + y;
            let want = [0, 1, 2].map(|i| addp(xv(&x)[i], xv(&y)[i]));
            Out::ok(okx(&r)).with_oracle(xv(&r) == want, "xfe add wrong")
        }
        ("sub", [x, y]) => {
            let (x, y) = (x.xfe_raw()?, y.xfe_raw()?);
            let r = x - y;
            let want = [0, 1, 2].map(|i| subp(xv(&x)[i], xv(&y)[i]));
            Out::ok(okx(&r)).with_oracle(xv(&r) == want, "xfe sub wrong")
        }
        ("mul", [x, y]) => {
            let (x, y) = (x.xfe_raw()?, y.xfe_raw()?);
            let r = x * y;
            Out::ok(okx(&r)).with_oracle(xv(&r) == xmul_ref(xv(&x), xv(&y)), "xfe mul is not the product mod X^3-X+1")
        }
        ("neg", [x]) => {
            let x = x.xfe_raw()?;
            let r = -x;
            Out::ok(okx(&r)).with_oracle(xv(&r) == xv(&x).map(|c| subp(0, c)), "xfe neg wrong")
        }
        ("inv", [x]) | ("inv0", [x]) => {
            let x = x.xfe_raw()?;
            st.hit(if x.is_zero() { "xinv:zero" } else if x.unlift().is_some() { "xinv:base-field" } else { "xinv:proper" });
            let r = if op == "inv" { x.inverse() } else { x.inverse_or_zero() };
            let ok = if x.is_zero() { r.is_zero() } else { xmul_ref(xv(&r), xv(&x)) == one };
            Out::ok(okx(&r)).with_oracle(ok, "xfe inverse * x != 1")
        }
        ("div", [x, y]) => {
            let (x, y) = (x.xfe_raw()?, y.xfe_raw()?);
            let r = x / y;
            Out::ok(okx(&r)).with_oracle(xmul_ref(xv(&r), xv(&y)) == xv(&x), "xfe div: r*y != x")
        }
        ("pow", [x, e]) => {
            let (x, e) = (x.xfe_raw()?, e.u64()?);
            let r = x.mod_pow_u64(e);
            // reference: repeated product by square and multiply on the reference product
            let mut acc = one;
            let mut base = xv(&x);
            let mut ee = e;
            while ee > 0 {
                if ee & 1 == 1 {
                    acc = xmul_ref(acc, base);
                }
                base = xmul_ref(base, base);
                ee >>= 1;
            }
            let mut o = Out::ok(okx(&r)).with_oracle(xv(&r) == acc, "xfe mod_pow wrong");
            if e <= u32::MAX as u64 {
                o = o.with_oracle(x.mod_pow_u32(e as u32) == r, "xfe mod_pow_u32 differs");
            }
            o
        }
        ("addb", [x, b]) => {
            let (x, b) = (x.xfe_raw()?, b.bfe_raw()?);
            let r = x + b;
            Out::ok(okx(&r)).with_oracle(r == b + x && r == x + b.lift(), "mixed add differs from lifted add")
        }
        ("subb", [x, b]) => {
            let (x, b) = (x.xfe_raw()?, b.bfe_raw()?);
            let r = x - b;
            Out::ok(okx(&r)).with_oracle(r == x - b.lift(), "mixed sub differs from lifted sub")
        }
        ("bsub", [b, x]) => {
            let (x, b) = (x.xfe_raw()?, b.bfe_raw()?);
            let r = b - x;
            Out::ok(okx(&r)).with_oracle(r == b.lift() - x, "mixed sub differs from lifted sub")
        }
        ("mulb", [x, b]) => {
            let (x, b) = (x.xfe_raw()?, b.bfe_raw()?);
            let r = x * b;
            Out::ok(okx(&r)).with_oracle(r == b * x && r == x * b.lift(), "mixed mul differs from lifted mul")
        }
        ("lift", [b]) => {
            let b = b.bfe_raw()?;
            let r = b.lift();
            Out::ok(okx(&r)).with_oracle(r.unlift() == Some(b), "unlift(lift) != id")
        }
        ("unlift", [x]) => {
            let x = x.xfe_raw()?;
            match x.unlift() {
                Some(b) => Out::ok(format!("ok:some:{}", b.raw_u64())),
                None => Out::ok("ok:none"),
            }
        }
        ("frompoly", [cs]) => {
            let cs = cs.bfes()?;
            let p = Polynomial::new(cs.clone());
            let r = XFieldElement::from(p);
            // reference: Horner with X = (0,1,0)
            let mut acc = [0u64; 3];
            for c in cs.iter().rev() {
                acc = xmul_ref(acc, [0, 1, 0]);
                acc[0] = addp(acc[0], c.value());
            }
            Out::ok(okx(&r)).with_oracle(xv(&r) == acc, "From<Polynomial> is not reduction mod X^3-X+1")
        }
        _ => return super::c01more::run_xfe_more(op, a, st), // C01 growth ops (c01more.rs)
    })
}
