// PROP: C03  FAMILIES: codec=run_codec
//! C03 -- BFieldCodec: round trip, unique encoding, static length, layout.  Family `codec`.
//!
//!   codec enc  <ty> <val>     -> ok:[elements]            oracles: decode(encode v) == v, static length, Tip5::hash
//!   codec dec  <ty> [seq]     -> ok:<val> | err | panic   oracles: accepted => re-encodes to itself, never panics
//!   codec slen <ty>           -> ok:none | ok:some:N
//!
//! Type descriptors (both sides parse them with the generic argument parser):
//!   bfe u8 u16 u32 u64 u128 bool phantom (box;T) (opt;T) (vec;T) (arr;N;T) (tup;T;..;T) (poly;T) (u32s;N)
//!   (struct;T;..;T)  (enum;[T,..];[T,..];..)
//! Values:  n | () | none | (some;v) | [v,..] | (var;k;[v,..])
//!
//! Every Rust type gets its descriptor from its own type through `ValConv::ty()` (implemented once per constructor);
//! the registry below instantiates the concrete nested types and is keyed by the descriptor string.
use crate::util::*;
use std::collections::BTreeMap;
use std::marker::PhantomData;
use std::panic::{catch_unwind, AssertUnwindSafe};
use std::sync::OnceLock;
use twenty_first::prelude::*;
use twenty_first::util_types::mmr::mmr_accumulator::MmrAccumulator;
use twenty_first::util_types::mmr::mmr_successor_proof::MmrSuccessorProof;

// ---------------------------------------------------------------------------------------------------------------
// descriptors and values
// ---------------------------------------------------------------------------------------------------------------
#[derive(Clone, Debug, PartialEq, Eq)]
pub enum TyDesc {
    Bfe,
    U8,
    U16,
    U32,
    U64,
    U128,
    Bool,
    Phantom,
    Box(Box<TyDesc>),
    Opt(Box<TyDesc>),
    Vec(Box<TyDesc>),
    Arr(usize, Box<TyDesc>),
    Tup(Vec<TyDesc>),
    Poly(Box<TyDesc>),
    U32s(usize),
    Struct(Vec<TyDesc>),
    Enum(Vec<Vec<TyDesc>>),
}

#[derive(Clone, Debug, PartialEq, Eq)]
pub enum Val {
    Num(u128),
    Unit,
    Opt(Option<Box<Val>>),
    List(Vec<Val>),
    Variant(usize, Vec<Val>),
}

impl TyDesc {
    pub fn fmt(&self) -> String {
        use TyDesc::*;
        let join = |ts: &[TyDesc], sep: &str| ts.iter().map(|t| t.fmt()).collect::<std::vec::Vec<_>>().join(sep);
        match self {
            Bfe => "bfe".into(),
            U8 => "u8".into(),
            U16 => "u16".into(),
            U32 => "u32".into(),
            U64 => "u64".into(),
            U128 => "u128".into(),
            Bool => "bool".into(),
            Phantom => "phantom".into(),
            Box(t) => format!("(box;{})", t.fmt()),
            Opt(t) => format!("(opt;{})", t.fmt()),
            Vec(t) => format!("(vec;{})", t.fmt()),
            Arr(n, t) => format!("(arr;{};{})", n, t.fmt()),
            Tup(ts) => format!("(tup;{})", join(ts, ";")),
            Poly(t) => format!("(poly;{})", t.fmt()),
            U32s(n) => format!("(u32s;{})", n),
            Struct(fs) => {
                if fs.is_empty() {
                    "(struct)".into()
                } else {
                    format!("(struct;{})", join(fs, ";"))
                }
            }
            Enum(vs) => {
                let v: std::vec::Vec<String> = vs.iter().map(|fs| format!("[{}]", join(fs, ","))).collect();
                format!("(enum;{})", v.join(";"))
            }
        }
    }
    pub fn parse(a: &Arg) -> Option<TyDesc> {
        use TyDesc::*;
        let bx = |a: &Arg| TyDesc::parse(a).map(std::boxed::Box::new);
        match a {
            Arg::Sym(s) => Some(match s.as_str() {
                "bfe" => Bfe,
                "u8" => U8,
                "u16" => U16,
                "u32" => U32,
                "u64" => U64,
                "u128" => U128,
                "bool" => Bool,
                "phantom" => Phantom,
                _ => return None,
            }),
            Arg::Tup(items) => {
                let head = items.first()?.sym()?;
                let rest = &items[1..];
                match (head, rest.len()) {
                    ("box", 1) => Some(Box(bx(&rest[0])?)),
                    ("opt", 1) => Some(Opt(bx(&rest[0])?)),
                    ("vec", 1) => Some(Vec(bx(&rest[0])?)),
                    ("poly", 1) => Some(Poly(bx(&rest[0])?)),
                    ("arr", 2) => Some(Arr(rest[0].usize()?, bx(&rest[1])?)),
                    ("u32s", 1) => Some(U32s(rest[0].usize()?)),
                    ("tup", _) => Some(Tup(rest.iter().map(TyDesc::parse).collect::<Option<_>>()?)),
                    ("struct", _) => Some(Struct(rest.iter().map(TyDesc::parse).collect::<Option<_>>()?)),
                    ("enum", _) => {
                        let mut vs = vec![];
                        for r in rest {
                            vs.push(r.list()?.iter().map(TyDesc::parse).collect::<Option<std::vec::Vec<_>>>()?);
                        }
                        Some(Enum(vs))
                    }
                    _ => None,
                }
            }
            _ => None,
        }
    }
    /// static length as the *descriptor* says (used by the generators only, never as an oracle)
    pub fn static_len(&self) -> Option<u128> {
        use TyDesc::*;
        let sum = |ts: &[TyDesc]| ts.iter().map(|t| t.static_len()).sum::<Option<u128>>();
        match self {
            Bfe | U8 | U16 | U32 | Bool => Some(1),
            U64 => Some(2),
            U128 => Some(4),
            Phantom => Some(0),
            Box(t) => t.static_len(),
            Opt(_) | Vec(_) | Poly(_) => None,
            Arr(n, t) => t.static_len().map(|w| w * *n as u128),
            Tup(ts) | Struct(ts) => sum(ts),
            U32s(n) => Some(*n as u128),
            Enum(vs) => {
                let ws: std::vec::Vec<Option<u128>> = vs.iter().map(|fs| sum(fs)).collect();
                let first = (*ws.first()?)?;
                if ws.iter().all(|w| *w == Some(first)) {
                    Some(first + 1)
                } else {
                    None
                }
            }
        }
    }
    /// does the type contain a Vec / array / polynomial whose item type has static width 0 (finding F10)?
    pub fn has_zero_width_items(&self) -> bool {
        use TyDesc::*;
        match self {
            Box(t) | Opt(t) => t.has_zero_width_items(),
            Vec(t) | Arr(_, t) | Poly(t) => t.static_len() == Some(0) || t.has_zero_width_items(),
            Tup(ts) | Struct(ts) => ts.iter().any(|t| t.has_zero_width_items()),
            Enum(vs) => vs.iter().flatten().any(|t| t.has_zero_width_items()),
            _ => false,
        }
    }
}

impl Val {
    pub fn fmt(&self) -> String {
        match self {
            Val::Num(n) => n.to_string(),
            Val::Unit => "()".into(),
            Val::Opt(None) => "none".into(),
            Val::Opt(Some(v)) => format!("(some;{})", v.fmt()),
            Val::List(vs) => format!("[{}]", vs.iter().map(|v| v.fmt()).collect::<Vec<_>>().join(",")),
            Val::Variant(k, vs) => {
                format!("(var;{};[{}])", k, vs.iter().map(|v| v.fmt()).collect::<Vec<_>>().join(","))
            }
        }
    }
    pub fn parse(a: &Arg) -> Option<Val> {
        match a {
            Arg::Nat(n) => Some(Val::Num(*n)),
            Arg::Sym(s) if s == "none" => Some(Val::Opt(None)),
            Arg::Tup(items) if items.is_empty() => Some(Val::Unit),
            Arg::Tup(items) => match (items[0].sym()?, items.len()) {
                ("some", 2) => Some(Val::Opt(Some(Box::new(Val::parse(&items[1])?)))),
                ("var", 3) => Some(Val::Variant(
                    items[1].usize()?,
                    items[2].list()?.iter().map(Val::parse).collect::<Option<_>>()?,
                )),
                _ => None,
            },
            Arg::List(items) => Some(Val::List(items.iter().map(Val::parse).collect::<Option<_>>()?)),
            _ => None,
        }
    }
    fn num(&self) -> Option<u128> {
        match self {
            Val::Num(n) => Some(*n),
            _ => None,
        }
    }
    fn list(&self) -> Option<&[Val]> {
        match self {
            Val::List(v) => Some(v),
            _ => None,
        }
    }
}

// ---------------------------------------------------------------------------------------------------------------
// ValConv: once per constructor
// ---------------------------------------------------------------------------------------------------------------
pub trait ValConv: Sized {
    fn ty() -> TyDesc;
    fn to_val(&self) -> Val;
    fn from_val(v: &Val) -> Option<Self>;
}

impl ValConv for BFieldElement {
    fn ty() -> TyDesc {
        TyDesc::Bfe
    }
    fn to_val(&self) -> Val {
        Val::Num(self.value() as u128)
    }
    fn from_val(v: &Val) -> Option<Self> {
        let n = v.num()?;
        if n < P as u128 {
            Some(BFieldElement::new(n as u64))
        } else {
            None
        }
    }
}
macro_rules! valconv_uint {
    ($($t:ty => $d:ident),+) => {$(
        impl ValConv for $t {
            fn ty() -> TyDesc { TyDesc::$d }
            fn to_val(&self) -> Val { Val::Num(*self as u128) }
            fn from_val(v: &Val) -> Option<Self> { <$t>::try_from(v.num()?).ok() }
        }
    )+};
}
valconv_uint!(u8 => U8, u16 => U16, u32 => U32, u64 => U64, u128 => U128);
impl ValConv for bool {
    fn ty() -> TyDesc {
        TyDesc::Bool
    }
    fn to_val(&self) -> Val {
        Val::Num(*self as u128)
    }
    fn from_val(v: &Val) -> Option<Self> {
        match v.num()? {
            0 => Some(false),
            1 => Some(true),
            _ => None,
        }
    }
}
impl<T> ValConv for PhantomData<T> {
    fn ty() -> TyDesc {
        TyDesc::Phantom
    }
    fn to_val(&self) -> Val {
        Val::Unit
    }
    fn from_val(v: &Val) -> Option<Self> {
        match v {
            Val::Unit => Some(PhantomData),
            _ => None,
        }
    }
}
impl<T: ValConv> ValConv for Box<T> {
    fn ty() -> TyDesc {
        TyDesc::Box(Box::new(T::ty()))
    }
    fn to_val(&self) -> Val {
        self.as_ref().to_val()
    }
    fn from_val(v: &Val) -> Option<Self> {
        T::from_val(v).map(Box::new)
    }
}
impl<T: ValConv> ValConv for Option<T> {
    fn ty() -> TyDesc {
        TyDesc::Opt(Box::new(T::ty()))
    }
    fn to_val(&self) -> Val {
        Val::Opt(self.as_ref().map(|x| Box::new(x.to_val())))
    }
    fn from_val(v: &Val) -> Option<Self> {
        match v {
            Val::Opt(None) => Some(None),
            Val::Opt(Some(x)) => Some(Some(T::from_val(x)?)),
            _ => None,
        }
    }
}
impl<T: ValConv> ValConv for Vec<T> {
    fn ty() -> TyDesc {
        TyDesc::Vec(Box::new(T::ty()))
    }
    fn to_val(&self) -> Val {
        Val::List(self.iter().map(|x| x.to_val()).collect())
    }
    fn from_val(v: &Val) -> Option<Self> {
        v.list()?.iter().map(T::from_val).collect()
    }
}
impl<T: ValConv, const N: usize> ValConv for [T; N] {
    fn ty() -> TyDesc {
        TyDesc::Arr(N, Box::new(T::ty()))
    }
    fn to_val(&self) -> Val {
        Val::List(self.iter().map(|x| x.to_val()).collect())
    }
    fn from_val(v: &Val) -> Option<Self> {
        let items: Vec<T> = v.list()?.iter().map(T::from_val).collect::<Option<_>>()?;
        items.try_into().ok()
    }
}
macro_rules! valconv_tuple {
    ($($T:ident $i:tt),+) => {
        impl<$($T: ValConv),+> ValConv for ($($T,)+) {
            fn ty() -> TyDesc { TyDesc::Tup(vec![$($T::ty()),+]) }
            fn to_val(&self) -> Val { Val::List(vec![$(self.$i.to_val()),+]) }
            fn from_val(v: &Val) -> Option<Self> {
                let l = v.list()?;
                let arity = [$($i),+].len();
                if l.len() != arity { return None; }
                Some(($($T::from_val(&l[$i])?,)+))
            }
        }
    };
}
valconv_tuple!(A 0, B 1);
valconv_tuple!(A 0, B 1, C 2);
valconv_tuple!(A 0, B 1, C 2, D 3);
valconv_tuple!(A 0, B 1, C 2, D 3, E 4);
valconv_tuple!(A 0, B 1, C 2, D 3, E 4, F 5);
valconv_tuple!(A 0, B 1, C 2, D 3, E 4, F 5, G 6);
valconv_tuple!(A 0, B 1, C 2, D 3, E 4, F 5, G 6, H 7);
valconv_tuple!(A 0, B 1, C 2, D 3, E 4, F 5, G 6, H 7, I 8);
valconv_tuple!(A 0, B 1, C 2, D 3, E 4, F 5, G 6, H 7, I 8, J 9);
valconv_tuple!(A 0, B 1, C 2, D 3, E 4, F 5, G 6, H 7, I 8, J 9, K 10);
valconv_tuple!(A 0, B 1, C 2, D 3, E 4, F 5, G 6, H 7, I 8, J 9, K 10, L 11);

impl ValConv for XFieldElement {
    fn ty() -> TyDesc {
        TyDesc::Struct(vec![<[BFieldElement; 3]>::ty()])
    }
    fn to_val(&self) -> Val {
        Val::List(vec![self.coefficients.to_val()])
    }
    fn from_val(v: &Val) -> Option<Self> {
        match v.list()? {
            [c] => Some(XFieldElement::new(<[BFieldElement; 3]>::from_val(c)?)),
            _ => None,
        }
    }
}
impl ValConv for Digest {
    fn ty() -> TyDesc {
        TyDesc::Struct(vec![<[BFieldElement; 5]>::ty()])
    }
    fn to_val(&self) -> Val {
        Val::List(vec![self.0.to_val()])
    }
    fn from_val(v: &Val) -> Option<Self> {
        match v.list()? {
            [c] => Some(Digest::new(<[BFieldElement; 5]>::from_val(c)?)),
            _ => None,
        }
    }
}
impl ValConv for Tip5 {
    fn ty() -> TyDesc {
        TyDesc::Struct(vec![<[BFieldElement; 16]>::ty()])
    }
    fn to_val(&self) -> Val {
        Val::List(vec![self.state.to_val()])
    }
    fn from_val(v: &Val) -> Option<Self> {
        match v.list()? {
            [c] => Some(Tip5 { state: <[BFieldElement; 16]>::from_val(c)? }),
            _ => None,
        }
    }
}
impl ValConv for MmrAccumulator {
    // struct MmrAccumulator { leaf_count: u64, peaks: Vec<Digest> }
    fn ty() -> TyDesc {
        TyDesc::Struct(vec![u64::ty(), <Vec<Digest>>::ty()])
    }
    fn to_val(&self) -> Val {
        Val::List(vec![self.num_leafs().to_val(), self.peaks().to_val()])
    }
    fn from_val(v: &Val) -> Option<Self> {
        match v.list()? {
            [n, p] => Some(MmrAccumulator::init(<Vec<Digest>>::from_val(p)?, u64::from_val(n)?)),
            _ => None,
        }
    }
}
impl ValConv for MmrMembershipProof {
    fn ty() -> TyDesc {
        TyDesc::Struct(vec![<Vec<Digest>>::ty()])
    }
    fn to_val(&self) -> Val {
        Val::List(vec![self.authentication_path.to_val()])
    }
    fn from_val(v: &Val) -> Option<Self> {
        match v.list()? {
            [p] => Some(MmrMembershipProof::new(<Vec<Digest>>::from_val(p)?)),
            _ => None,
        }
    }
}
impl ValConv for MmrSuccessorProof {
    fn ty() -> TyDesc {
        TyDesc::Struct(vec![<Vec<Digest>>::ty()])
    }
    fn to_val(&self) -> Val {
        Val::List(vec![self.paths.to_val()])
    }
    fn from_val(v: &Val) -> Option<Self> {
        match v.list()? {
            [p] => Some(MmrSuccessorProof { paths: <Vec<Digest>>::from_val(p)? }),
            _ => None,
        }
    }
}
impl<const N: usize> ValConv for U32s<N> {
    fn ty() -> TyDesc {
        TyDesc::U32s(N)
    }
    fn to_val(&self) -> Val {
        let a: &[u32; N] = self.as_ref();
        a.to_val()
    }
    fn from_val(v: &Val) -> Option<Self> {
        Some(U32s::new(<[u32; N]>::from_val(v)?))
    }
}
macro_rules! valconv_poly {
    ($($t:ty),+) => {$(
        impl ValConv for Polynomial<'static, $t> {
            fn ty() -> TyDesc { TyDesc::Poly(Box::new(<$t>::ty())) }
            /// the value of a polynomial is its list of coefficients without leading zeros
            fn to_val(&self) -> Val { Val::List(self.coefficients().iter().map(|c| c.to_val()).collect()) }
            /// stored leading zeros are kept, so that `encode` is exercised on unnormalised storage; and the storage is
            /// produced in three different ways (chosen by the number of coefficients), because stored zeros that come
            /// out of an OPERATION (cancelling leading terms in `+=`) or borrowed storage may be treated differently
            /// from zeros handed to `Polynomial::new`
            fn from_val(v: &Val) -> Option<Self> {
                let cs = <Vec<$t>>::from_val(v)?;
                Some(match cs.len() % 3 {
                    1 => {
                        // a = cs ++ [1], b = 0…0 ++ [-1]; a += b leaves the coefficients cs under a cancelled top term
                        let one = <$t as num_traits::One>::one();
                        let mut a = cs.clone();
                        a.push(one);
                        let mut b = vec![<$t as num_traits::Zero>::zero(); cs.len()];
                        b.push(-one);
                        let mut p = Polynomial::new(a);
                        p += Polynomial::new(b);
                        p
                    }
                    2 => Polynomial::new_borrowed(Box::leak(cs.into_boxed_slice())),
                    _ => Polynomial::new(cs),
                })
            }
        }
    )+};
}
valconv_poly!(BFieldElement, XFieldElement);

// ---------------------------------------------------------------------------------------------------------------
// running the three trait functions of a concrete type on descriptor-level data
// ---------------------------------------------------------------------------------------------------------------
pub enum DecOut {
    Ok(Val, Vec<BFieldElement>), // decoded value, its re-encoding
    Err,
    Panic,
}
pub struct EncOut {
    pub enc: Vec<BFieldElement>,
    pub back: DecOut,      // decode(encode(v))
    pub canon: Val,        // to_val of the value that was encoded
    pub hash_ok: bool,     // Tip5::hash(v) == Tip5::hash_varlen(encode(v))
}

pub struct TypeEntry {
    pub desc: TyDesc,
    pub rust_name: &'static str,
    pub enc: fn(&Val) -> Option<Option<EncOut>>, // None: value does not fit the type; Some(None): encode panicked
    pub dec: fn(&[BFieldElement]) -> DecOut,
    pub slen: fn() -> Option<usize>,
}

/// optional memory probe (installed by the C13 module, which owns the counting global allocator):
/// `start()` marks the baseline, `peak()` returns the peak number of bytes allocated above it since then
pub struct MemProbe {
    pub start: fn(),
    pub peak: fn() -> usize,
}
pub static MEM_PROBE: OnceLock<MemProbe> = OnceLock::new();
/// peak bytes of the most recent `T::decode` calls (max over the calls since it was last reset)
pub static LAST_DECODE_PEAK: std::sync::atomic::AtomicUsize = std::sync::atomic::AtomicUsize::new(0);

pub fn dec_impl<T: ValConv + BFieldCodec>(seq: &[BFieldElement]) -> DecOut {
    // only the call of `T::decode` itself is measured; conversion and re-encoding happen afterwards
    if let Some(p) = MEM_PROBE.get() {
        (p.start)();
    }
    let r = catch_unwind(AssertUnwindSafe(|| T::decode(seq)));
    if let Some(p) = MEM_PROBE.get() {
        LAST_DECODE_PEAK.fetch_max((p.peak)(), std::sync::atomic::Ordering::Relaxed);
    }
    match r {
        Ok(Ok(b)) => {
            let conv = catch_unwind(AssertUnwindSafe(|| (b.to_val(), b.encode())));
            match conv {
                Ok((v, re)) => DecOut::Ok(v, re),
                Err(_) => DecOut::Panic,
            }
        }
        Ok(Err(_)) => DecOut::Err,
        Err(_) => DecOut::Panic,
    }
}
pub fn enc_impl<T: ValConv + BFieldCodec>(v: &Val) -> Option<Option<EncOut>> {
    let t = T::from_val(v)?;
    let r = catch_unwind(AssertUnwindSafe(|| {
        let enc = t.encode();
        let hash_ok = Tip5::hash(&t) == Tip5::hash_varlen(&enc);
        (enc, hash_ok, t.to_val())
    }));
    let Ok((enc, hash_ok, canon)) = r else { return Some(None) };
    let back = dec_impl::<T>(&enc);
    Some(Some(EncOut { enc, back, canon, hash_ok }))
}
pub fn entry<T: ValConv + BFieldCodec>() -> TypeEntry {
    TypeEntry {
        desc: T::ty(),
        rust_name: std::any::type_name::<T>(),
        enc: enc_impl::<T>,
        dec: dec_impl::<T>,
        slen: <T as BFieldCodec>::static_length,
    }
}

macro_rules! registry {
    ($($t:ty),+ $(,)?) => { vec![$(entry::<$t>()),+] };
}

type B = BFieldElement;
type X = XFieldElement;
type Ph = PhantomData<u64>;
type PolyB = Polynomial<'static, BFieldElement>;
type PolyX = Polynomial<'static, XFieldElement>;

fn build_registry() -> Vec<TypeEntry> {
    registry![
        // --- leaves and library types
        B, u8, u16, u32, u64, u128, bool, Ph, X, Digest, Tip5, MmrAccumulator, MmrMembershipProof, MmrSuccessorProof,
        U32s<0>, U32s<1>, U32s<2>, U32s<4>, U32s<5>, PolyB, PolyX,
        // --- Box
        Box<u64>, Box<Vec<u32>>, Box<Option<Digest>>, Box<Box<bool>>, Box<(u8, Vec<u8>)>,
        // --- Option
        Option<u32>, Option<B>, Option<Option<bool>>, Option<Vec<u64>>, Option<Ph>, Option<(u32, Vec<u8>)>,
        Option<PolyB>, Option<Box<u128>>, Option<[u16; 2]>, Option<Option<Option<u8>>>,
        // --- Vec
        Vec<B>, Vec<u8>, Vec<u32>, Vec<u64>, Vec<u128>, Vec<bool>, Vec<Digest>, Vec<X>, Vec<Vec<u32>>, Vec<Option<u32>>,
        Vec<(u32, u64)>, Vec<(u32, Vec<u32>)>, Vec<[u32; 3]>, Vec<[Vec<u8>; 2]>, Vec<PolyB>, Vec<PolyX>,
        Vec<Vec<Vec<B>>>, Vec<Box<u32>>, Vec<U32s<2>>, Vec<MmrAccumulator>, Vec<Option<Vec<u64>>>,
        Vec<(Ph, u8)>, Vec<Vec<(u8, Option<u8>)>>, Vec<[u64; 1]>, Vec<MmrMembershipProof>,
        // --- arrays
        [u32; 0], [u32; 1], [u64; 3], [B; 5], [Vec<u32>; 0], [Vec<u32>; 2], [Option<u8>; 3], [[u8; 2]; 2],
        [(u8, bool); 2], [Digest; 2], [PolyB; 2], [u128; 2], [[Vec<u16>; 2]; 2], [X; 1], [bool; 7],
        // --- static lengths around the sponge rate (10), the digest length (5) and the state size (16): `Tip5::hash` must
        //     be variable-length hashing of the encoding for every one of them (a fixed-length shortcut would collide domains)
        [B; 4], [B; 6], [B; 9], [B; 10], [B; 11], [B; 15], [B; 16], [B; 17], [B; 20], [u64; 5], [u32; 10], [bool; 10],
        (Digest, Digest), (X, X, X, B), ([B; 5], Digest), (Digest, [u64; 2], B), [Digest; 3], [X; 3], (u128, u128, u64), [[B; 5]; 2],
        // --- tuples
        (u32, u64), (Vec<u32>, u8), (u8, Vec<u32>), (Vec<u8>, Vec<u16>), (Ph, u32), (u32, Ph), (Ph, Ph),
        (Option<u32>, bool, Vec<bool>), (u8, u16, u32, u64), (u8, Vec<u8>, u16, Vec<u16>, u32),
        (B, X, Digest, u128, bool, Option<B>), (u8, u8, u8, u8, u8, u8, Vec<u8>),
        (u64, Option<u64>, Vec<u64>, [u64; 2], Box<u64>, (u64, u64), Ph, u64),
        (Vec<Vec<u8>>, u8, u8, u8, u8, u8, u8, u8, Option<Vec<u8>>),
        (bool, bool, bool, bool, bool, bool, bool, bool, bool, Vec<bool>),
        (u8, u16, u32, u64, u128, B, X, Digest, bool, Ph, [u8; 2]),
        (u8, Vec<u16>, u32, Option<u64>, u128, PolyB, X, Vec<Digest>, bool, Ph, [Vec<u8>; 2], (u8, Vec<u8>)),
        (u128, u128, u128, u128, u128, u128, u128, u128, u128, u128, u128, u128),
        ((u8, u16), (Vec<u8>, u32)), (Digest, X, Vec<Digest>), (PolyB, PolyX), (MmrAccumulator, MmrMembershipProof),
        (U32s<2>, u128), ([u8; 0], u8), (Option<Ph>, Vec<(u8, Ph)>), (Vec<Option<Vec<u8>>>, Option<Vec<Option<u8>>>),
        (MmrSuccessorProof, Tip5), ((u8, (u16, (u32, Vec<u64>))), bool),
        // --- list item types of static width 0 (finding F10) and neighbours that are fine
        Vec<Ph>, Vec<[u32; 0]>, Vec<U32s<0>>, Vec<(Ph, Ph)>, Vec<Box<Ph>>, [Ph; 3], [[u32; 0]; 2], [Ph; 0], [U32s<0>; 2],
        Option<Vec<Ph>>, (u32, Vec<Ph>), Vec<[Ph; 2]>, Vec<Vec<Ph>>, (Vec<[u8; 0]>, Vec<u8>), [[Ph; 2]; 0],
        Vec<Option<Ph>>, Vec<(Ph, u8, Ph)>, [Vec<Ph>; 0],
    ]
}

pub struct Registry {
    pub entries: Vec<TypeEntry>,
    pub by_desc: BTreeMap<String, usize>,
}
pub fn registry() -> &'static Registry {
    static R: OnceLock<Registry> = OnceLock::new();
    R.get_or_init(|| {
        let entries = build_registry();
        let mut by_desc = BTreeMap::new();
        for (i, e) in entries.iter().enumerate() {
            // two Rust types with the same descriptor (e.g. MmrMembershipProof / MmrSuccessorProof) keep separate keys
            let mut key = e.desc.fmt();
            while by_desc.contains_key(&key) {
                key.push('\'');
            }
            by_desc.insert(key, i);
        }
        Registry { entries, by_desc }
    })
}
/// all registry entries whose descriptor is `d` (more than one Rust type may share a descriptor)
pub fn lookup(d: &TyDesc) -> Vec<&'static TypeEntry> {
    let r = registry();
    let mut key = d.fmt();
    let mut out = vec![];
    while let Some(&i) = r.by_desc.get(&key) {
        out.push(&r.entries[i]);
        key.push('\'');
    }
    out
}

// ---------------------------------------------------------------------------------------------------------------
// generators
// ---------------------------------------------------------------------------------------------------------------
fn gen_uint(rng: &mut Rng, bits: u32) -> u128 {
    let max: u128 = if bits == 128 { u128::MAX } else { (1u128 << bits) - 1 };
    let r = match rng.below(8) {
        0 => 0,
        1 => 1,
        2 => max,
        3 => max - 1,
        4 => {
            // limb boundaries
            let k = rng.below((bits as u64 + 31) / 32) as u32;
            let b = 1u128 << (32 * k);
            *rng.pick(&[b.wrapping_sub(1), b, b + 1, (b << 31), (b << 31) | (b.wrapping_sub(1))])
        }
        5 => {
            let mut v = 0u128;
            for i in 0..(bits + 31) / 32 {
                v |= (*rng.pick(&[0u128, 1, 0xffff_ffff, 0xffff_fffe, 0x8000_0000])) << (32 * i);
            }
            v
        }
        6 => rng.below(300) as u128,
        _ => rng.u128(),
    };
    r & max
}

/// a value of the type, boundary directed; `budget` bounds the total number of list items
pub fn gen_val(t: &TyDesc, rng: &mut Rng, budget: &mut i64) -> Val {
    use TyDesc::*;
    let mut len = |rng: &mut Rng, budget: &mut i64| -> usize {
        let n = match rng.below(10) {
            0 | 1 => 0,
            2 | 3 => 1,
            4 | 5 => 2,
            6 | 7 => 3,
            8 => rng.range(4, 6),
            _ => rng.range(7, 20),
        } as i64;
        let n = n.min((*budget).max(0));
        *budget -= n;
        n as usize
    };
    match t {
        Bfe => Val::Num(rng.fval() as u128),
        U8 => Val::Num(gen_uint(rng, 8)),
        U16 => Val::Num(gen_uint(rng, 16)),
        U32 => Val::Num(gen_uint(rng, 32)),
        U64 => Val::Num(gen_uint(rng, 64)),
        U128 => Val::Num(gen_uint(rng, 128)),
        Bool => Val::Num(rng.below(2) as u128),
        Phantom => Val::Unit,
        Box(t) => gen_val(t, rng, budget),
        Opt(t) => {
            if rng.coin(1, 3) {
                Val::Opt(None)
            } else {
                Val::Opt(Some(std::boxed::Box::new(gen_val(t, rng, budget))))
            }
        }
        Vec(t) => {
            let n = len(rng, budget);
            Val::List((0..n).map(|_| gen_val(t, rng, budget)).collect())
        }
        Arr(n, t) => Val::List((0..*n).map(|_| gen_val(t, rng, budget)).collect()),
        Tup(ts) | Struct(ts) => Val::List(ts.iter().map(|t| gen_val(t, rng, budget)).collect()),
        Poly(t) => {
            let n = len(rng, budget);
            let mut cs: std::vec::Vec<Val> = (0..n).map(|_| gen_val(t, rng, budget)).collect();
            // stored leading zeros (trailing in the list): encode must normalise
            if rng.coin(1, 3) {
                let zero = zero_of(t);
                for _ in 0..rng.range(1, 3) {
                    cs.push(zero.clone());
                }
            }
            Val::List(cs)
        }
        U32s(n) => Val::List((0..*n).map(|_| Val::Num(gen_uint(rng, 32))).collect()),
        Enum(vs) => {
            let k = rng.below(vs.len() as u64) as usize;
            Val::Variant(k, vs[k].iter().map(|t| gen_val(t, rng, budget)).collect())
        }
    }
}
fn zero_of(t: &TyDesc) -> Val {
    use TyDesc::*;
    match t {
        Arr(n, t) => Val::List(vec![zero_of(t); *n]),
        Struct(ts) | Tup(ts) => Val::List(ts.iter().map(zero_of).collect()),
        _ => Val::Num(0),
    }
}

pub const SUBST: [u64; 12] =
    [0, 1, 2, 3, 0xffff_ffff, 0x1_0000_0000, 0x1_0000_0001, 1 << 63, P - 1, P - 2, 255, 256];

/// near-valid sequences: one element or length field replaced, truncated, extended, or a consistent-looking
/// adjustment of a small (length-like) element together with the sequence length
pub fn mutate(seq: &[u64], rng: &mut Rng) -> (Vec<u64>, &'static str) {
    let mut s = seq.to_vec();
    // positions holding small values are mostly length fields / tags / discriminants
    let small: Vec<usize> = (0..s.len()).filter(|&i| s[i] < 0x1_0000).collect();
    let pos = |rng: &mut Rng, s: &Vec<u64>| -> usize {
        if !small.is_empty() && rng.coin(2, 3) {
            *rng.pick(&small)
        } else {
            rng.below(s.len() as u64) as usize
        }
    };
    let kind = if s.is_empty() { 6 + rng.below(2) } else { rng.below(14) };
    match kind {
        0 | 1 => {
            let i = pos(rng, &s);
            s[i] = *rng.pick(&SUBST);
            (s, "subst-boundary")
        }
        2 => {
            let i = pos(rng, &s);
            s[i] = if s[i] == P - 1 { 0 } else { s[i] + 1 };
            (s, "plus-one")
        }
        3 => {
            let i = pos(rng, &s);
            s[i] = if s[i] == 0 { P - 1 } else { s[i] - 1 };
            (s, "minus-one")
        }
        4 => {
            let k = rng.range(1, (s.len() as u64).min(3)) as usize;
            s.truncate(s.len() - k);
            (s, "truncate-end")
        }
        5 => {
            let k = rng.range(1, (s.len() as u64).min(2)) as usize;
            (s[k..].to_vec(), "truncate-front")
        }
        6 => {
            for _ in 0..rng.range(1, 2) {
                s.push(*rng.pick(&[0u64, 1, 2, 0xffff_ffff, P - 1]));
            }
            (s, "extend-end")
        }
        7 => {
            s.insert(0, *rng.pick(&[0u64, 1, 2, s.len() as u64, s.len() as u64 + 1]));
            (s, "extend-front")
        }
        8 => {
            // length-like element +1 and one more element somewhere after it
            let i = pos(rng, &s);
            s[i] = s[i].wrapping_add(1) % P;
            let j = rng.range(i as u64 + 1, s.len() as u64) as usize;
            s.insert(j, *rng.pick(&[0u64, 1, 7]));
            (s, "len-plus-one-consistent")
        }
        9 => {
            // length-like element -1 and one element removed after it
            let i = pos(rng, &s);
            if s[i] > 0 && i + 1 < s.len() {
                s[i] -= 1;
                let j = rng.range(i as u64 + 1, s.len() as u64 - 1) as usize;
                s.remove(j);
            }
            (s, "len-minus-one-consistent")
        }
        10 => {
            let i = pos(rng, &s);
            s.remove(i);
            (s, "delete-one")
        }
        12 | 13 => {
            // a length-like element shifted by a multiple of 2^32 (or 2^16 / 2^63): a decoder that narrows a length
            // prefix (`as u32`, `as u16`, `as usize` on a 32-bit mind-set) would accept a second encoding
            let i = pos(rng, &s);
            let k = *rng.pick(&[1u64 << 32, 1 << 33, 3 << 32, 1 << 63, 1 << 16, (1 << 32) - (1 << 16), 1 << 48]);
            s[i] = (s[i] as u128 + k as u128).rem_euclid(P as u128) as u64;
            (s, "len-plus-2^k")
        }
        _ => {
            // two substitutions
            for _ in 0..2 {
                let i = pos(rng, &s);
                s[i] = *rng.pick(&SUBST);
            }
            (s, "subst-two")
        }
    }
}

pub fn malformed(rng: &mut Rng) -> Vec<u64> {
    let n = match rng.below(6) {
        0 => 0,
        1 => 1,
        2 => 2,
        _ => rng.range(3, 14),
    };
    (0..n)
        .map(|_| match rng.below(5) {
            0 | 1 => rng.below(5),
            2 => rng.below(20),
            3 => *rng.pick(&SUBST),
            _ => rng.fval(),
        })
        .collect()
}

/// encode a generated value with the real implementation (to obtain valid encodings to mutate)
pub fn encode_with(e: &TypeEntry, v: &Val) -> Option<Vec<u64>> {
    match (e.enc)(v) {
        Some(Some(o)) => Some(o.enc.iter().map(|x| x.value()).collect()),
        _ => None,
    }
}

pub fn gen_for_entries(
    fam: &str,
    entries: &[(String, &TypeEntry)],
    rng: &mut Rng,
    per_type: (usize, usize, usize),
    enc_ops: bool,
    out: &mut Vec<String>,
) {
    let (n_val, n_mut, n_bad) = per_type;
    for (d, e) in entries {
        if enc_ops {
            out.push(format!("{} slen {}", fam, d));
        }
        out.push(format!("{} dec {} []", fam, d));
        for i in 0..n_val {
            // mostly small values; every 16th one may hold long lists
            let mut budget = if i % 16 == 15 { 400 } else { 40 };
            let v = gen_val(&e.desc, rng, &mut budget);
            if enc_ops {
                out.push(format!("{} enc {} {}", fam, d, v.fmt()));
            }
            let Some(seq) = encode_with(e, &v) else { continue };
            out.push(format!("{} dec {} {}", fam, d, fmt_list_u64(&seq)));
            for _ in 0..n_mut {
                let (m, _) = mutate(&seq, rng);
                out.push(format!("{} dec {} {}", fam, d, fmt_list_u64(&m)));
            }
        }
        for _ in 0..n_bad {
            out.push(format!("{} dec {} {}", fam, d, fmt_list_u64(&malformed(rng))));
        }
    }
}

pub fn all_entries() -> Vec<(String, &'static TypeEntry)> {
    let r = registry();
    let mut seen = BTreeMap::new();
    let mut v = vec![];
    for e in &r.entries {
        let d = e.desc.fmt();
        if seen.insert(d.clone(), ()).is_none() {
            v.push((d, e));
        }
    }
    v
}

pub fn gen(rng: &mut Rng, thorough: bool, out: &mut Vec<String>) {
    let per_type = if thorough { (500, 8, 150) } else { (5, 3, 4) };
    gen_for_entries("codec", &all_entries(), rng, per_type, true, out);
}

// ---------------------------------------------------------------------------------------------------------------
// runner
// ---------------------------------------------------------------------------------------------------------------
fn class_of_len(n: usize) -> &'static str {
    match n {
        0 => "0",
        1 => "1",
        2..=4 => "2-4",
        5..=16 => "5-16",
        _ => ">16",
    }
}

pub fn run_dec(entries: &[&TypeEntry], d: &TyDesc, seq: &[BFieldElement], st: &mut Stats) -> Out {
    let mut reply: Option<String> = None;
    let mut out_oracle: Option<String> = None;
    for e in entries {
        let (r, orc) = match (e.dec)(seq) {
            DecOut::Ok(v, re) => {
                st.hit("dec:ok");
                let mut orc = None;
                if re != seq {
                    orc = Some(format!("accepted sequence re-encodes differently ({})", e.rust_name));
                }
                if let Some(n) = (e.slen)() {
                    if n != seq.len() {
                        orc = Some(format!("accepted sequence of length {} but static_length is {}", seq.len(), n));
                    }
                }
                (format!("ok:{}", v.fmt()), orc)
            }
            DecOut::Err => {
                st.hit("dec:err");
                ("err".to_string(), None)
            }
            DecOut::Panic => {
                st.hit("dec:panic");
                ("panic".to_string(), Some(format!("decode panicked ({})", e.rust_name)))
            }
        };
        if let Some(prev) = &reply {
            if *prev != r {
                out_oracle.get_or_insert(format!("types with the same shape decode differently: {} vs {}", prev, r));
            }
        }
        reply.get_or_insert(r);
        if out_oracle.is_none() {
            out_oracle = orc;
        }
    }
    st.hit(&format!("dec:len={}", class_of_len(seq.len())));
    if d.has_zero_width_items() {
        st.hit("class:zero-width-items");
    }
    let o = Out::ok(reply.unwrap_or_else(|| "bad-request".into()));
    match out_oracle {
        Some(w) => o.with_oracle(false, w),
        None => o,
    }
}

pub fn run_enc(entries: &[&TypeEntry], d: &TyDesc, v: &Val, st: &mut Stats) -> Out {
    let mut reply: Option<String> = None;
    let mut oracle: Option<String> = None;
    for e in entries {
        let r = match (e.enc)(v) {
            None => return Out::ok("bad-request"),
            Some(None) => {
                oracle.get_or_insert(format!("encode panicked ({})", e.rust_name));
                "panic".to_string()
            }
            Some(Some(o)) => {
                match &o.back {
                    DecOut::Ok(v2, _) => {
                        if *v2 != o.canon {
                            oracle.get_or_insert(format!("decode(encode v) != v: got {}", v2.fmt()));
                        }
                    }
                    DecOut::Err => {
                        st.hit("enc:own-encoding-rejected");
                        oracle.get_or_insert(format!("decode rejects the encoding of a value ({})", e.rust_name));
                    }
                    DecOut::Panic => {
                        st.hit("enc:own-encoding-panics");
                        oracle.get_or_insert(format!("decode panics on the encoding of a value ({})", e.rust_name));
                    }
                }
                if let Some(n) = (e.slen)() {
                    if n != o.enc.len() {
                        oracle.get_or_insert(format!("static_length {} but encoding has {} elements", n, o.enc.len()));
                    }
                }
                if !o.hash_ok {
                    oracle.get_or_insert("Tip5::hash(v) != hash_varlen(encode v)".to_string());
                }
                st.hit(&format!("enc:len={}", class_of_len(o.enc.len())));
                format!("ok:{}", fmt_bfes(&o.enc))
            }
        };
        if let Some(prev) = &reply {
            if *prev != r {
                oracle.get_or_insert(format!("types with the same shape encode differently: {} vs {}", prev, r));
            }
        }
        reply.get_or_insert(r);
    }
    if d.has_zero_width_items() {
        st.hit("class:zero-width-items");
    }
    let o = Out::ok(reply.unwrap_or_else(|| "bad-request".into()));
    match oracle {
        Some(w) => o.with_oracle(false, w),
        None => o,
    }
}

pub fn run_slen(entries: &[&TypeEntry]) -> Out {
    let mut reply: Option<String> = None;
    let mut oracle = None;
    for e in entries {
        let r = match (e.slen)() {
            Some(n) => format!("ok:some:{}", n),
            None => "ok:none".to_string(),
        };
        if let Some(prev) = &reply {
            if *prev != r {
                oracle = Some("types with the same shape report different static lengths".to_string());
            }
        }
        reply.get_or_insert(r);
    }
    let o = Out::ok(reply.unwrap_or_else(|| "bad-request".into()));
    match oracle {
        Some(w) => o.with_oracle(false, w),
        None => o,
    }
}

pub fn run_codec(op: &str, args: &[Arg], st: &mut Stats) -> Option<Out> {
    let d = TyDesc::parse(args.first()?)?;
    let entries = lookup(&d);
    if entries.is_empty() {
        return Some(Out::ok("bad-request"));
    }
    match (op, args.len()) {
        ("slen", 1) => Some(run_slen(&entries)),
        ("enc", 2) => {
            let v = Val::parse(&args[1])?;
            Some(run_enc(&entries, &d, &v, st))
        }
        ("dec", 2) => {
            let seq = args[1].bfes()?;
            Some(run_dec(&entries, &d, &seq, st))
        }
        _ => None,
    }
}
